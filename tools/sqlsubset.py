"""Parser for the SQL subset used by diskcache.core.Cache and compiler to Gallina (DESIGN.md 4.1).

Accepted (anything else raises SqlError):
  SELECT <cols|COUNT(c)|MAX(c)|COALESCE(SUM(c), n)> FROM Cache [WHERE cond] [ORDER BY c [ASC|DESC] [, c [ASC|DESC]]] [LIMIT ?|n]
  UPDATE Cache SET c = <?|c + n|n> [, ...] WHERE cond
  DELETE FROM Cache WHERE cond            (cond may contain  rowid IN (<select> | <IDS>))
  INSERT INTO Cache(c, ...) VALUES (?, ...)
  UPDATE Settings SET value = <expr over value, NEW.c, OLD.c, ints, ?> WHERE key = "<name>" | ?
  SELECT value FROM Settings WHERE key = ?
  CREATE TRIGGER ... AFTER INSERT|UPDATE|DELETE ON Cache FOR EACH ROW BEGIN <update settings>; END
cond := term (OR term)* ; term := factor (AND factor)* ; factor := '(' cond ')' | operand op operand
        | col IS [NOT] NULL | col IN '(' select | IDS ')'
"""
import re


class SqlError(Exception):
    pass


TOKEN = re.compile(r'''\s*(?:(?P<num>\d+)|(?P<id>[A-Za-z_][A-Za-z_0-9]*(?:\.[A-Za-z_][A-Za-z_0-9]*)?)|(?P<str>"[^"]*"|'[^']*')|(?P<op><=|>=|!=|<>|[=<>(),?*+\-;]))''')

# column -> type in the row record of coq/base/SqlBase.v
COLTYPE = {
    'rowid': 'Z', 'key': 'sqlval', 'raw': 'boolZ', 'store_time': 'Z', 'expire_time': 'optZ',
    'access_time': 'Z', 'access_count': 'Z', 'tag': 'sqlval', 'size': 'Z', 'mode': 'Z',
    'filename': 'optF', 'value': 'sqlval',
}
COLPROJ = {
    'rowid': 'rowid', 'key': 'rkey', 'raw': 'rraw', 'store_time': 'store_time', 'expire_time': 'expire_time',
    'access_time': 'access_time', 'access_count': 'access_count', 'tag': 'rtag', 'size': 'rsize', 'mode': 'rmode',
    'filename': 'rfile', 'value': 'rvalue',
}
PARAMTYPE = {'Z': 'Z', 'sqlval': 'sqlval', 'boolZ': 'Z', 'optZ': 'Z', 'optF': 'option Z'}
INSERTTYPE = {'Z': 'Z', 'sqlval': 'sqlval', 'boolZ': 'bool', 'optZ': 'option Z', 'optF': 'option Z'}


def tokenize(s):
    out = []
    pos = 0
    s = s.strip()
    while pos < len(s):
        m = TOKEN.match(s, pos)
        if not m:
            raise SqlError('cannot tokenize at: %r' % s[pos:pos + 30])
        pos = m.end()
        if m.group('num') is not None:
            out.append(('num', int(m.group('num'))))
        elif m.group('id') is not None:
            out.append(('id', m.group('id')))
        elif m.group('str') is not None:
            out.append(('str', m.group('str')[1:-1]))
        else:
            out.append(('op', m.group('op')))
    return out


class P:
    def __init__(self, toks, src):
        self.t = toks
        self.i = 0
        self.src = src
        self.nparam = 0

    def peek(self):
        return self.t[self.i] if self.i < len(self.t) else ('eof', None)

    def kw(self, word):
        k, v = self.peek()
        return k == 'id' and v.upper() == word

    def eat_kw(self, word):
        if not self.kw(word):
            raise SqlError('expected %s at token %d of %r' % (word, self.i, self.src))
        self.i += 1

    def eat_op(self, op):
        k, v = self.peek()
        if k != 'op' or v != op:
            raise SqlError('expected %r at token %d of %r' % (op, self.i, self.src))
        self.i += 1

    def try_op(self, op):
        k, v = self.peek()
        if k == 'op' and v == op:
            self.i += 1
            return True
        return False

    def ident(self):
        k, v = self.peek()
        if k != 'id':
            raise SqlError('expected identifier at token %d of %r' % (self.i, self.src))
        self.i += 1
        return v

    def done(self):
        self.try_op(';')
        if self.i != len(self.t):
            raise SqlError('trailing tokens in %r' % self.src)

    # ---- operands and conditions
    def operand(self):
        k, v = self.peek()
        if k == 'op' and v == '?':
            self.i += 1
            self.nparam += 1
            return ('param', self.nparam)
        if k == 'num':
            self.i += 1
            return ('lit', v)
        if k == 'str':
            self.i += 1
            return ('strlit', v)
        if k == 'id':
            self.i += 1
            return ('col', v)
        raise SqlError('unexpected token %r in %r' % ((k, v), self.src))

    def factor(self):
        if self.try_op('('):
            c = self.cond()
            self.eat_op(')')
            return c
        a = self.operand()
        if self.kw('IS'):
            self.i += 1
            neg = False
            if self.kw('NOT'):
                self.i += 1
                neg = True
            self.eat_kw('NULL')
            if a[0] != 'col':
                raise SqlError('IS NULL on a non-column')
            return ('notnull' if neg else 'isnull', a[1])
        if self.kw('IN'):
            self.i += 1
            self.eat_op('(')
            if self.kw('SELECT'):
                sub = self.select()
                self.eat_op(')')
                return ('in_select', a, sub)
            if self.kw('IDS'):
                self.i += 1
                self.eat_op(')')
                return ('in_ids', a)
            raise SqlError('unsupported IN list in %r' % self.src)
        k, v = self.peek()
        if k != 'op' or v not in ('=', '<', '>', '<=', '>=', '!=', '<>'):
            raise SqlError('expected comparison at token %d of %r' % (self.i, self.src))
        self.i += 1
        b = self.operand()
        return ('cmp', v, a, b)

    def term(self):
        c = self.factor()
        while self.kw('AND'):
            self.i += 1
            c = ('and', c, self.factor())
        return c

    def cond(self):
        c = self.term()
        while self.kw('OR'):
            self.i += 1
            c = ('or', c, self.term())
        return c

    # ---- statements
    def select(self):
        self.eat_kw('SELECT')
        cols = []
        agg = None
        while True:
            if self.kw('COUNT') or self.kw('MAX'):
                fn = self.ident().upper()
                self.eat_op('(')
                c = self.ident()
                self.eat_op(')')
                agg = (fn, c)
            elif self.kw('COALESCE'):
                self.i += 1
                self.eat_op('(')
                self.eat_kw('SUM')
                self.eat_op('(')
                c = self.ident()
                self.eat_op(')')
                self.eat_op(',')
                k, v = self.peek()
                if k != 'num':
                    raise SqlError('COALESCE default must be a number')
                self.i += 1
                self.eat_op(')')
                agg = ('SUM0', c, v)
            else:
                cols.append(self.ident())
            if not self.try_op(','):
                break
        self.eat_kw('FROM')
        table = self.ident()
        where = None
        if self.kw('WHERE'):
            self.i += 1
            where = self.cond()
        order = []
        if self.kw('ORDER'):
            self.i += 1
            self.eat_kw('BY')
            while True:
                c = self.ident()
                d = 'ASC'
                if self.kw('ASC'):
                    self.i += 1
                elif self.kw('DESC'):
                    self.i += 1
                    d = 'DESC'
                order.append((c, d))
                if not self.try_op(','):
                    break
        limit = None
        if self.kw('LIMIT'):
            self.i += 1
            k, v = self.peek()
            if k == 'num':
                self.i += 1
                limit = ('lit', v)
            else:
                self.eat_op('?')
                self.nparam += 1
                limit = ('param', self.nparam)
        return {'kind': 'select', 'cols': cols, 'agg': agg, 'table': table, 'where': where, 'order': order, 'limit': limit}

    def expr(self):
        """value-expression: operand ((+|-) operand)*"""
        e = self.operand()
        while True:
            k, v = self.peek()
            if k == 'op' and v in ('+', '-'):
                self.i += 1
                e = ('bin', v, e, self.operand())
            else:
                return e

    def update(self):
        self.eat_kw('UPDATE')
        table = self.ident()
        self.eat_kw('SET')
        sets = []
        while True:
            c = self.ident()
            self.eat_op('=')
            sets.append((c, self.expr()))
            if not self.try_op(','):
                break
        where = None
        if self.kw('WHERE'):
            self.i += 1
            where = self.cond()
        return {'kind': 'update', 'table': table, 'sets': sets, 'where': where}

    def delete(self):
        self.eat_kw('DELETE')
        self.eat_kw('FROM')
        table = self.ident()
        self.eat_kw('WHERE')
        return {'kind': 'delete', 'table': table, 'where': self.cond()}

    def insert(self):
        self.eat_kw('INSERT')
        self.eat_kw('INTO')
        table = self.ident()
        self.eat_op('(')
        cols = []
        while True:
            cols.append(self.ident())
            if not self.try_op(','):
                break
        self.eat_op(')')
        self.eat_kw('VALUES')
        self.eat_op('(')
        n = 0
        while True:
            self.eat_op('?')
            n += 1
            if not self.try_op(','):
                break
        self.eat_op(')')
        if n != len(cols):
            raise SqlError('INSERT column/value count mismatch')
        return {'kind': 'insert', 'table': table, 'cols': cols}

    def trigger(self):
        self.eat_kw('CREATE')
        self.eat_kw('TRIGGER')
        if self.kw('IF'):
            self.i += 3
        name = self.ident()
        self.eat_kw('AFTER')
        event = self.ident().upper()
        self.eat_kw('ON')
        table = self.ident()
        self.eat_kw('FOR')
        self.eat_kw('EACH')
        self.eat_kw('ROW')
        self.eat_kw('BEGIN')
        body = self.update()
        self.try_op(';')
        self.eat_kw('END')
        return {'kind': 'trigger', 'name': name, 'event': event, 'table': table, 'body': body}


def parse(sql):
    s = ' '.join(sql.split())
    p = P(tokenize(s), s)
    if p.kw('SELECT'):
        r = p.select()
    elif p.kw('UPDATE'):
        r = p.update()
    elif p.kw('DELETE'):
        r = p.delete()
    elif p.kw('INSERT'):
        r = p.insert()
    elif p.kw('CREATE'):
        r = p.trigger()
    else:
        raise SqlError('unsupported statement: %r' % s)
    p.done()
    r['nparam'] = p.nparam
    r['src'] = s
    return r


# ---------------------------------------------------------------------------
# Gallina emission for statements on the Cache table


def col_term(c, row='r'):
    if c not in COLPROJ:
        raise SqlError('unknown column %s' % c)
    return '(%s %s)' % (COLPROJ[c], row)


OPNAME = {'=': 'eq', '<': 'lt', '>': 'gt', '<=': 'le', '>=': 'ge', '!=': 'ne', '<>': 'ne'}
FLIP = {'=': '=', '<': '>', '>': '<', '<=': '>=', '>=': '<=', '!=': '!=', '<>': '<>'}


class Emit:
    def __init__(self):
        self.ptypes = {}      # param index -> coq type

    def setp(self, i, ty):
        if i in self.ptypes and self.ptypes[i] != ty:
            raise SqlError('parameter %d used at two types' % i)
        self.ptypes[i] = ty

    def cmp(self, op, a, b, row='r'):
        # normalise so that a column is on the left when there is one
        if a[0] != 'col' and b[0] == 'col':
            a, b, op = b, a, FLIP[op]
        if a[0] != 'col':
            raise SqlError('comparison without a column')
        ty = COLTYPE.get(a[1])
        if ty is None:
            raise SqlError('unknown column %s' % a[1])
        lhs = col_term(a[1], row)
        if b[0] == 'param':
            self.setp(b[1], PARAMTYPE[ty])
            rhs = 'p%d' % b[1]
        elif b[0] == 'lit':
            rhs = '(%d)' % b[1]
            if ty == 'sqlval':
                rhs = '(SInt %s)' % rhs
        elif b[0] == 'col':
            if COLTYPE.get(b[1]) != ty:
                raise SqlError('comparison of columns of different types')
            rhs = col_term(b[1], row)
        else:
            raise SqlError('unsupported right operand')
        name = OPNAME[op]
        if ty == 'sqlval':
            return '(sql_%s %s %s)' % (name, lhs, rhs)
        if ty == 'Z':
            return '(tvz_%s %s %s)' % (name, lhs, rhs)
        if ty == 'boolZ':
            return '(tvz_%s (b2z %s) %s)' % (name, lhs, rhs)
        if ty == 'optZ':
            return '(tvo_%s %s %s)' % (name, lhs, rhs)
        raise SqlError('comparison on column type %s' % ty)

    def cond(self, c, row='r', table='t'):
        k = c[0]
        if k == 'and':
            return '(tv_and %s %s)' % (self.cond(c[1], row, table), self.cond(c[2], row, table))
        if k == 'or':
            return '(tv_or %s %s)' % (self.cond(c[1], row, table), self.cond(c[2], row, table))
        if k == 'cmp':
            return self.cmp(c[1], c[2], c[3], row)
        if k in ('isnull', 'notnull'):
            ty = COLTYPE.get(c[1])
            t = col_term(c[1], row)
            if ty == 'sqlval':
                return '(tv_is_null %s)' % t if k == 'isnull' else '(tv_not_null %s)' % t
            if ty in ('optZ', 'optF'):
                return '(Some (is_none %s))' % t if k == 'isnull' else '(Some (is_some %s))' % t
            raise SqlError('IS NULL on a NOT NULL-typed column %s' % c[1])
        if k == 'in_select':
            if c[1] != ('col', 'rowid') or c[2]['cols'] != ['rowid']:
                raise SqlError('only rowid IN (SELECT rowid ...) is supported')
            return '(Some (mem_rowid (rowid %s) %s))' % (row, self.select_body(c[2], table))
        if k == 'in_ids':
            if c[1] != ('col', 'rowid'):
                raise SqlError('only rowid IN (ids)')
            return '(Some (existsb (Z.eqb (rowid %s)) ids))' % row
        raise SqlError('unsupported condition %r' % (c,))

    def select_body(self, s, table='t'):
        if s['table'] != 'Cache':
            raise SqlError('select on table %s' % s['table'])
        body = table
        if s['where'] is not None:
            body = '(filter (fun r => truthy %s) %s)' % (self.cond(s['where'], 'r', table), body)
        if s['order']:
            keys = []
            for c, d in s['order']:
                ty = COLTYPE.get(c)
                if ty is None:
                    raise SqlError('ORDER BY unknown column %s' % c)
                keys.append('(ord_%s %s)' % ({'Z': 'z', 'sqlval': 'sql', 'boolZ': 'bool', 'optZ': 'optz'}[ty], COLPROJ[c]))
            ds = set(d for _, d in s['order'])
            if len(ds) != 1:
                raise SqlError('mixed ASC/DESC')
            body = '(sql_order %s %s %s)' % ('true' if 'DESC' in ds else 'false', '[' + '; '.join(keys) + ']', body)
        if s['limit'] is not None:
            if s['limit'][0] == 'lit':
                lim = '(%d)' % s['limit'][1]
            else:
                self.setp(s['limit'][1], 'Z')
                lim = 'p%d' % s['limit'][1]
            body = '(sql_limit %s %s)' % (lim, body)
        return body

    def params(self, n, extra=''):
        out = []
        for i in range(1, n + 1):
            if i not in self.ptypes:
                raise SqlError('parameter %d has no inferred type' % i)
            out.append('(p%d : %s)' % (i, self.ptypes[i]))
        return ' '.join(out) + extra


def emit_select(name, sql):
    s = parse(sql)
    if s['kind'] != 'select':
        raise SqlError('expected SELECT: %r' % sql)
    e = Emit()
    if s['agg'] is not None:
        fn = s['agg'][0]
        body = e.select_body(dict(s, order=[], limit=None))
        col = s['agg'][1]
        if fn == 'COUNT':
            term, ty = '(Z.of_nat (length %s))' % body, 'Z'
        elif fn == 'MAX':
            if COLTYPE.get(col) != 'Z':
                raise SqlError('MAX on non-integer column')
            term, ty = '(max_opt (map %s %s))' % (COLPROJ[col], body), 'option Z'
        else:
            if COLTYPE.get(col) != 'Z':
                raise SqlError('SUM on non-integer column')
            term, ty = '(sumZ (map %s %s) + %d - %d)' % (COLPROJ[col], body, s['agg'][2], s['agg'][2]), 'Z'
        return '(* %s *)\nDefinition %s %s (t : list row) : %s := %s.\n' % (s['src'], name, e.params(s['nparam']), ty, term), s
    body = e.select_body(s)
    return '(* %s *)\nDefinition %s %s (t : list row) : list row := %s.\n' % (s['src'], name, e.params(s['nparam']), body), s


def emit_delete(name, sql, ids=False):
    s = parse(sql)
    if s['kind'] != 'delete' or s['table'] != 'Cache':
        raise SqlError('expected DELETE FROM Cache: %r' % sql)
    e = Emit()
    c = e.cond(s['where'], 'r', 't')
    extra = ' (ids : list Z)' if ids else ''
    return ('(* %s *)\nDefinition %s %s (t : list row) (r : row) : bool := truthy %s.\n'
            % (s['src'], name, e.params(s['nparam'], extra), c)), s


def value_expr(x, e, colty):
    """right-hand side of SET col = <expr> on the Cache table"""
    if x[0] == 'param':
        e.setp(x[1], INSERTTYPE[colty])
        return 'p%d' % x[1]
    if x[0] == 'lit':
        return '(%d)' % x[1]
    if x[0] == 'col':
        return col_term(x[1])
    if x[0] == 'bin':
        return '(%s %s %s)' % (value_expr(x[2], e, colty), x[1], value_expr(x[3], e, colty))
    raise SqlError('unsupported SET expression')


def emit_update(name, sql):
    s = parse(sql)
    if s['kind'] != 'update' or s['table'] != 'Cache':
        raise SqlError('expected UPDATE Cache: %r' % sql)
    e = Emit()
    assigned = {}
    for c, x in s['sets']:
        ty = COLTYPE.get(c)
        if ty is None:
            raise SqlError('unknown column %s' % c)
        if x[0] == 'bin' and ty != 'Z':
            raise SqlError('arithmetic on non-integer column %s' % c)
        assigned[c] = value_expr(x, e, ty)
    fields = []
    for c in ['rowid', 'key', 'raw', 'store_time', 'expire_time', 'access_time', 'access_count', 'tag', 'size', 'mode', 'filename', 'value']:
        fields.append('%s := %s' % (COLPROJ[c], assigned.get(c, col_term(c))))
    cond = e.cond(s['where'], 'r', 't') if s['where'] is not None else '(Some true)'
    n = s['nparam']
    return ('(* %s *)\nDefinition %s_set %s (r : row) : row := {| %s |}.\nDefinition %s_where %s (r : row) : bool := truthy %s.\n'
            % (s['src'], name, e.params(n), '; '.join(fields), name, e.params(n), cond)), s


def emit_insert(name, sql):
    s = parse(sql)
    if s['kind'] != 'insert' or s['table'] != 'Cache':
        raise SqlError('expected INSERT INTO Cache: %r' % sql)
    e = Emit()
    assigned = {}
    for i, c in enumerate(s['cols'], 1):
        ty = COLTYPE.get(c)
        if ty is None:
            raise SqlError('unknown column %s' % c)
        e.setp(i, INSERTTYPE[ty])
        assigned[c] = 'p%d' % i
    defaults = {'rowid': 'new_rowid', 'access_count': '0', 'size': '0', 'mode': '0'}
    fields = []
    for c in ['rowid', 'key', 'raw', 'store_time', 'expire_time', 'access_time', 'access_count', 'tag', 'size', 'mode', 'filename', 'value']:
        if c in assigned:
            fields.append('%s := %s' % (COLPROJ[c], assigned[c]))
        elif c in defaults:
            fields.append('%s := %s' % (COLPROJ[c], defaults[c]))
        else:
            raise SqlError('INSERT leaves column %s without a value and the model has no default for it' % c)
    return ('(* %s *)\nDefinition %s %s (new_rowid : Z) : row := {| %s |}.\n'
            % (s['src'], name, e.params(len(s['cols'])), '; '.join(fields))), s


def trigger_expr(x):
    if x[0] == 'lit':
        return '(%d)' % x[1]
    if x[0] == 'col':
        c = x[1]
        if c == 'value':
            return 'v'
        if c.startswith('NEW.') or c.startswith('OLD.'):
            who, col = c.split('.')
            if COLTYPE.get(col) != 'Z':
                raise SqlError('trigger uses non-integer column %s' % col)
            return '(%s %s)' % (COLPROJ[col], who.lower() + 'r')
        raise SqlError('trigger expression uses %s' % c)
    if x[0] == 'bin':
        return '(%s %s %s)' % (trigger_expr(x[2]), x[1], trigger_expr(x[3]))
    raise SqlError('unsupported trigger expression')


def emit_trigger(sql):
    """returns (event, settings_key, gallina function text `fun v newr oldr => ...`)"""
    s = parse(sql)
    if s['kind'] != 'trigger' or s['table'] != 'Cache':
        raise SqlError('expected CREATE TRIGGER ... ON Cache')
    b = s['body']
    if b['table'] != 'Settings' or len(b['sets']) != 1 or b['sets'][0][0] != 'value':
        raise SqlError('trigger body is not UPDATE Settings SET value = ...')
    w = b['where']
    if not (w and w[0] == 'cmp' and w[1] == '=' and w[2] == ('col', 'key') and w[3][0] == 'strlit'):
        raise SqlError('trigger WHERE is not key = "<name>"')
    return s['event'], w[3][1], '(fun (v : Z) (newr oldr : row) => %s)' % trigger_expr(b['sets'][0][1]), s
