"""Gen_Check.v: Cache.check and FanoutCache.check (C17).

Read off the source: every guard (`size != real_size`, each `if fix`, `DBNAME in full_path`,
`not (dirs or files)`, `self.count != count`, `self.size != size`), the SQL / os call each repair
executes, the order of the passes inside the transaction, the os.walk() calls (directory, direction),
and FanoutCache.check's concatenation over the shards.  Everything else must be AST-identical to the
templates below (fail-closed)."""
import ast
import copy
import re

from pyast import Expr, TranslateError, dotted, err, find_func, match_template, unify
from translate import HEADER

T_OUTER = '''
def check(self, fix=False, retry=False):
    with warnings.catch_warnings(record=True) as warns:
        sql = self._sql
        rows = sql('PRAGMA integrity_check').fetchall()
        if len(rows) != 1 or rows[0][0] != 'ok':
            for (message,) in rows:
                warnings.warn(message)
        if __Hg_vacuum__:
            sql('VACUUM')
        with self._transact(retry) as (sql, _):
            pass
        return warns
'''

T_ROWS = '''
filenames = set()
select = 'SELECT rowid, size, filename FROM Cache WHERE filename IS NOT NULL'
rows = sql(select).fetchall()
for rowid, size, filename in rows:
    full_path = op.join(self._directory, filename)
    filenames.add(full_path)
    if op.exists(full_path):
        real_size = op.getsize(full_path)
        if __Hg_wrong_size__:
            message = 'wrong file size: %s, %d != %d'
            args = full_path, real_size, size
            warnings.warn(message % args)
            if __Hg_fix_wrong_size__:
                __Hrepair_wrong_size__
        continue
    warnings.warn('file not found: %s' % full_path)
    if __Hg_fix_not_found__:
        __Hrepair_not_found__
'''

T_UNKNOWN = '''
for dirpath, _, files in __Hwalk_unknown__:
    paths = [op.join(dirpath, filename) for filename in files]
    error = set(paths) - filenames
    for full_path in error:
        if __Hg_skip_unknown__:
            continue
        message = 'unknown file: %s' % full_path
        warnings.warn(message, UnknownFileWarning)
        if __Hg_fix_unknown__:
            __Hrepair_unknown__
'''

T_EMPTY = '''
for dirpath, dirs, files in __Hwalk_empty__:
    if __Hg_empty_dir__:
        message = 'empty directory: %s' % dirpath
        warnings.warn(message, EmptyDirWarning)
        if __Hg_fix_empty__:
            __Hrepair_empty__
'''

T_COUNT = '''
self.reset('count')
((count,),) = sql('SELECT COUNT(key) FROM Cache').fetchall()
if __Hg_count_wrong__:
    message = 'Settings.count != COUNT(Cache.key); %d != %d'
    warnings.warn(message % (self.count, count))
    if __Hg_fix_count__:
        __Hrepair_count__
'''

T_SIZE = '''
self.reset('size')
select_size = 'SELECT COALESCE(SUM(size), 0) FROM Cache'
((size,),) = sql(select_size).fetchall()
if __Hg_size_wrong__:
    message = 'Settings.size != SUM(Cache.size); %d != %d'
    warnings.warn(message % (self.size, size))
    if __Hg_fix_size__:
        __Hrepair_size__
'''

PASSES = [('PassRows', T_ROWS), ('PassUnknown', T_UNKNOWN), ('PassEmpty', T_EMPTY),
          ('PassCount', T_COUNT), ('PassSize', T_SIZE)]

T_FANOUT = '''
def check(self, fix=False, retry=False):
    warnings = (shard.check(__Hfix__, __Hretry__) for shard in __Hshards__)
    return functools.reduce(operator.iadd, warnings, [])
'''


def norm_sql(s):
    return ' '.join(s.split()).replace('= ?', '=?').replace('=?', ' = ?').replace('  ', ' ')


class _PassToMarker(ast.NodeTransformer):
    """`if c: pass` -> `if c: __PASS__` so that a repair replaced by `pass` is a recognised form."""

    def visit_If(self, node):
        self.generic_visit(node)
        if len(node.body) == 1 and isinstance(node.body[0], ast.Pass):
            node.body = [ast.copy_location(ast.Expr(value=ast.Name(id='__PASS__', ctx=ast.Load())), node.body[0])]
        return node


def sql_call(node, fname):
    """sql('<text>', (<args>,)) -> (normalised text, [arg source])   or None for the pass marker."""
    if isinstance(node, ast.Name) and node.id == '__PASS__':
        return None
    if not (isinstance(node, ast.Call) and dotted(node.func) == 'sql' and not node.keywords and len(node.args) == 2
            and isinstance(node.args[0], ast.Constant) and isinstance(node.args[0].value, str)
            and isinstance(node.args[1], ast.Tuple)):
        err(node, 'repair is not sql(<string literal>, (<parameters>)): ' + ast.unparse(node), fname)
    return norm_sql(node.args[0].value), [ast.unparse(a) for a in node.args[1].elts]


def row_repair(node, fname):
    c = sql_call(node, fname)
    if c is None:
        return 'RowNone', 'pass'
    text, args = c
    if text == 'UPDATE Cache SET size = ? WHERE rowid = ?' and len(args) == 2 and args[1] == 'rowid':
        if args[0] == 'real_size':
            return 'RowSetSize SrcRealSize', text
        if args[0] == 'size':
            return 'RowSetSize SrcRowSize', text
    if text == 'DELETE FROM Cache WHERE rowid = ?' and args == ['rowid']:
        return 'RowDelete', text
    err(node, 'unsupported row repair: ' + ast.unparse(node), fname)


def ctr_repair(node, fname):
    c = sql_call(node, fname)
    if c is None:
        return 'CtrNone', 'pass'
    text, args = c
    if text == 'UPDATE Settings SET value = ? WHERE key = ?' and len(args) == 2:
        which = {"'count'": 'CCount', "'size'": 'CSize'}.get(args[1])
        src = {'count': 'SrcCounted', 'size': 'SrcCounted', 'self.count': 'SrcStored', 'self.size': 'SrcStored'}.get(args[0])
        if which and src and (args[0].split('.')[-1] == args[1].strip("'")):
            return 'CtrSet %s %s' % (which, src), text
    err(node, 'unsupported counter repair: ' + ast.unparse(node), fname)


def fs_repair(node, arg, fname):
    if isinstance(node, ast.Name) and node.id == '__PASS__':
        return 'FsNone'
    if isinstance(node, ast.Call) and not node.keywords and len(node.args) == 1 and ast.unparse(node.args[0]) == arg:
        d = dotted(node.func)
        table = {'os.remove': 'FsRemoveFile', 'os.unlink': 'FsRemoveFile', 'os.rmdir': 'FsRmdir', 'os.removedirs': 'FsRemovedirs'}
        if d in table:
            return table[d]
    err(node, 'unsupported file-system repair (expected os.remove/os.rmdir/os.removedirs of %s): %s' % (arg, ast.unparse(node)), fname)


def walk_call(node, fname):
    """os.walk(self._directory[, topdown=<bool literal>]) -> TopDown | BottomUp"""
    if not (isinstance(node, ast.Call) and dotted(node.func) == 'os.walk'):
        err(node, 'expected os.walk(...): ' + ast.unparse(node), fname)
    if not node.args or ast.unparse(node.args[0]) != 'self._directory':
        err(node, 'os.walk no longer starts at self._directory: ' + ast.unparse(node), fname)
    topdown = True
    if len(node.args) >= 2:
        a = node.args[1]
        if not (isinstance(a, ast.Constant) and a.value in (True, False)) or len(node.args) > 2:
            err(node, 'unsupported os.walk arguments: ' + ast.unparse(node), fname)
        topdown = a.value
    for kw in node.keywords:
        if kw.arg == 'topdown' and isinstance(kw.value, ast.Constant) and kw.value.value in (True, False):
            topdown = kw.value.value
        else:
            err(node, 'unsupported os.walk keyword: ' + ast.unparse(node), fname)
    return 'TopDown' if topdown else 'BottomUp'


def split_passes(body, fname, where):
    """Match the statement list of the transaction against the pass templates, in whatever order they occur."""
    tmpl = [(name, ast.parse(src).body) for name, src in PASSES]
    pos, order, holes = 0, [], {}
    while pos < len(body):
        errors = []
        for name, t in tmpl:
            if name in order:
                continue
            chunk = body[pos:pos + len(t)]
            if len(chunk) != len(t):
                continue
            h = {}
            try:
                unify(t, chunk, h, fname, ctx=body[pos])
            except TranslateError as e:
                errors.append((name, str(e)))
                continue
            holes.update(h)
            order.append(name)
            pos += len(t)
            break
        else:
            # report the error of the template that got furthest (largest line number)
            def line(e):
                m = re.match(r'.*?:(\d+):', e[1])
                return int(m.group(1)) if m else 0
            best = max(errors, key=line) if errors else ('?', '%s:%s: statement matches no pass of check' % (fname, getattr(body[pos], 'lineno', '?')))
            raise TranslateError(best[1] + ' (while matching %s)' % best[0])
    missing = [n for n, _ in PASSES if n not in order]
    if missing:
        err(where, 'check() no longer contains: ' + ', '.join(missing), fname)
    return order, holes


def emit(ctx):
    fname = ctx.path('core')
    tree = ctx.tree('core')
    f = copy.deepcopy(find_func(tree, 'Cache.check', fname))
    f = _PassToMarker().visit(f)
    # cut the transaction body out
    try:
        with1 = [n for n in f.body if isinstance(n, ast.With)][0]
        with2 = [n for n in with1.body if isinstance(n, ast.With)][0]
    except IndexError:
        err(f, 'check() no longer has the catch_warnings / _transact structure', fname)
    body = with2.body
    with2.body = [ast.Pass()]
    h = match_template(T_OUTER, f, fname)
    order, holes = split_passes(body, fname, f)
    h.update(holes)

    def guard(name, env):
        return Expr(env, fname).boolean(h[name])

    fixenv = {'fix': ('fx', 'bool')}
    out = [HEADER % 'core.py Cache.check, fanout.py FanoutCache.check',
           'From DC Require Import DCPrelude CheckBase.\n\n']
    out.append('(* VACUUM before the transaction *)\n')
    out.append('Definition g_vacuum (fx : bool) : bool := %s.\n\n' % guard('__Hg_vacuum__', fixenv))

    out.append('(* pass 1: rows with a file name against the file system (SELECT ... WHERE filename IS NOT NULL) *)\n')
    out.append('Definition g_wrong_size (size real_size : Z) : bool := %s.\n'
               % guard('__Hg_wrong_size__', {'size': ('size', 'Z'), 'real_size': ('real_size', 'Z')}))
    out.append('Definition g_fix_wrong_size (fx : bool) : bool := %s.\n' % guard('__Hg_fix_wrong_size__', fixenv))
    r, text = row_repair(h['__Hrepair_wrong_size__'], fname)
    out.append('Definition repair_wrong_size : row_repair := %s.   (* %s *)\n' % (r, text))
    out.append('Definition g_fix_not_found (fx : bool) : bool := %s.\n' % guard('__Hg_fix_not_found__', fixenv))
    r, text = row_repair(h['__Hrepair_not_found__'], fname)
    out.append('Definition repair_not_found : row_repair := %s.   (* %s *)\n\n' % (r, text))

    out.append('(* pass 2: files against the rows *)\n')
    out.append('Definition walk_unknown : walk_order := %s.\n' % walk_call(h['__Hwalk_unknown__'], fname))
    out.append('Definition g_skip_unknown (full_path : file) : bool := %s.\n'
               % guard('__Hg_skip_unknown__', {'DBNAME': ('DBNAME', 'dbname'), 'full_path': ('full_path', 'set:path_has')}))
    out.append('Definition g_fix_unknown (fx : bool) : bool := %s.\n' % guard('__Hg_fix_unknown__', fixenv))
    out.append('Definition repair_unknown : fs_repair := %s.\n\n' % fs_repair(h['__Hrepair_unknown__'], 'full_path', fname))

    out.append('(* pass 3: empty directories *)\n')
    out.append('Definition walk_empty : walk_order := %s.\n' % walk_call(h['__Hwalk_empty__'], fname))
    out.append('Definition g_empty_dir {A B : Type} (dirs : list A) (files : list B) : bool := %s.\n'
               % guard('__Hg_empty_dir__', {'dirs': ('dirs', 'list'), 'files': ('files', 'list')}))
    out.append('Definition g_fix_empty (fx : bool) : bool := %s.\n' % guard('__Hg_fix_empty__', fixenv))
    out.append('Definition repair_empty : fs_repair := %s.\n\n' % fs_repair(h['__Hrepair_empty__'], 'dirpath', fname))

    out.append('(* passes 4, 5: Settings.count / Settings.size against COUNT(key) / COALESCE(SUM(size), 0) *)\n')
    out.append('Definition g_count_wrong (self_count count : Z) : bool := %s.\n'
               % guard('__Hg_count_wrong__', {'self.count': ('self_count', 'Z'), 'count': ('count', 'Z')}))
    out.append('Definition g_fix_count (fx : bool) : bool := %s.\n' % guard('__Hg_fix_count__', fixenv))
    r, text = ctr_repair(h['__Hrepair_count__'], fname)
    out.append('Definition repair_count : ctr_repair := %s.   (* %s *)\n' % (r, text))
    out.append('Definition g_size_wrong (self_size size : Z) : bool := %s.\n'
               % guard('__Hg_size_wrong__', {'self.size': ('self_size', 'Z'), 'size': ('size', 'Z')}))
    out.append('Definition g_fix_size (fx : bool) : bool := %s.\n' % guard('__Hg_fix_size__', fixenv))
    r, text = ctr_repair(h['__Hrepair_size__'], fname)
    out.append('Definition repair_size : ctr_repair := %s.   (* %s *)\n\n' % (r, text))

    out.append('(* order of the passes inside the transaction *)\n')
    out.append('Definition check_passes : list pass := [%s].\n\n' % '; '.join(order))

    # ---- FanoutCache.check
    pname = ctx.path('fanout')
    ff = find_func(ctx.tree('fanout'), 'FanoutCache.check', pname)
    fh = match_template(T_FANOUT, ff, pname)
    passes_fix = 'true' if ast.unparse(fh['__Hfix__']) == 'fix' else 'false'
    shards = ast.unparse(fh['__Hshards__'])
    if shards == 'self._shards':
        sh = 'true'
    elif shards in ('reversed(self._shards)', 'self._shards[::-1]'):
        sh = 'false'
    else:
        err(fh['__Hshards__'], 'FanoutCache.check no longer iterates self._shards: ' + shards, pname)
    out.append('(* FanoutCache.check: functools.reduce(operator.iadd, (shard.check(fix, retry) for shard in self._shards), []) *)\n')
    out.append('Definition fanout_check_passes_fix : bool := %s.\n' % passes_fix)
    out.append('Definition fanout_check_in_shard_order : bool := %s.\n' % sh)
    return {'Gen_Check.v': ''.join(out)}
