"""Gen_Format.v: the on-disk format and the way a handle (re)opens a directory, as data read from the
source (C18): DBNAME, every DDL string of Cache.__init__ / EVICTION_POLICY / create_tag_index, DEFAULT_SETTINGS,
METADATA, the settings-merge order of Cache.__init__, the shard directory format and the size_limit handling of
FanoutCache.__init__, the file-name layout of Disk.filename, the queue keys of push/pull/peek, and the
__getstate__ tuples / __init__ positional parameters of Cache and FanoutCache.  Fail-closed."""
import ast

from pyast import TranslateError, dotted, err, find_func, match_template, strip_doc, unify
from translate import HEADER

T_INIT = '''
def __init__(self, directory=None, timeout=60, disk=Disk, **settings):
    try:
        assert issubclass(disk, Disk)
    except (TypeError, AssertionError):
        raise ValueError('disk must subclass diskcache.Disk') from None

    if directory is None:
        directory = tempfile.mkdtemp(prefix='diskcache-')
    directory = str(directory)
    directory = op.expanduser(directory)
    directory = op.expandvars(directory)

    self._directory = directory
    self._timeout = 0
    self._local = threading.local()
    self._txn_id = None
    self._txn_files = ([], [])

    if not op.isdir(directory):
        try:
            os.makedirs(directory, 0o755)
        except OSError as error:
            if error.errno != errno.EEXIST:
                raise EnvironmentError(
                    error.errno,
                    'Cache directory "%s" does not exist'
                    ' and could not be created' % self._directory,
                ) from None

    sql = self._sql_retry

    try:
        current_settings = dict(
            sql('SELECT key, value FROM Settings').fetchall()
        )
    except sqlite3.OperationalError:
        current_settings = {}

    sets = __Hmerge0__.copy()
    sets.update(__Hmerge1__)
    sets.update(__Hmerge2__)

    for key in __Hdropped__:
        sets.pop(key, None)

    for key, value in sorted(sets.items()):
        if key.startswith('sqlite_'):
            self.reset(key, value, update=False)

    sql(__Hddl_settings__)

    kwargs = {
        key[5:]: value
        for key, value in sets.items()
        if key.startswith('disk_')
    }
    self._disk = disk(directory, **kwargs)

    for key, value in sets.items():
        query = 'INSERT OR REPLACE INTO Settings VALUES (?, ?)'
        sql(query, (key, value))
        self.reset(key, value)

    for key, value in METADATA.items():
        query = 'INSERT OR IGNORE INTO Settings VALUES (?, ?)'
        sql(query, (key, value))
        self.reset(key)

    ((self._page_size,),) = sql('PRAGMA page_size').fetchall()

    sql(__Hddl_cache__)
    sql(__Hddl_key_raw__)
    sql(__Hddl_expire__)

    query = EVICTION_POLICY[self.eviction_policy]['init']

    if query is not None:
        sql(query)

    sql(__Hddl_t1__)
    sql(__Hddl_t2__)
    sql(__Hddl_t3__)
    sql(__Hddl_t4__)
    sql(__Hddl_t5__)

    if self.tag_index:
        self.create_tag_index()
    else:
        self.drop_tag_index()

    self.close()
    self._timeout = timeout
    self._sql
'''

T_TAG_INDEX = '''
def create_tag_index(self):
    sql = self._sql
    sql(__Hddl__)
    self.reset('tag_index', 1)
'''

T_FANOUT_INIT = '''
def __init__(self, directory=None, shards=8, timeout=0.010, disk=Disk, **settings):
    if directory is None:
        directory = tempfile.mkdtemp(prefix='diskcache-')
    directory = str(directory)
    directory = op.expanduser(directory)
    directory = op.expandvars(directory)

    default_size_limit = DEFAULT_SETTINGS['size_limit']
    given = 'size_limit' in settings
    size_limit = settings.pop('size_limit', default_size_limit) / shards

    def shard(num):
        path = op.join(directory, __Hfmt__ % num)
        limit = {}
        if given or not op.exists(op.join(path, DBNAME)):
            limit['size_limit'] = size_limit
        return Cache(
            directory=path, timeout=timeout, disk=disk, **limit, **settings
        )

    self._count = shards
    self._directory = directory
    self._disk = disk
    self._shards = tuple(shard(num) for num in range(shards))
    self._hash = self._shards[0].disk.hash
    self._caches = {}
    self._deques = {}
    self._indexes = {}
'''

# the database file of a Cache: what FanoutCache.__init__ tests for existence is the file a shard's Cache opens
T_CON_CONNECT = 'sqlite3.connect(op.join(self._directory, DBNAME), timeout=self._timeout, isolation_level=None)'

T_FILENAME = '''
def filename(self, key=UNKNOWN, value=UNKNOWN):
    hex_name = codecs.encode(os.urandom(__Hn__), 'hex').decode('utf-8')
    sub_dir = op.join(hex_name[:__Ha__], hex_name[__Ha__:__Hb__])
    name = hex_name[__Hb__:] + __Hsuffix__
    filename = op.join(sub_dir, name)
    full_path = op.join(self._directory, filename)
    return filename, full_path
'''

T_QUEUE_RANGE = '''
if prefix is None:
    min_key = __Hmin__
    max_key = __Hmax__
else:
    min_key = prefix + __Hmins__
    max_key = prefix + __Hmaxs__
'''

T_GETSTATE = '''
def __getstate__(self):
    return __Hstate__
'''
T_SETSTATE = '''
def __setstate__(self, state):
    self.__init__(*state)
'''

FIELD = {'self.directory': 'HDirectory', 'self._directory': 'HDirectory', 'self.timeout': 'HTimeout', 'self._timeout': 'HTimeout',
         'type(self.disk)': 'HDiskClass', 'type(self._disk)': 'HDiskClass', 'self._count': 'HShards', 'self.maxlen': 'HMaxlen'}
PARAM = {'directory': 'HDirectory', 'timeout': 'HTimeout', 'disk': 'HDiskClass', 'shards': 'HShards', 'maxlen': 'HMaxlen'}


def cstr(s):
    return '[' + '; '.join(str(ord(c)) for c in s) + ']' if s else '[]'


def strconst(node, fname, what):
    if isinstance(node, ast.Constant) and isinstance(node.value, str):
        return node.value
    err(node, '%s is not a string literal: %s' % (what, ast.unparse(node)), fname)


def intconst(node, fname, what):
    try:
        v = ast.literal_eval(node)
    except Exception:
        v = None
    if isinstance(v, int) and not isinstance(v, bool):
        return v
    err(node, '%s is not an integer literal: %s' % (what, ast.unparse(node)), fname)


def norm_ddl(s):
    return ' '.join(s.split())


def module_assign(tree, name, fname):
    for n in tree.body:
        if isinstance(n, ast.Assign) and len(n.targets) == 1 and isinstance(n.targets[0], ast.Name) and n.targets[0].id == name:
            return n.value
    raise TranslateError('%s: module constant %s not found' % (fname, name))


def imported_from_core(tree, name, fname):
    """`name` at module level of fanout.py is `from .core import name` and nothing else binds it there."""
    hits = 0
    for n in tree.body:
        if isinstance(n, ast.ImportFrom):
            for a in n.names:
                if (a.asname or a.name) == name:
                    if not (n.module == 'core' and n.level == 1 and a.asname is None):
                        err(n, '%s is not imported from .core' % name, fname)
                    hits += 1
        elif isinstance(n, ast.Import):
            for a in n.names:
                if (a.asname or a.name).split('.')[0] == name:
                    err(n, '%s is rebound by an import' % name, fname)
        elif isinstance(n, (ast.Assign, ast.AugAssign, ast.AnnAssign, ast.FunctionDef, ast.ClassDef)):
            targets = n.targets if isinstance(n, ast.Assign) else [getattr(n, 'target', None)]
            names = {t.id for t in targets if isinstance(t, ast.Name)} | ({n.name} if hasattr(n, 'name') else set())
            if name in names:
                err(n, '%s is rebound at module level' % name, fname)
    if hits != 1:
        raise TranslateError('%s: expected exactly one `from .core import %s`, found %d' % (fname, name, hits))


def sval(node, fname):
    if isinstance(node, ast.Constant) and isinstance(node.value, str):
        return 'SVStr %s' % cstr(node.value), repr(node.value)
    if ast.unparse(node) == 'pickle.HIGHEST_PROTOCOL':
        return 'SVPickleHighest', 'pickle.HIGHEST_PROTOCOL'
    if isinstance(node, (ast.Constant, ast.BinOp, ast.UnaryOp)):
        try:
            v = eval(compile(ast.Expression(node), '<const>', 'eval'), {'__builtins__': {}})   # integer literals and 2**n only
        except Exception:
            v = None
        if isinstance(v, int) and not isinstance(v, bool):
            return 'SVInt (%d)' % v, str(v)
    err(node, 'unsupported settings value: ' + ast.unparse(node), fname)


def settings_dict(node, fname, what):
    if not isinstance(node, ast.Dict):
        err(node, '%s is not a dict literal' % what, fname)
    out = []
    for k, v in zip(node.keys, node.values):
        key = strconst(k, fname, 'key of ' + what)
        # only literal ints / strings / 2**n / pickle.HIGHEST_PROTOCOL
        for sub in ast.walk(v):
            if isinstance(sub, (ast.Call, ast.Name, ast.Subscript, ast.Lambda)) and ast.unparse(v) != 'pickle.HIGHEST_PROTOCOL':
                err(v, 'unsupported settings value: ' + ast.unparse(v), fname)
        term, txt = sval(v, fname)
        out.append((key, term, txt))
    return out


def emit_dict(name, items, comment):
    lines = ['(* %s *)\n' % comment, 'Definition %s : list (list Z * sval) := [\n' % name]
    lines.append(';\n'.join('  (%s, %s)   (* %s: %s *)' % (cstr(k), t, k, txt) for k, t, txt in items))
    lines.append('\n].\n\n')
    return ''.join(lines)


def state_fields(node, fname):
    elts = node.elts if isinstance(node, ast.Tuple) else [node]
    out = []
    for e in elts:
        s = ast.unparse(e)
        if s not in FIELD:
            err(e, 'unsupported __getstate__ component: ' + s, fname)
        out.append(FIELD[s])
    return out


def init_params(f, fname):
    """positional parameters of __init__ after self (what *state is fed into)"""
    out = []
    for a in f.args.args[1:]:
        if a.arg not in PARAM:
            err(f, 'unsupported positional parameter of __init__: ' + a.arg, fname)
        out.append(PARAM[a.arg])
    return out


def emit(ctx):
    fname = ctx.path('core')
    tree = ctx.tree('core')
    out = [HEADER % 'core.py DBNAME, DEFAULT_SETTINGS, METADATA, EVICTION_POLICY, Cache.__init__/create_tag_index/__getstate__/push/pull/peek, '
           'Disk.filename; fanout.py FanoutCache.__init__/__getstate__',
           'From DC Require Import DCPrelude FormatBase.\n\n']

    dbname = strconst(module_assign(tree, 'DBNAME', fname), fname, 'DBNAME')
    out.append('Definition DBNAME : list Z := %s.   (* %r *)\n\n' % (cstr(dbname), dbname))

    defaults = settings_dict(module_assign(tree, 'DEFAULT_SETTINGS', fname), fname, 'DEFAULT_SETTINGS')
    out.append(emit_dict('DEFAULT_SETTINGS', defaults, 'DEFAULT_SETTINGS, in source order'))
    meta = settings_dict(module_assign(tree, 'METADATA', fname), fname, 'METADATA')
    out.append(emit_dict('METADATA', meta, 'METADATA'))

    # ---- Cache.__init__: merge order and DDL
    h = match_template(T_INIT, find_func(tree, 'Cache.__init__', fname), fname)
    srcs = {'DEFAULT_SETTINGS': 'SrcDefaults', 'current_settings': 'SrcStored', 'settings': 'SrcGiven'}
    order = []
    for name in ('__Hmerge0__', '__Hmerge1__', '__Hmerge2__'):
        d = dotted(h[name])
        if d not in srcs:
            err(h[name], 'unknown dictionary in the settings merge: ' + ast.unparse(h[name]), fname)
        order.append(srcs[d])
    if sorted(order) != sorted(srcs.values()):
        err(h['__Hmerge0__'], 'settings merge no longer uses defaults, stored and given settings once each', fname)
    dropped = dotted(h['__Hdropped__'])
    if dropped != 'METADATA':
        err(h['__Hdropped__'], 'the keys dropped from the merged settings are no longer METADATA', fname)
    out.append('(* Cache.__init__: sets = <first>.copy(); sets.update(<second>); sets.update(<third>); then every METADATA key is popped;\n'
               '   every remaining (key, value) is written with INSERT OR REPLACE INTO Settings *)\n')
    out.append('Definition merge_order : list merge_src := [%s].\n' % '; '.join(order))
    out.append('Definition merge_drops_metadata : bool := true.\n\n')

    ddl = []
    for name, hole in (('Settings', '__Hddl_settings__'), ('Cache', '__Hddl_cache__'), ('Cache_key_raw', '__Hddl_key_raw__'),
                       ('Cache_expire_time', '__Hddl_expire__'), ('trigger1', '__Hddl_t1__'), ('trigger2', '__Hddl_t2__'),
                       ('trigger3', '__Hddl_t3__'), ('trigger4', '__Hddl_t4__'), ('trigger5', '__Hddl_t5__')):
        ddl.append(norm_ddl(strconst(h[hole], fname, 'DDL statement ' + name)))
    out.append('(* the DDL executed by Cache.__init__, in order, whitespace-normalised *)\n')
    out.append('Definition init_ddl : list (list Z) := [\n')
    out.append(';\n'.join('  %s\n  (* %s *)' % (cstr(s), s.replace('*)', '* )').replace('"', "'")) for s in ddl))
    out.append('\n].\n\n')

    # EVICTION_POLICY init statements
    ep = module_assign(tree, 'EVICTION_POLICY', fname)
    if not isinstance(ep, ast.Dict):
        err(ep, 'EVICTION_POLICY is not a dict literal', fname)
    pol = []
    for k, v in zip(ep.keys, ep.values):
        pname = strconst(k, fname, 'policy name')
        if not isinstance(v, ast.Dict):
            err(v, 'policy entry is not a dict literal', fname)
        init = None
        found = False
        for kk, vv in zip(v.keys, v.values):
            if strconst(kk, fname, 'policy field') == 'init':
                found = True
                init = None if (isinstance(vv, ast.Constant) and vv.value is None) else norm_ddl(strconst(vv, fname, 'policy init'))
        if not found:
            err(v, 'policy %s has no init entry' % pname, fname)
        pol.append((pname, init))
    out.append('(* EVICTION_POLICY[...][\'init\']: the index each policy creates *)\n')
    out.append('Definition policy_ddl : list (list Z * option (list Z)) := [\n')
    out.append(';\n'.join('  (%s, %s)   (* %s: %s *)' % (cstr(p), 'None' if i is None else 'Some %s' % cstr(i), p, i) for p, i in pol))
    out.append('\n].\n\n')

    ht = match_template(T_TAG_INDEX, find_func(tree, 'Cache.create_tag_index', fname), fname)
    tag = norm_ddl(strconst(ht['__Hddl__'], fname, 'tag index DDL'))
    out.append('Definition tag_index_ddl : list Z := %s.\n(* %s *)\n\n' % (cstr(tag), tag))

    # ---- file name layout
    hf = match_template(T_FILENAME, find_func(tree, 'Disk.filename', fname), fname)
    out.append('(* Disk.filename: hex of os.urandom(n), <hex[:a]>/<hex[a:b]>/<hex[b:]><suffix> *)\n')
    out.append('Definition value_file_layout : name_layout := {| nl_random_bytes := %d; nl_split1 := %d; nl_split2 := %d; nl_suffix := %s |}.\n\n'
               % (intconst(hf['__Hn__'], fname, 'random byte count'), intconst(hf['__Ha__'], fname, 'first split'),
                  intconst(hf['__Hb__'], fname, 'second split'), cstr(strconst(hf['__Hsuffix__'], fname, 'suffix'))))

    # ---- queue keys
    ranges = []
    for m in ('push', 'pull', 'peek'):
        f = find_func(tree, 'Cache.' + m, fname)
        first = strip_doc(f.body)[0]
        hh = {}
        unify(ast.parse(T_QUEUE_RANGE).body, [first], hh, fname, ctx=first)
        ranges.append((intconst(hh['__Hmin__'], fname, 'min key'), intconst(hh['__Hmax__'], fname, 'max key'),
                       strconst(hh['__Hmins__'], fname, 'min key suffix'), strconst(hh['__Hmaxs__'], fname, 'max key suffix')))
    if len(set(ranges)) != 1:
        raise TranslateError('%s: push, pull and peek no longer use the same key range: %r' % (fname, ranges))
    push = find_func(tree, 'Cache.push', fname)
    starts = [n for n in ast.walk(push) if isinstance(n, ast.Assign) and len(n.targets) == 1 and dotted(n.targets[0]) == 'num'
              and isinstance(n.value, ast.Constant)]
    fmts = [n for n in ast.walk(push) if isinstance(n, ast.Call) and isinstance(n.func, ast.Attribute) and n.func.attr == 'format'
            and isinstance(n.func.value, ast.Constant)]
    if len(starts) != 1 or len(fmts) != 1 or [ast.unparse(a) for a in fmts[0].args] != ['prefix', 'num'] or fmts[0].keywords:
        err(push, 'push no longer has one literal start key and one literal key format', fname)
    r = ranges[0]
    out.append('(* push/pull/peek: keys strictly between min and max; the first pushed key; the text key format *)\n')
    out.append('Definition queue : queue_keys := {| qk_min := %d; qk_max := %d; qk_min_suffix := %s; qk_max_suffix := %s;\n'
               '  qk_start := %d; qk_format := %s |}.   (* %r %r %r *)\n\n'
               % (r[0], r[1], cstr(r[2]), cstr(r[3]), intconst(starts[0].value, fname, 'start key'),
                  cstr(strconst(fmts[0].func.value, fname, 'key format')), r[2], r[3], fmts[0].func.value.value))

    # ---- handles
    cinit = find_func(tree, 'Cache.__init__', fname)
    hs = match_template(T_GETSTATE, find_func(tree, 'Cache.__getstate__', fname), fname)
    match_template(T_SETSTATE, find_func(tree, 'Cache.__setstate__', fname), fname)
    out.append('(* Cache.__getstate__ / the positional parameters of Cache.__init__ that __setstate__ feeds it into (self.__init__( *state)) *)\n')
    out.append('Definition cache_getstate : list handle_field := [%s].\n' % '; '.join(state_fields(hs['__Hstate__'], fname)))
    out.append('Definition cache_init_params : list handle_field := [%s].\n\n' % '; '.join(init_params(cinit, fname)))

    pname = ctx.path('fanout')
    ftree = ctx.tree('fanout')
    finit = find_func(ftree, 'FanoutCache.__init__', pname)
    hfi = match_template(T_FANOUT_INIT, finit, pname)
    fmt = strconst(hfi['__Hfmt__'], pname, 'shard directory format')
    # `DBNAME` in fanout.py is core.DBNAME, and that is the file the Cache of a shard opens
    imported_from_core(ftree, 'DBNAME', pname)
    imported_from_core(ftree, 'DEFAULT_SETTINGS', pname)
    connects = [n for n in ast.walk(find_func(tree, 'Cache._con', fname))
                if isinstance(n, ast.Call) and dotted(n.func) == 'sqlite3.connect']
    if len(connects) != 1 or ast.dump(connects[0]) != ast.dump(ast.parse(T_CON_CONNECT, mode='eval').body):
        err(connects[0] if connects else find_func(tree, 'Cache._con', fname),
            'Cache._con no longer opens exactly op.join(self._directory, DBNAME) (the file FanoutCache.__init__ tests for existence)', fname)
    hs = match_template(T_GETSTATE, find_func(ftree, 'FanoutCache.__getstate__', pname), pname)
    match_template(T_SETSTATE, find_func(ftree, 'FanoutCache.__setstate__', pname), pname)
    out.append('(* FanoutCache.__init__: shard directory = directory/<format % num>; size_limit = settings.pop(\'size_limit\', DEFAULT) / shards is\n'
               '   passed to a shard when the caller gave size_limit or when the shard\'s database file (DBNAME in the shard directory) does not\n'
               '   exist yet; a shard that exists and is opened without the argument is given no size_limit and keeps the one stored in it;\n'
               '   the other given settings are passed through unchanged (whole function matched by template) *)\n')
    out.append('Definition shard_dir_format : list Z := %s.   (* %r *)\n' % (cstr(fmt), fmt))
    out.append('Definition fanout_size_limit_rule : fanout_size_limit := SLWhenGivenOrNew.\n')
    out.append('Definition fanout_getstate : list handle_field := [%s].\n' % '; '.join(state_fields(hs['__Hstate__'], pname)))
    out.append('Definition fanout_init_params : list handle_field := [%s].\n' % '; '.join(init_params(finit, pname)))
    return {'Gen_Format.v': ''.join(out)}
