"""Fail-closed helpers for translating a whitelisted subset of Python (ast) to Gallina text.

Three tools:
  * find_func(tree, 'Class.method' | 'func' | 'Class.method.inner.inner2')
  * unify(template, actual): structural AST match where template Names of the form __H<name>__
    are holes that capture the actual sub-expression; anything else must be identical
    (after dropping docstrings, comments and formatting, which the AST does not contain).
  * Expr(env).compile(node): expression compiler for guards; env maps a Python name (or dotted
    attribute path such as 'self.min_file_size') to (coq_term, type).

Every unsupported construct raises TranslateError(file:line, message): the translator then exits
non-zero, which the check runner reports as a broken obligation (DESIGN.md section 4.1).
"""
import ast


class TranslateError(Exception):
    pass


def err(node, msg, fname='?'):
    line = getattr(node, 'lineno', '?')
    raise TranslateError('%s:%s: %s' % (fname, line, msg))


def strip_doc(body):
    if body and isinstance(body[0], ast.Expr) and isinstance(body[0].value, ast.Constant) \
            and isinstance(body[0].value.value, str):
        return body[1:]
    return body


def find_func(tree, path, fname='?'):
    parts = path.split('.')
    body = tree.body
    node = None
    for p in parts:
        found = None
        for n in body:
            if isinstance(n, (ast.FunctionDef, ast.ClassDef)) and n.name == p:
                found = n
                break
        if found is None:
            raise TranslateError('%s: definition %s not found (at %s)' % (fname, path, p))
        node = found
        body = found.body
    return node


def dotted(node):
    """'self.min_file_size' for Attribute chains over Names, else None."""
    if isinstance(node, ast.Name):
        return node.id
    if isinstance(node, ast.Attribute):
        b = dotted(node.value)
        return None if b is None else b + '.' + node.attr
    return None


# ---------------------------------------------------------------------------
# unification


def is_hole(node):
    return isinstance(node, ast.Name) and node.id.startswith('__H') and node.id.endswith('__')


def is_stmt_hole(node):
    return isinstance(node, ast.Expr) and is_hole(node.value) and node.value.id.startswith('__HS')


def unify(tmpl, act, holes, fname='?', ctx=None):
    """Match actual AST `act` against template `tmpl`; fill dict `holes`."""
    if is_hole(tmpl):
        name = tmpl.id
        if name in holes:
            if ast.dump(holes[name]) != ast.dump(act):
                err(act, 'hole %s matched two different expressions' % name, fname)
        else:
            holes[name] = act
        return
    if isinstance(tmpl, list):
        if not isinstance(act, list):
            err(ctx, 'expected a statement list', fname)
        t = [x for x in strip_doc(tmpl)]
        a = [x for x in strip_doc(act)]
        if len(t) != len(a):
            where = a[0] if a else ctx
            err(where, 'block has %d statements, the translator knows %d: %s' % (
                len(a), len(t), ' | '.join(type(x).__name__ for x in a)), fname)
        for x, y in zip(t, a):
            unify(x, y, holes, fname, ctx=y)
        return
    if isinstance(tmpl, ast.AST):
        if type(tmpl) is not type(act):
            err(act if isinstance(act, ast.AST) else ctx,
                'expected %s, found %s' % (type(tmpl).__name__, type(act).__name__), fname)
        for field in tmpl._fields:
            if field in ('ctx', 'type_comment', 'kind', 'type_params', 'returns', 'decorator_list'):
                continue
            tv = getattr(tmpl, field, None)
            av = getattr(act, field, None)
            unify(tv, av, holes, fname, ctx=act)
        return
    if tmpl != act:
        err(ctx, 'expected %r, found %r' % (tmpl, act), fname)


def match_template(template_src, actual_node, fname='?'):
    """template_src: source of one def (or statement list) with __Hxx__ holes."""
    t = ast.parse(template_src).body
    holes = {}
    if len(t) == 1 and isinstance(t[0], (ast.FunctionDef, ast.ClassDef)) \
            and isinstance(actual_node, (ast.FunctionDef, ast.ClassDef)):
        ta, aa = t[0], actual_node
        if ta.name != aa.name:
            err(aa, 'expected def %s' % ta.name, fname)
        if isinstance(ta, ast.FunctionDef):
            if ast.dump(ta.args) != ast.dump(aa.args):
                err(aa, 'signature of %s changed: %s' % (aa.name, ast.unparse(aa.args)), fname)
        unify(ta.body, aa.body, holes, fname, ctx=aa)
    else:
        unify(t, actual_node, holes, fname)
    return holes


# ---------------------------------------------------------------------------
# expression compiler


CMP = {
    ast.Lt: '<?', ast.LtE: '<=?', ast.Gt: '>?', ast.GtE: '>=?', ast.Eq: '=?',
}


class Expr:
    """env: dict name -> (coq_term, type).  Types: 'Z', 'optZ', 'bool', 'list', 'optany', 'str'.
    `consts`: dict of module-level integer constants that may be referenced by name."""

    def __init__(self, env, fname='?', consts=None, typetests=None, calls=None):
        self.env = env
        self.fname = fname
        self.consts = consts or {}
        # typetests: python type name -> coq predicate name, for `type_x is T` where the env marks
        # a name as ('x','typeof')
        self.typetests = typetests or {}
        # calls: python callee name -> function(args_compiled:list[(term,type)]) -> (term,type)
        self.calls = calls or {}

    def fail(self, node, msg):
        err(node, msg + ': ' + ast.unparse(node), self.fname)

    def lookup(self, node):
        d = dotted(node)
        if d is not None and d in self.env:
            return self.env[d]
        if d is not None and d in self.consts:
            return ('(%d)' % self.consts[d], 'Z')
        self.fail(node, 'unknown name in guard')

    def boolean(self, node):
        t, ty = self.compile(node)
        if ty == 'bool':
            return t
        if ty == 'list':
            return '(negb (is_nil %s))' % t
        if ty == 'Z':
            return '(negb (%s =? 0))' % t
        if ty == 'optany' or ty == 'optZ':
            # truthiness of an optional value is not something we translate silently
            self.fail(node, 'truthiness of an optional value')
        self.fail(node, 'cannot use type %s as a condition' % ty)

    def compile(self, node):
        if isinstance(node, ast.Constant):
            v = node.value
            if v is True:
                return ('true', 'bool')
            if v is False:
                return ('false', 'bool')
            if isinstance(v, int):
                return ('(%d)' % v, 'Z')
            if v is None:
                return ('None', 'none')
            self.fail(node, 'constant')
        if isinstance(node, (ast.Name, ast.Attribute)):
            return self.lookup(node)
        if isinstance(node, ast.UnaryOp):
            if isinstance(node.op, ast.Not):
                return ('(negb %s)' % self.boolean(node.operand), 'bool')
            if isinstance(node.op, ast.USub):
                t, ty = self.compile(node.operand)
                if ty != 'Z':
                    self.fail(node, 'negation of non-integer')
                return ('(- %s)' % t, 'Z')
            self.fail(node, 'unary operator')
        if isinstance(node, ast.BoolOp):
            op = '&&' if isinstance(node.op, ast.And) else '||'
            parts = [self.boolean(v) for v in node.values]
            return ('(' + (' %s ' % op).join(parts) + ')', 'bool')
        if isinstance(node, ast.BinOp):
            a, ta = self.compile(node.left)
            b, tb = self.compile(node.right)
            if ta != 'Z' or tb != 'Z':
                self.fail(node, 'arithmetic on non-integers')
            if isinstance(node.op, ast.Add):
                return ('(%s + %s)' % (a, b), 'Z')
            if isinstance(node.op, ast.Sub):
                return ('(%s - %s)' % (a, b), 'Z')
            if isinstance(node.op, ast.Mult):
                return ('(%s * %s)' % (a, b), 'Z')
            if isinstance(node.op, ast.Pow) and isinstance(node.right, ast.Constant):
                return ('(%s ^ %s)' % (a, b), 'Z')
            self.fail(node, 'binary operator')
        if isinstance(node, ast.Compare):
            # chained comparisons: a <= b <= c
            parts = []
            left = node.left
            for op, right in zip(node.ops, node.comparators):
                parts.append(self.compare1(node, left, op, right))
                left = right
            if len(parts) == 1:
                return (parts[0], 'bool')
            return ('(' + ' && '.join(parts) + ')', 'bool')
        if isinstance(node, ast.Call):
            d = dotted(node.func)
            if d in self.calls and not node.keywords:
                args = [self.compile(a) for a in node.args]
                return self.calls[d](args, node, self)
            self.fail(node, 'call')
        if isinstance(node, ast.IfExp):
            c = self.boolean(node.test)
            a, ta = self.compile(node.body)
            b, tb = self.compile(node.orelse)
            if ta == 'none' and tb in ('Z',):
                return ('(if %s then None else Some %s)' % (c, b), 'optZ')
            if tb == 'none' and ta in ('Z',):
                return ('(if %s then Some %s else None)' % (c, a), 'optZ')
            if ta == tb:
                return ('(if %s then %s else %s)' % (c, a, b), ta)
            self.fail(node, 'conditional expression with branches of types %s/%s' % (ta, tb))
        self.fail(node, 'expression form')

    def compare1(self, whole, left, op, right):
        # `x is None`, `x is not None`
        if isinstance(op, (ast.Is, ast.IsNot)):
            if isinstance(right, ast.Constant) and right.value is None:
                t, ty = self.compile(left)
                if ty not in ('optZ', 'optany'):
                    self.fail(whole, '`is None` on a non-optional (%s)' % ty)
                r = '(is_none %s)' % t
                return r if isinstance(op, ast.Is) else '(negb %s)' % r
            # type(x) is T   /   type_x is T
            lt = self.compile(left)
            if lt[1] == 'typeof':
                d = dotted(right)
                if d in self.typetests:
                    r = '(%s %s)' % (self.typetests[d], lt[0])
                    return r if isinstance(op, ast.Is) else '(negb %s)' % r
            self.fail(whole, 'identity test')
        if isinstance(op, (ast.In, ast.NotIn)):
            a, ta = self.compile(left)
            b, tb = self.compile(right)
            if tb.startswith('set:'):
                r = '(%s %s %s)' % (tb[4:], b, a)
                return r if isinstance(op, ast.In) else '(negb %s)' % r
            self.fail(whole, 'membership test')
        a, ta = self.compile(left)
        b, tb = self.compile(right)
        if isinstance(op, ast.NotEq):
            return '(negb %s)' % self.cmp_terms(whole, a, ta, ast.Eq(), b, tb)
        return self.cmp_terms(whole, a, ta, op, b, tb)

    def cmp_terms(self, whole, a, ta, op, b, tb):
        if type(op) not in CMP:
            self.fail(whole, 'comparison operator')
        sym = CMP[type(op)]
        if ta == 'pyval' and tb == 'pyval' and a == b and isinstance(op, ast.Eq):
            return '(pv_self_eq %s)' % a          # `x == x`: false exactly for NaN
        if ta == 'pyval' and tb == 'Z':
            a, ta = '(pv_int %s)' % a, 'Z'          # guarded by `type(x) is int` in the source
        if tb == 'pyval' and ta == 'Z':
            b, tb = '(pv_int %s)' % b, 'Z'
        if ta == 'Z' and tb == 'Z':
            return '(%s %s %s)' % (a, sym, b)
        if ta == 'optZ' and tb == 'Z':
            # Python raises TypeError for None < number; every use in the code base is guarded by
            # `x is None or ...` / `x is not None and ...`.  The model maps the unguarded case to
            # false via optZ_cmp, and the generated guard keeps the source's own None test.
            return '(optZ_cmp (fun x y => x %s y) %s %s)' % (sym, a, b)
        if ta == 'bool' and tb == 'bool' and isinstance(op, ast.Eq):
            return '(Bool.eqb %s %s)' % (a, b)
        if ta == 'str' and tb == 'str' and isinstance(op, ast.Eq):
            return '(zlist_eqb %s %s)' % (a, b)
        self.fail(whole, 'comparison between %s and %s' % (ta, tb))
