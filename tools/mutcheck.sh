#!/bin/bash
# tools/mutcheck.sh <patch.diff | -e 'sed-expr' file> -- <Cxx> [check args...]
# Runs bin/check against a mutated COPY of /repo using a scratch COPY of /verif, so neither /repo nor the shared
# Coq build is disturbed.  Everything is removed afterwards.
#   tools/mutcheck.sh my.diff -- C16
#   tools/mutcheck.sh -e 's/expire > 0/expire >= 0/' diskcache/core.py -- C16 --tier quick
set -u
VER="$(cd "$(dirname "$0")/.." && pwd)"
S="$(mktemp -d /tmp/mut-XXXXXX)"
trap 'rm -rf "$S"' EXIT
mkdir -p "$S/repo" "$S/verif"
rsync -a --exclude .git --exclude '*.pyc' --exclude __pycache__ /repo/ "$S/repo/"
rsync -a --exclude .git --exclude build/cases --exclude replays --exclude evidence --exclude seeded "$VER/" "$S/verif/"
mkdir -p "$S/verif/evidence" "$S/verif/replays"
if [ "$1" = "-e" ]; then
  sed -i "$2" "$S/repo/$3" || exit 2; shift 3
else
  (cd "$S/repo" && patch -p1 -s < "$(readlink -f "$1")") || { echo "patch failed"; exit 2; }; shift 1
fi
[ "$1" = "--" ] && shift
(cd "$S/repo" && diff -ru /repo/diskcache diskcache | head -40)
cd "$S/verif" && VERIF_REPO="$S/repo" bin/check "$@"
rc=$?
for f in "$S"/verif/replays/*.json; do [ -f "$f" ] && { echo "--- $f"; python3 -c "
import json,sys
d=json.load(open(sys.argv[1]))
print('kind=%s sig=%s broken=%s' % (d.get('kind'), d.get('sig'), d.get('broken_obligations')))
print('what:', str(d.get('what'))[:700])
print('case:', json.dumps(d.get('case', d.get('input')))[:500])
" "$f"; }; done
exit $rc
