"""Gen_Django.v: DjangoCache.get_backend_timeout as a Gallina function and the delegation table of every
data method of DjangoCache (C19; the retry defaults are also what C14 reads).

Fail-closed.  Each method must have exactly the signature recorded in SIGS (only the default of `retry`
is free: it is read off the AST and emitted), and its body must be a sequence of the statement templates
below (source templates with __Hname__ holes, matched with pyast.match_template):

    key = self.make_key(key, version=version)            -> d_key := KMade true
    key = self.make_key(key)                             -> d_key := KMade false
    timeout = self.get_backend_timeout(timeout=timeout)  -> d_timeout := TBackend
    return <call> | <call> | return key in self._cache
    try: return <call> / except <Exc>: raise <Exc>(<msg>) from None

where <call> is self._cache.<method>(...) or self.incr(...) whose arguments are the method's own
parameters (or -delta).  Positional arguments are resolved against the callee's signature read from
fanout.py (or from DjangoCache.incr), so a swapped argument shows up in the emitted binding list.
get_backend_timeout: the if/elif chain of assignments to `timeout` and its tests are compiled from the AST.
"""
import ast
import copy

from pyast import TranslateError, dotted, err, find_func, match_template, strip_doc
from translate import HEADER

SIGS = {
    'cache': 'def cache(self, name): pass',
    'deque': 'def deque(self, name, maxlen=None): pass',
    'index': 'def index(self, name): pass',
    'add': 'def add(self, key, value, timeout=DEFAULT_TIMEOUT, version=None, read=False, tag=None, retry=True): pass',
    'get': 'def get(self, key, default=None, version=None, read=False, expire_time=False, tag=False, retry=True): pass',
    'read': 'def read(self, key, version=None): pass',
    'set': 'def set(self, key, value, timeout=DEFAULT_TIMEOUT, version=None, read=False, tag=None, retry=True): pass',
    'touch': 'def touch(self, key, timeout=DEFAULT_TIMEOUT, version=None, retry=True): pass',
    'pop': 'def pop(self, key, default=None, version=None, expire_time=False, tag=False, retry=True): pass',
    'delete': 'def delete(self, key, version=None, retry=True): pass',
    'incr': 'def incr(self, key, delta=1, version=None, default=None, retry=True): pass',
    'decr': 'def decr(self, key, delta=1, version=None, default=None, retry=True): pass',
    'has_key': 'def has_key(self, key, version=None): pass',
    'expire': 'def expire(self): pass',
    'stats': 'def stats(self, enable=True, reset=False): pass',
    'create_tag_index': 'def create_tag_index(self): pass',
    'drop_tag_index': 'def drop_tag_index(self): pass',
    'evict': 'def evict(self, tag): pass',
    'cull': 'def cull(self): pass',
    'clear': 'def clear(self): pass',
    'close': 'def close(self, **kwargs): pass',
}
ORDER = ['cache', 'deque', 'index', 'add', 'get', 'read', 'set', 'touch', 'pop', 'delete', 'incr', 'decr',
         'has_key', 'expire', 'stats', 'create_tag_index', 'drop_tag_index', 'evict', 'cull', 'clear', 'close']

T_MAKE_KEY_V = 'key = self.make_key(key, version=version)'
T_MAKE_KEY_V2 = 'key = self.make_key(key, version)'
T_MAKE_KEY = 'key = self.make_key(key)'
T_GBT = 'timeout = self.get_backend_timeout(timeout=timeout)'
T_GBT2 = 'timeout = self.get_backend_timeout(timeout)'
T_RETURN = 'return __Hcall__'
T_EXPR = '__Hcall__'
T_TRY = '''
try:
    return __Hcall__
except __Hcaught__:
    raise __Hraised__(__Hmsg__) from None
'''

FMETH = {'add': 'FAdd', 'get': 'FGet', 'read': 'FRead', 'set': 'FSet', 'touch': 'FTouch', 'pop': 'FPop',
         'delete': 'FDelete', 'incr': 'FIncr', 'decr': 'FDecr', '__contains__': 'FContains', 'expire': 'FExpire',
         'stats': 'FStats', 'create_tag_index': 'FCreateTagIndex', 'drop_tag_index': 'FDropTagIndex',
         'evict': 'FEvict', 'cull': 'FCull', 'clear': 'FClear', 'close': 'FClose', 'cache': 'FCacheM',
         'deque': 'FDeque', 'index': 'FIndex'}
FPARAM = {'key': 'PKey', 'value': 'PValue', 'expire': 'PExpire', 'read': 'PRead', 'tag': 'PTag', 'retry': 'PRetry',
          'default': 'PDefault', 'delta': 'PDelta', 'expire_time': 'PExpireTime', 'version': 'PVersion',
          'name': 'PName', 'maxlen': 'PMaxlen', 'enable': 'PEnable', 'reset': 'PReset'}
FARG = {'key': 'AKey', 'value': 'AValue', 'timeout': 'ATimeout', 'read': 'ARead', 'tag': 'ATag', 'retry': 'ARetry',
        'default': 'ADefault', 'delta': 'ADelta', 'expire_time': 'AExpireTime', 'version': 'AVersion',
        'name': 'AName', 'maxlen': 'AMaxlen', 'enable': 'AEnable', 'reset': 'AReset'}
EXC = {'KeyError': 'KeyError', 'ValueError': 'ValueError', 'TypeError': 'TypeError'}
# what the hand-written model (coq/model/Django.v) needs of a binding list to be able to run the call
REQUIRED = {'PKey': ('AKey',), 'PValue': ('AValue',), 'PExpire': ('ATimeout',), 'PDelta': ('ADelta', 'ANegDelta'),
            'PDefault': ('ADefault',)}
MODELLED = ('add', 'get', 'set', 'touch', 'pop', 'delete', 'incr', 'decr', 'has_key', 'clear')


def matches(template, stmts, fname):
    try:
        return match_template(template, stmts, fname)
    except TranslateError:
        return None


def check_signature(name, node, fname):
    """Signature must equal SIGS[name] except for the default of `retry`; returns that default (or None)."""
    want = ast.parse(SIGS[name]).body[0].args
    got = copy.deepcopy(node.args)
    retry = None
    names = [a.arg for a in got.args]
    if 'retry' in names:
        i = names.index('retry') - (len(got.args) - len(got.defaults))
        if i < 0:
            err(node, '%s: parameter retry has no default' % name, fname)
        d = got.defaults[i]
        if not (isinstance(d, ast.Constant) and isinstance(d.value, bool)):
            err(node, '%s: default of retry is not a boolean literal: %s' % (name, ast.unparse(d)), fname)
        retry = d.value
        got.defaults[i] = ast.Constant(value=True)
    if ast.dump(want) != ast.dump(got):
        err(node, 'signature of %s changed: (%s), the translator knows (%s)' % (
            name, ast.unparse(node.args), ast.unparse(want)), fname)
    return retry


def callee_params(ctx, kind, meth, node, fname):
    """Parameter names (without self) of the callee, with the index of the first keyword-only one."""
    if kind == 'self':
        f = find_func(ctx.tree('djangocache'), 'DjangoCache.' + meth, fname)
    else:
        f = find_func(ctx.tree('fanout'), 'FanoutCache.' + meth, ctx.path('fanout'))
    a = f.args
    if a.vararg or a.kwonlyargs or a.posonlyargs:   # **settings of FanoutCache.cache is never used by DjangoCache
        err(node, 'callee %s has a signature the translator does not handle' % meth, fname)
    return [x.arg for x in a.args][1:]


def compile_arg(e, params, fname):
    if isinstance(e, ast.Name) and e.id in params and e.id in FARG:
        return FARG[e.id]
    if isinstance(e, ast.UnaryOp) and isinstance(e.op, ast.USub) and isinstance(e.operand, ast.Name) \
            and e.operand.id == 'delta' and 'delta' in params:
        return 'ANegDelta'
    err(e, 'argument is not a parameter of the method (or -delta): ' + ast.unparse(e), fname)


def compile_call(ctx, call, params, fname):
    """-> (target term, [(fparam, farg)])"""
    # key in self._cache
    if isinstance(call, ast.Compare) and len(call.ops) == 1 and isinstance(call.ops[0], ast.In) \
            and dotted(call.comparators[0]) == 'self._cache':
        return 'TFan FContains', [('PKey', compile_arg(call.left, params, fname))]
    if not isinstance(call, ast.Call):
        err(call, 'expected a delegating call: ' + ast.unparse(call), fname)
    d = dotted(call.func)
    if d is None:
        err(call, 'callee is not a plain attribute path: ' + ast.unparse(call.func), fname)
    parts = d.split('.')
    if parts[:2] == ['self', '_cache'] and len(parts) == 3:
        kind, meth = 'fan', parts[2]
        if meth not in FMETH:
            err(call, 'FanoutCache method unknown to the translator: ' + meth, fname)
        target = 'TFan ' + FMETH[meth]
    elif parts[0] == 'self' and len(parts) == 2 and parts[1] == 'incr':
        kind, meth = 'self', parts[1]
        target = 'TSelf MIncr'
    else:
        err(call, 'callee is neither self._cache.<method> nor self.incr: ' + d, fname)
    cparams = callee_params(ctx, kind, meth, call, fname)
    binds = []
    if len(call.args) > len(cparams):
        err(call, 'more positional arguments than %s takes' % meth, fname)
    for p, e in zip(cparams, call.args):
        if isinstance(e, ast.Starred):
            err(e, 'starred argument', fname)
        if p not in FPARAM:
            err(e, 'callee parameter unknown to the translator: ' + p, fname)
        binds.append((FPARAM[p], compile_arg(e, params, fname)))
    for kw in call.keywords:
        if kw.arg is None or kw.arg not in cparams or kw.arg not in FPARAM:
            err(call, 'keyword argument %s is not a parameter of %s' % (kw.arg, meth), fname)
        if FPARAM[kw.arg] in [b[0] for b in binds]:
            err(call, 'parameter %s bound twice' % kw.arg, fname)
        binds.append((FPARAM[kw.arg], compile_arg(kw.value, params, fname)))
    return target, binds


def compile_method(ctx, name, node, fname):
    retry = check_signature(name, node, fname)
    params = [a.arg for a in node.args.args][1:]
    stmts = list(strip_doc(node.body))
    key = 'KRaw' if 'key' in params else 'KNone'
    tmo = 'TRaw' if 'timeout' in params else 'TNone'
    while len(stmts) > 1:
        s = [stmts[0]]
        if 'key' in params and 'version' in params and key == 'KRaw' and \
                (matches(T_MAKE_KEY_V, s, fname) is not None or matches(T_MAKE_KEY_V2, s, fname) is not None):
            key = 'KMade true'
        elif 'key' in params and key == 'KRaw' and matches(T_MAKE_KEY, s, fname) is not None:
            key = 'KMade false'
        elif 'timeout' in params and tmo == 'TRaw' and \
                (matches(T_GBT, s, fname) is not None or matches(T_GBT2, s, fname) is not None):
            tmo = 'TBackend'
        else:
            err(stmts[0], '%s: statement matches no template of a delegating method: %s' % (
                name, ast.unparse(stmts[0])[:80]), fname)
        stmts.pop(0)
    if not stmts:
        err(node, '%s: empty body' % name, fname)
    last = [stmts[0]]
    excs = []
    returns = True
    h = matches(T_RETURN, last, fname)
    if h is None:
        h = matches(T_TRY, last, fname)
        if h is not None:
            c, r = dotted(h['__Hcaught__']), dotted(h['__Hraised__'])
            if c not in EXC or r not in EXC:
                err(stmts[0], '%s: exception translation %s -> %s unknown to the translator' % (name, c, r), fname)
            excs.append((EXC[c], EXC[r]))
    if h is None:
        h = matches(T_EXPR, last, fname)
        returns = False
    if h is None:
        err(stmts[0], '%s: final statement matches no template of a delegating method: %s' % (
            name, ast.unparse(stmts[0])[:80]), fname)
    target, binds = compile_call(ctx, h['__Hcall__'], params, fname)
    if name in MODELLED:
        for p, allowed in REQUIRED.items():
            for (q, a) in binds:
                if q == p and a not in allowed:
                    err(stmts[0], '%s: callee parameter %s receives %s; the model can only run %s' % (
                        name, p, a, '/'.join(allowed)), fname)
        if 'key' in params and 'PKey' not in [b[0] for b in binds]:
            err(stmts[0], '%s: the key is not handed on' % name, fname)
    return {
        'target': target, 'key': key, 'timeout': tmo,
        'retry': 'None' if retry is None else '(Some %s)' % ('true' if retry else 'false'),
        'bind': '[' + '; '.join('(%s, %s)' % b for b in binds) + ']',
        'exc': '[' + '; '.join('(%s, %s)' % e for e in excs) + ']',
        'returns': 'true' if returns else 'false',
    }


# ---------------------------------------------------------------------------
# get_backend_timeout


def is_timeout(node):
    return isinstance(node, ast.Name) and node.id == 'timeout'


def gbt_test(node, fname):
    """Boolean over `timeout : dj_timeout`."""
    if isinstance(node, ast.BoolOp):
        op = '||' if isinstance(node.op, ast.Or) else '&&'
        return '(' + (' %s ' % op).join(gbt_test(v, fname) for v in node.values) + ')'
    if isinstance(node, ast.UnaryOp) and isinstance(node.op, ast.Not):
        return '(negb %s)' % gbt_test(node.operand, fname)
    if isinstance(node, ast.Compare) and len(node.ops) == 1 and is_timeout(node.left):
        op, r = node.ops[0], node.comparators[0]
        neg = isinstance(op, (ast.NotEq, ast.IsNot))
        t = None
        if isinstance(op, (ast.Eq, ast.NotEq, ast.Is, ast.IsNot)):
            if isinstance(r, ast.Constant) and r.value is None:
                t = '(match timeout with DjNone => true | _ => false end)'
            elif dotted(r) == 'DEFAULT_TIMEOUT':
                # DEFAULT_TIMEOUT is object(): == and `is` coincide
                t = '(match timeout with DjDefault => true | _ => false end)'
            elif isinstance(op, (ast.Eq, ast.NotEq)):
                c = int_const(r)
                if c is not None:
                    t = '(match timeout with DjNum t => t =? sec (%d) | _ => false end)' % c
        if t is not None:
            return '(negb %s)' % t if neg else t
    # ordering comparisons raise TypeError on None / the sentinel: not translated
    err(node, 'unsupported test in get_backend_timeout: ' + ast.unparse(node), fname)


def int_const(node):
    if isinstance(node, ast.Constant) and isinstance(node.value, int) and not isinstance(node.value, bool):
        return node.value
    if isinstance(node, ast.UnaryOp) and isinstance(node.op, ast.USub):
        c = int_const(node.operand)
        return None if c is None else -c
    return None


def gbt_value(node, fname):
    """Expression assigned to `timeout` -> dj_timeout term."""
    if is_timeout(node):
        return 'timeout'
    if dotted(node) == 'self.default_timeout':
        return '(dj_of_default default_timeout)'
    if dotted(node) == 'DEFAULT_TIMEOUT':
        return 'DjDefault'
    if isinstance(node, ast.Constant) and node.value is None:
        return 'DjNone'
    c = int_const(node)
    if c is not None:
        return '(DjNum (sec (%d)))' % c
    err(node, 'unsupported value assigned to timeout in get_backend_timeout: ' + ast.unparse(node), fname)


def gbt_chain(stmts, fname, where, indent='  '):
    """if/elif/else chain of single assignments to `timeout` -> nested Gallina conditional."""
    if not stmts:
        return indent + 'timeout'
    if len(stmts) != 1:
        err(stmts[1], 'get_backend_timeout: more than one statement in a branch', fname)
    s = stmts[0]
    if isinstance(s, ast.If):
        test = gbt_test(s.test, fname)
        body = gbt_chain(s.body, fname, s, indent + '  ')
        rest = gbt_chain(s.orelse, fname, s, indent)
        return '%sif %s then\n%s\n%selse\n%s' % (indent, test, body, indent, rest)
    if isinstance(s, ast.Assign) and len(s.targets) == 1 and is_timeout(s.targets[0]):
        return indent + gbt_value(s.value, fname)
    if isinstance(s, ast.Pass):
        return indent + 'timeout'
    err(s, 'get_backend_timeout: statement is not an if or an assignment to timeout: ' + ast.unparse(s)[:80], fname)


def compile_gbt(node, fname):
    want = ast.parse('def get_backend_timeout(self, timeout=DEFAULT_TIMEOUT): pass').body[0].args
    if ast.dump(want) != ast.dump(node.args):
        err(node, 'signature of get_backend_timeout changed: ' + ast.unparse(node.args), fname)
    stmts = list(strip_doc(node.body))
    if not stmts or not isinstance(stmts[-1], ast.Return) or stmts[-1].value is None:
        err(node, 'get_backend_timeout does not end in `return <expr>`', fname)
    ret = ast.unparse(stmts[-1].value).replace(' ', '')
    if ret not in ('NoneiftimeoutisNoneelsetimeout', 'timeout'):
        err(stmts[-1], 'get_backend_timeout: unsupported return expression: ' + ast.unparse(stmts[-1].value), fname)
    chain = stmts[:-1]
    if len(chain) > 1:
        err(chain[1], 'get_backend_timeout: expected one if/elif chain before the return', fname)
    return gbt_chain(chain, fname, node)


def emit(ctx):
    fname = ctx.path('djangocache')
    tree = ctx.tree('djangocache')
    cls = find_func(tree, 'DjangoCache', fname)
    out = [HEADER % 'djangocache.py DjangoCache (signatures of the callees from fanout.py)',
           'From DC Require Import DCPrelude ArgsKeyBase DjangoBase.\n\n']

    # --- get_backend_timeout
    g = find_func(tree, 'DjangoCache.get_backend_timeout', fname)
    body = compile_gbt(g, fname)
    out.append('''(* get_backend_timeout: the if/elif chain, compiled from the AST.  `timeout` is the DEFAULT_TIMEOUT
   sentinel, None or a number of ticks; integer literals of the source are seconds (`sec`). *)
Definition gbt_assign (default_timeout : option Z) (timeout : dj_timeout) : dj_timeout :=
%s.

(* `return None if timeout is None else timeout`: None = never expires, Some d = d ticks from now.
   If the sentinel itself were handed on (`now + object()` raises TypeError) gbt_sentinel_escapes says so. *)
Definition get_backend_timeout (default_timeout : option Z) (timeout : dj_timeout) : option Z :=
  match gbt_assign default_timeout timeout with DjNone => None | DjNum t => Some t | DjDefault => None end.
Definition gbt_sentinel_escapes (default_timeout : option Z) (timeout : dj_timeout) : bool :=
  match gbt_assign default_timeout timeout with DjDefault => true | _ => false end.

''' % body)

    # --- every other method of the class must be known
    known = set(ORDER) | {'__init__', 'directory', 'get_backend_timeout', 'memoize'}
    for n in cls.body:
        if isinstance(n, ast.FunctionDef) and n.name not in known:
            err(n, 'DjangoCache has a method unknown to the translator: ' + n.name, fname)
    # methods inherited from BaseCache must stay inherited (the model takes them from Django's source)
    for inherited in ('get_many', 'set_many', 'delete_many', 'get_or_set', 'incr_version', 'decr_version',
                      'make_key', '__contains__'):
        for n in cls.body:
            if isinstance(n, ast.FunctionDef) and n.name == inherited:
                err(n, 'DjangoCache overrides %s' % inherited, fname)
    if [ast.unparse(b) for b in cls.bases] != ['BaseCache']:
        err(cls, 'DjangoCache no longer derives from BaseCache only', fname)

    out.append('(* Delegation table: one record per method (vocabulary in base/DjangoBase.v). *)\n')
    for name in ORDER:
        f = find_func(tree, 'DjangoCache.' + name, fname)
        d = compile_method(ctx, name, f, fname)
        out.append('Definition deleg_%s : deleg :=\n  {| d_target := %s; d_key := %s; d_timeout := %s; d_retry := %s;\n'
                   '     d_bind := %s;\n     d_exc := %s; d_returns := %s |}.\n' % (
                       name, d['target'], d['key'], d['timeout'], d['retry'], d['bind'], d['exc'], d['returns']))
    return {'Gen_Django.v': ''.join(out)}
