#!/usr/bin/env python3
"""Markdown table of the seeded changes under /verif/seeded (one row per change): what the change needs to manifest,
which obligation broke, which monitor produced the failing input.  Written to seeded/README.md."""
import glob
import json
import os

VERIF = os.path.dirname(os.path.dirname(os.path.abspath(__file__)))


def main():
    rows = []
    for d in sorted(glob.glob(os.path.join(VERIF, 'seeded', 'C*'))):
        m = json.load(open(os.path.join(d, 'meta.json')))
        c = m['check_result']
        sid = os.path.basename(d)
        broken = sorted(set(b for r in c['replays'] for b in (r.get('broken') or [])))
        sigs = []
        for r in c['replays']:
            if r.get('kind') == 'failing-input' and r.get('sig') and r['sig'] not in sigs:
                sigs.append(r['sig'])
        t = (m['confirmed'].get('existing_tests') or {}).get('summary', '')
        summ = ' '.join((m.get('summary') or '').split())
        if len(summ) > 230:
            summ = summ[:227] + '...'
        rows.append('| %s | %s | %s | %s | %s |' % (
            sid, summ.replace('|', '/'),
            ', '.join(broken) or '-',
            ', '.join(sigs[:3]) or ('none (no-failing-input-found)' if c['detected'] else 'NOT DETECTED'),
            'pass' if 'passed' in t and 'failed' not in t else (t or 'see meta.json')))
    out = ['# Seeded changes', '',
           'Each directory holds `patch.diff` (the change, against /repo), `demo.py` (passes on /repo, fails with the change) and',
           '`meta.json` (what was confirmed and what `bin/check` printed against a scratch copy with the change applied;',
           'produced by `tools/seedrun.py`).  The changes were written by sub-agents that saw only the property text.', '',
           '| id | change | obligations that broke | monitor signatures of the failing input | existing tests |',
           '|---|---|---|---|---|'] + rows
    open(os.path.join(VERIF, 'seeded', 'README.md'), 'w').write('\n'.join(out) + '\n')
    # the same table inside DESIGN.md, between its markers
    dp = os.path.join(VERIF, 'DESIGN.md')
    d = open(dp).read()
    a, b = '<!-- seeded-table-begin -->', '<!-- seeded-table-end -->'
    if a in d and b in d:
        table = '\n'.join(l for l in out if l.startswith('|'))
        d = d[:d.index(a) + len(a)] + '\n' + table + '\n' + d[d.index(b):]
        open(dp, 'w').write(d)
    print('\n'.join(out))


if __name__ == '__main__':
    main()
