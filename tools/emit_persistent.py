"""Gen_Persistent.v: what Deque and Index (persistent.py) say, read off the source (C11, C12).

Every Deque / Index method body is matched against a source template (pyast.match_template): everything
outside the `__Hname__` holes must be AST-identical, otherwise the translator fails closed.  The holes are
the semantically interesting expressions -- guards, delegated Cache calls (method, side=, default=, retry=),
exception translations, constructor settings, __getstate__ tuples, the comparison maker -- and are compiled
to small Gallina definitions that model/Deque.v and model/Index.v CALL and proofs/PersistentBridge.v pins
down (bridge_* lemmas).  Loop structure (_index, rotate, reverse, remove, setdefault) is hand-modelled and
fixed here by template equality.
"""
import ast

from pyast import CMP, Expr, TranslateError, dotted, err, find_func, match_template
from translate import HEADER

EXNS = ('IndexError', 'KeyError', 'ValueError', 'TypeError')
CMETHS = {'push': 'CM_push', 'pull': 'CM_pull', 'peek': 'CM_peek', '__getitem__': 'CM_getitem',
          '__setitem__': 'CM_setitem', '__delitem__': 'CM_delitem', 'clear': 'CM_clear',
          'iterkeys': 'CM_iterkeys', 'pop': 'CM_pop', 'add': 'CM_add', 'peekitem': 'CM_peekitem',
          'transact': 'CM_transact'}
MREFS = {'self._append': 'MR_append', 'self._appendleft': 'MR_appendleft', 'self._pop': 'MR_pop',
         'self._popleft': 'MR_popleft'}
SEQOPS = {'op.eq': 'OpEq', 'op.ne': 'OpNe', 'op.lt': 'OpLt', 'op.gt': 'OpGt', 'op.le': 'OpLe', 'op.ge': 'OpGe'}
FIELDS = {'self.directory': 'SF_directory', 'self.maxlen': 'SF_maxlen'}
MAPKINDS = {'Index': 'MK_Index', 'OrderedDict': 'MK_OrderedDict', 'dict': 'MK_dict'}

# ---------------------------------------------------------------------------
# templates: Deque

T_MAKE_COMPARE = '''
def _make_compare(seq_op, doc):
    def compare(self, that):
        if not isinstance(that, Sequence):
            return NotImplemented

        len_self = len(self)
        len_that = len(that)

        if __Hlendiff__:
            if __Hisa__:
                return __Hreta__
            if __Hisb__:
                return __Hretb__

        for alpha, beta in zip(self, that):
            if __Helemdiff__:
                return seq_op(alpha, beta)

        return seq_op(len_self, len_that)

    compare.__name__ = '__{0}__'.format(seq_op.__name__)
    doc_str = 'Return True if and only if deque is {0} `that`.'
    compare.__doc__ = doc_str.format(doc)

    return compare
'''

T_DEQUE_INIT = '''
def __init__(self, iterable=(), directory=None, maxlen=None):
    self._cache = Cache(directory, eviction_policy=__Hpolicy__)
    self._maxlen = __Hmaxlen__
    self._extend(iterable)
'''

T_DEQUE_FROMCACHE = '''
def fromcache(cls, cache, iterable=(), maxlen=None):
    self = cls.__new__(cls)
    self._cache = cache
    self._maxlen = __Hmaxlen__
    self._extend(iterable)
    return self
'''

T_DEQUE_CACHE = '''
def cache(self):
    return self._cache
'''

T_DEQUE_DIRECTORY = '''
def directory(self):
    return self._cache.directory
'''

T_DEQUE_MAXLEN_GET = '''
def maxlen(self):
    return self._maxlen
'''

T_DEQUE_MAXLEN_SET = '''
def maxlen(self, value):
    self._maxlen = value
    with self._cache.transact(retry=__Hretry__):
        while __Hguard__:
            __Htrim__()
'''

T_DEQUE_INDEX = '''
def _index(self, index, func):
    len_self = len(self)

    if __Hnonneg__:
        if __Hhigh__:
            raise __Hexnhigh__

        for key in __Hkeysfwd__:
            if __Hhitfwd__:
                try:
                    return func(key)
                except KeyError:
                    continue
            index -= __Hdec__
    else:
        if __Hlow__:
            raise __Hexnlow__

        index += __Hadj__

        for key in __Hkeysbwd__:
            if __Hhitbwd__:
                try:
                    return func(key)
                except KeyError:
                    continue
            index += __Hinc__

    raise __Hexnend__
'''

T_DEQUE_GETITEM = '''
def __getitem__(self, index):
    return self._index(index, __Hfunc__)
'''

T_DEQUE_SETITEM = '''
def __setitem__(self, index, value):
    def _set_value(key):
        return __Hfunc__(key, value)

    self._index(index, _set_value)
'''

T_DEQUE_DELITEM = '''
def __delitem__(self, index):
    self._index(index, __Hfunc__)
'''

T_DEQUE_IADD = '''
def __iadd__(self, iterable):
    self._extend(iterable)
    return self
'''

T_DEQUE_ITER = '''
def __iter__(self):
    _cache = self._cache

    for key in __Hkeys__:
        try:
            yield _cache[key]
        except KeyError:
            pass
'''

T_DEQUE_REVERSED = T_DEQUE_ITER.replace('__iter__', '__reversed__')

T_DEQUE_LEN = '''
def __len__(self):
    return len(self._cache)
'''

T_DEQUE_GETSTATE = '''
def __getstate__(self):
    return __Hstate__
'''

T_DEQUE_SETSTATE = '''
def __setstate__(self, state):
    directory, maxlen = state
    self.__init__(directory=directory, maxlen=maxlen)
'''

T_DEQUE_APPEND = '''
def append(self, value):
    with self._cache.transact(retry=__Hretry__):
        __Hpush__
        if __Hguard__:
            __Htrim__()
'''

T_DEQUE_APPENDLEFT = T_DEQUE_APPEND.replace('def append', 'def appendleft')

T_DEQUE_CLEAR = '''
def clear(self):
    __Hcall__
'''

T_DEQUE_COPY = '''
def copy(self):
    TypeSelf = type(self)
    return TypeSelf(directory=__Hdirectory__, maxlen=__Hmaxlen__)
'''

T_DEQUE_COUNT = '''
def count(self, value):
    return sum(1 for item in self if __Hmatch__)
'''

T_DEQUE_EXTEND = '''
def extend(self, iterable):
    for value in iterable:
        __Hfn__(value)
'''

T_DEQUE_EXTENDLEFT = T_DEQUE_EXTEND.replace('def extend', 'def extendleft')

T_DEQUE_PEEKLIKE = '''
def %s(self):
    default = __Hdefault__
    _, value = __Hcall__
    if __Hmiss__:
        raise __Hexn__
    return value
'''

T_DEQUE_REMOVE = '''
def remove(self, value):
    _cache = self._cache

    for key in __Hkeys__:
        try:
            item = _cache[key]
        except KeyError:
            continue
        else:
            if __Hmatch__:
                try:
                    del _cache[key]
                except KeyError:
                    continue
                return

    raise __Hexn__
'''

T_DEQUE_REVERSE = '''
def reverse(self):
    temp = Deque(iterable=__Hsource__)
    self._clear()
    self._extend(temp)
    directory = temp.directory
    temp._cache.close()
    del temp
    rmtree(directory)
'''

T_DEQUE_ROTATE = '''
def rotate(self, steps=1):
    if not isinstance(steps, int):
        type_name = type(steps).__name__
        raise TypeError('integer argument expected, got %s' % type_name)

    len_self = len(self)

    if __Hempty__:
        return

    if __Hnonneg__:
        steps %= len_self

        for _ in range(steps):
            try:
                value = __Hrpop__()
            except IndexError:
                return
            else:
                __Hrpush__(value)
    else:
        steps *= __Hneg__
        steps %= len_self

        for _ in range(steps):
            try:
                value = __Hlpop__()
            except IndexError:
                return
            else:
                __Hlpush__(value)
'''

T_TRANSACT = '''
def transact(self):
    with self._cache.transact(retry=True):
        yield
'''

T_REPR_DEQUE = '''
def __repr__(self):
    name = type(self).__name__
    return '{0}(directory={1!r})'.format(name, self.directory)
'''

DEQUE_ALIASES = {'_append': 'append', '_appendleft': 'appendleft', '_clear': 'clear', '_extend': 'extend',
                 '_pop': 'pop', '_popleft': 'popleft', '__hash__': 'None'}
DEQUE_COMPARES = {'__eq__': 'deque_eq_op', '__ne__': 'deque_ne_op', '__lt__': 'deque_lt_op',
                  '__gt__': 'deque_gt_op', '__le__': 'deque_le_op', '__ge__': 'deque_ge_op'}

# ---------------------------------------------------------------------------
# templates: Index

T_INDEX_INIT = '''
def __init__(self, *args, **kwargs):
    if args and isinstance(args[0], (bytes, str)):
        directory = args[0]
        args = args[1:]
    else:
        if args and args[0] is None:
            args = args[1:]
        directory = None
    self._cache = Cache(directory, eviction_policy=__Hpolicy__)
    self._update(*args, **kwargs)
'''

T_INDEX_FROMCACHE = '''
def fromcache(cls, cache, *args, **kwargs):
    self = cls.__new__(cls)
    self._cache = cache
    self._update(*args, **kwargs)
    return self
'''

T_INDEX_GETITEM = '''
def __getitem__(self, key):
    return self._cache[key]
'''

T_INDEX_SETITEM = '''
def __setitem__(self, key, value):
    self._cache[key] = value
'''

T_INDEX_DELITEM = '''
def __delitem__(self, key):
    del self._cache[key]
'''

T_INDEX_SETDEFAULT = '''
def setdefault(self, key, default=None):
    _cache = self._cache
    with _cache.transact(retry=__Hretry__):
        while True:
            try:
                return __Hret__
            except KeyError:
                __Hadd__
'''

T_INDEX_PEEKITEM = '''
def peekitem(self, last=True):
    return __Hcall__
'''

T_INDEX_POP = '''
def pop(self, key, default=ENOVAL):
    _cache = self._cache
    value = __Hcall__
    if __Hmiss__:
        raise __Hexn__
    return value
'''

T_INDEX_POPITEM = '''
def popitem(self, last=True):
    _cache = self._cache

    with _cache.transact(retry=__Hretry__):
        key, value = _cache.peekitem(last=__Hlast__)
        del _cache[key]

    return key, value
'''

T_INDEX_PUSH = '''
def push(self, value, prefix=None, side='back'):
    return self._cache.push(value, prefix, side, retry=True)
'''

T_INDEX_PULL = '''
def pull(self, prefix=None, default=(None, None), side='front'):
    return self._cache.pull(prefix, default, side, retry=True)
'''

T_INDEX_CLEAR = '''
def clear(self):
    __Hcall__
'''

T_INDEX_ITER = '''
def __iter__(self):
    return iter(self._cache)
'''

T_INDEX_REVERSED = '''
def __reversed__(self):
    return reversed(self._cache)
'''

T_INDEX_LEN = '''
def __len__(self):
    return len(self._cache)
'''

T_INDEX_KEYS = '''
def keys(self):
    return KeysView(self)
'''

T_INDEX_VALUES = '''
def values(self):
    return ValuesView(self)
'''

T_INDEX_ITEMS = '''
def items(self):
    return ItemsView(self)
'''

T_INDEX_GETSTATE = '''
def __getstate__(self):
    return __Hstate__
'''

T_INDEX_SETSTATE = '''
def __setstate__(self, state):
    self.__init__(state)
'''

T_INDEX_EQ = '''
def __eq__(self, other):
    if __Hlendiff__:
        return False

    if isinstance(other, __Hordered__):
        alpha = ((key, self[key]) for key in self)
        beta = ((key, other[key]) for key in other)
        pairs = zip(alpha, beta)
        return not any(__Hpairdiff__ for (a, b), (x, y) in pairs)
    else:
        return all(self[key] == other.get(key, ENOVAL) for key in self)
'''

T_INDEX_NE = '''
def __ne__(self, other):
    return not self == other
'''

T_REPR_INDEX = '''
def __repr__(self):
    name = type(self).__name__
    return '{0}({1!r})'.format(name, self.directory)
'''

INDEX_ALIASES = {'_update': 'MutableMapping.update', '__hash__': 'None'}


# ---------------------------------------------------------------------------
# small compilers


class PExpr(Expr):
    """Guard compiler with the `maxlen` type: an integer or float('inf') (None in the model)."""

    INF = {ast.Lt: 'true', ast.LtE: 'true', ast.Gt: 'false', ast.GtE: 'false', ast.Eq: 'false'}
    FLIP = {ast.Lt: ast.Gt, ast.LtE: ast.GtE, ast.Gt: ast.Lt, ast.GtE: ast.LtE, ast.Eq: ast.Eq}

    def cmp_terms(self, whole, a, ta, op, b, tb):
        if ta == 'Z' and tb == 'mlen' and type(op) in CMP:
            return '(match %s with Some m_ => %s %s m_ | None => %s end)' % (b, a, CMP[type(op)], self.INF[type(op)])
        if ta == 'mlen' and tb == 'Z' and type(op) in CMP:
            return '(match %s with Some m_ => m_ %s %s | None => %s end)' % (
                a, CMP[type(op)], b, self.INF[self.FLIP[type(op)]])
        return Expr.cmp_terms(self, whole, a, ta, op, b, tb)


def len_call(args, node, ex):
    if len(args) == 1 and args[0][1] == 'sized':
        return (args[0][0], 'Z')
    ex.fail(node, 'len() of something that is not the deque / its cache')


def guard(node, env, fname):
    return PExpr(env, fname, calls={'len': len_call}).boolean(node)


def zexpr(node, env, fname):
    t, ty = PExpr(env, fname).compile(node)
    if ty != 'Z':
        err(node, 'expected an integer expression: ' + ast.unparse(node), fname)
    return t


def c_exn(node, fname):
    if isinstance(node, ast.Call) and isinstance(node.func, ast.Name) and node.func.id in EXNS:
        return node.func.id
    err(node, 'unsupported exception: ' + ast.unparse(node), fname)


def c_comp(node, fname):
    if isinstance(node, ast.Constant) and node.value is None:
        return 'CNone'
    if isinstance(node, ast.Name) and node.id == 'ENOVAL':
        return 'CEnoval'
    err(node, 'unsupported default component: ' + ast.unparse(node), fname)


def c_dflt(node, fname):
    if isinstance(node, ast.Tuple) and len(node.elts) == 2:
        return '(DfPair %s %s)' % (c_comp(node.elts[0], fname), c_comp(node.elts[1], fname))
    return '(DfComp %s)' % c_comp(node, fname)


def c_bool(node, fname):
    if isinstance(node, ast.Constant) and node.value is True:
        return 'true'
    if isinstance(node, ast.Constant) and node.value is False:
        return 'false'
    err(node, 'expected True/False: ' + ast.unparse(node), fname)


def c_side(node, fname):
    if isinstance(node, ast.Constant) and node.value == 'front':
        return 'Front'
    if isinstance(node, ast.Constant) and node.value == 'back':
        return 'Back'
    err(node, "side must be the constant 'front' or 'back': " + ast.unparse(node), fname)


def c_policy(node, fname):
    if isinstance(node, ast.Constant) and isinstance(node.value, str):
        return 'PolNone' if node.value == 'none' else 'PolOther'
    err(node, 'eviction_policy must be a string constant: ' + ast.unparse(node), fname)


def c_mref(node, fname):
    d = dotted(node)
    if d in MREFS:
        return MREFS[d]
    err(node, 'unsupported method reference: ' + ast.unparse(node), fname)


def c_cmeth_ref(node, fname):
    """self._cache.__getitem__ -> CM_getitem"""
    d = dotted(node) or ''
    for pre in ('self._cache.', '_cache.'):
        if d.startswith(pre) and d[len(pre):] in CMETHS:
            return CMETHS[d[len(pre):]]
    err(node, 'unsupported cache method reference: ' + ast.unparse(node), fname)


def c_maxlen_init(node, fname):
    """float('inf') if maxlen is None else maxlen  (or the mirrored form) -> option Z -> mlen"""
    def branch(n):
        if isinstance(n, ast.Call) and dotted(n.func) == 'float' and len(n.args) == 1 and not n.keywords \
                and isinstance(n.args[0], ast.Constant) and n.args[0].value == 'inf':
            return 'None'
        if isinstance(n, ast.Name) and n.id == 'maxlen':
            return 'maxlen'
        err(n, 'unsupported maxlen expression: ' + ast.unparse(n), fname)
    # a bare `maxlen` is NOT accepted: Python's None would reach the `len(...) > self._maxlen` comparisons (TypeError),
    # whereas None in the model stands for float('inf')
    if isinstance(node, ast.IfExp):
        test = Expr({'maxlen': ('maxlen', 'optZ')}, fname).boolean(node.test)
        return '(if %s then %s else %s)' % (test, branch(node.body), branch(node.orelse))
    err(node, 'unsupported maxlen initialisation: ' + ast.unparse(node), fname)


def c_miss(node, fname):
    """value is ENOVAL  ->  predicate over comp"""
    if isinstance(node, ast.Compare) and len(node.ops) == 1 and isinstance(node.left, ast.Name) \
            and node.left.id == 'value' and isinstance(node.ops[0], (ast.Is, ast.IsNot)):
        r = node.comparators[0]
        if isinstance(r, ast.Name) and r.id == 'ENOVAL':
            t = '(comp_is_enoval value)'
        elif isinstance(r, ast.Constant) and r.value is None:
            t = '(comp_is_none value)'
        else:
            err(node, 'unsupported sentinel test: ' + ast.unparse(node), fname)
        return t if isinstance(node.ops[0], ast.Is) else '(negb %s)' % t
    err(node, 'unsupported sentinel test: ' + ast.unparse(node), fname)


def c_seqop_test(node, fname):
    """seq_op is op.eq -> seqop_eqb seq_op OpEq"""
    if isinstance(node, ast.Compare) and len(node.ops) == 1 and isinstance(node.ops[0], ast.Is) \
            and dotted(node.left) == 'seq_op' and dotted(node.comparators[0]) in SEQOPS:
        return '(seqop_eqb seq_op %s)' % SEQOPS[dotted(node.comparators[0])]
    err(node, 'unsupported operator test: ' + ast.unparse(node), fname)


def c_keys(node, fname):
    """self._cache.iterkeys() / _cache.iterkeys(reverse=True) -> 'false' / 'true'"""
    if isinstance(node, ast.Call) and dotted(node.func) in ('self._cache.iterkeys', '_cache.iterkeys') \
            and not node.args:
        if not node.keywords:
            return 'false'
        if len(node.keywords) == 1 and node.keywords[0].arg == 'reverse':
            return c_bool(node.keywords[0].value, fname)
    err(node, 'unsupported key iteration: ' + ast.unparse(node), fname)


def c_fields(node, fname):
    elts = node.elts if isinstance(node, ast.Tuple) else [node]
    out = []
    for e in elts:
        d = dotted(e)
        if d not in FIELDS:
            err(e, 'unsupported state field: ' + ast.unparse(e), fname)
        out.append(FIELDS[d])
    return '[' + '; '.join(out) + ']'


def c_source(node, fname):
    if isinstance(node, ast.Call) and dotted(node.func) == 'reversed' and len(node.args) == 1 \
            and dotted(node.args[0]) == 'self' and not node.keywords:
        return 'IterReversed'
    if isinstance(node, ast.Call) and dotted(node.func) == 'iter' and len(node.args) == 1 \
            and dotted(node.args[0]) == 'self' and not node.keywords:
        return 'IterForward'
    if dotted(node) == 'self':
        return 'IterForward'
    err(node, 'unsupported source iterable: ' + ast.unparse(node), fname)


class CacheSigs:
    """Parameter lists (with defaults) of the Cache methods, read from core.py."""

    def __init__(self, ctx):
        self.fname = ctx.path('core')
        self.tree = ctx.tree('core')
        self.cache = {}

    def params(self, meth):
        if meth not in self.cache:
            f = find_func(self.tree, 'Cache.' + meth, self.fname)
            a = f.args
            if a.vararg or a.kwarg or a.kwonlyargs or a.posonlyargs:
                err(f, 'unsupported signature of Cache.' + meth, self.fname)
            names = [x.arg for x in a.args][1:]
            defaults = [None] * (len(names) - len(a.defaults)) + list(a.defaults)
            self.cache[meth] = list(zip(names, defaults))
        return self.cache[meth]


def c_cache_call(node, sigs, fname, local_default=None, in_txn=False, passthrough=None):
    passthrough = passthrough or {}
    """A delegated call `self._cache.M(...)` / `_cache.M(...)` -> (cmeth name, qcall record text, bound args).
    Arguments are bound against the signature of Cache.M in core.py (so a changed default there shows)."""
    if isinstance(node, ast.Expr):
        node = node.value
    if not isinstance(node, ast.Call):
        err(node, 'expected a call on the cache: ' + ast.unparse(node), fname)
    d = dotted(node.func) or ''
    meth = None
    for pre in ('self._cache.', '_cache.'):
        if d.startswith(pre):
            meth = d[len(pre):]
    if meth not in CMETHS:
        err(node, 'unsupported delegation: ' + ast.unparse(node), fname)
    params = sigs.params(meth)
    bound = {}
    if len(node.args) > len(params):
        err(node, 'too many positional arguments: ' + ast.unparse(node), fname)
    for (name, _), a in zip(params, node.args):
        if isinstance(a, ast.Starred):
            err(node, 'starred argument', fname)
        bound[name] = a
    for kw in node.keywords:
        if kw.arg is None or kw.arg in bound or kw.arg not in [p for p, _ in params]:
            err(node, 'bad keyword argument: ' + ast.unparse(node), fname)
        bound[kw.arg] = kw.value
    full = {}
    for name, dv in params:
        if name in bound:
            full[name] = bound[name]
        elif dv is not None:
            full[name] = dv
        else:
            err(node, 'missing argument %s: %s' % (name, ast.unparse(node)), fname)
    side = 'Back'
    default = '(DfComp CNone)'
    retry = 'false'
    for name, v in full.items():
        if name == 'side':
            side = c_side(v, fname)
        elif name == 'default':
            if isinstance(v, ast.Name) and v.id == 'default':
                if local_default is None:
                    err(node, '`default` is not a known local: ' + ast.unparse(node), fname)
                default = local_default
            else:
                default = c_dflt(v, fname)
        elif name == 'retry':
            retry = c_bool(v, fname)
        elif name in ('prefix', 'expire', 'tag') and isinstance(v, ast.Constant) and v.value is None:
            pass
        elif name in ('read', 'expire_time', 'tag') and isinstance(v, ast.Constant) and v.value is False:
            pass
        elif name in passthrough and passthrough[name] is None:
            pass        # compiled by the caller
        elif name in passthrough and isinstance(v, ast.Name) and v.id == passthrough[name]:
            pass
        else:
            err(node, 'unsupported argument %s=%s' % (name, ast.unparse(v)), fname)
    rec = '{| qc_meth := %s; qc_side := %s; qc_default := %s; qc_retry := %s; qc_in_txn := %s |}' % (
        CMETHS[meth], side, default, retry, 'true' if in_txn else 'false')
    return CMETHS[meth], rec, full


def class_assigns(cls):
    out = {}
    for n in cls.body:
        if isinstance(n, ast.Assign) and len(n.targets) == 1 and isinstance(n.targets[0], ast.Name):
            out[n.targets[0].id] = n
    return out


def find_setter(cls, name, fname):
    for n in cls.body:
        if isinstance(n, ast.FunctionDef) and n.name == name and \
                any(ast.unparse(d) == name + '.setter' for d in n.decorator_list):
            return n
    raise TranslateError('%s: %s.setter not found' % (fname, name))


def check_members(cls, known, fname):
    """Fail closed on methods / class attributes the translator does not know."""
    for n in cls.body:
        if isinstance(n, ast.FunctionDef):
            if n.name not in known:
                err(n, 'method %s.%s is not known to the translator' % (cls.name, n.name), fname)
        elif isinstance(n, ast.Assign):
            for t in n.targets:
                if not (isinstance(t, ast.Name) and t.id in known):
                    err(n, 'class attribute %s is not known to the translator' % ast.unparse(t), fname)
        elif isinstance(n, ast.Expr) and isinstance(n.value, ast.Constant) and isinstance(n.value.value, str):
            pass
        else:
            err(n, 'unsupported class-level statement in ' + cls.name, fname)


# ---------------------------------------------------------------------------


def emit(ctx):
    fname = ctx.path('persistent')
    tree = ctx.tree('persistent')
    sigs = CacheSigs(ctx)
    out = [HEADER % 'persistent.py (Deque, Index, _make_compare) and the signatures of the Cache methods they call (core.py)',
           'From DC Require Import DCPrelude PersistentBase.\n\n']

    def D(text):
        out.append(text + '\n')

    def method(cls, name, template):
        f = find_func(tree, cls + '.' + name, fname)
        return match_template(template, f, fname)

    # ------------------------------------------------------------------ _make_compare
    h = match_template(T_MAKE_COMPARE, find_func(tree, '_make_compare', fname), fname)
    envl = {'len_self': ('len_self', 'Z'), 'len_that': ('len_that', 'Z')}
    D('(* ---- _make_compare ---- *)')
    D('Definition deque_cmp_len_differs (len_self len_that : Z) : bool := %s.' % guard(h['__Hlendiff__'], envl, fname))
    D('(* result returned at once when the lengths differ (None: fall through to the element loop) *)')
    D('Definition deque_cmp_short (seq_op : seqop) : option bool :=\n  if %s then Some %s else if %s then Some %s else None.' % (
        c_seqop_test(h['__Hisa__'], fname), c_bool(h['__Hreta__'], fname),
        c_seqop_test(h['__Hisb__'], fname), c_bool(h['__Hretb__'], fname)))
    D('Definition deque_cmp_elem_differs (alpha beta : Z) : bool := %s.' % guard(
        h['__Helemdiff__'], {'alpha': ('alpha', 'Z'), 'beta': ('beta', 'Z')}, fname))

    # ------------------------------------------------------------------ Deque
    dq = find_func(tree, 'Deque', fname)
    known = {'__init__', 'fromcache', 'cache', 'directory', 'maxlen', '_index', '__getitem__', '__setitem__',
             '__delitem__', '__repr__', '__iadd__', '__iter__', '__len__', '__reversed__', '__getstate__',
             '__setstate__', 'append', 'appendleft', 'clear', 'copy', 'count', 'extend', 'extendleft', 'peek',
             'peekleft', 'pop', 'popleft', 'remove', 'reverse', 'rotate', 'transact'} \
        | set(DEQUE_ALIASES) | set(DEQUE_COMPARES)
    check_members(dq, known, fname)
    if [ast.unparse(b) for b in dq.bases] != ['Sequence']:
        err(dq, 'Deque no longer derives from Sequence only', fname)
    assigns = class_assigns(dq)
    for a, target in DEQUE_ALIASES.items():
        if a not in assigns or ast.unparse(assigns[a].value) != target:
            err(assigns.get(a, dq), 'Deque.%s is no longer %s' % (a, target), fname)
    D('\n(* ---- Deque: comparison operators (class-level `__eq__ = _make_compare(op.eq, ...)`) ---- *)')
    for a, defname in DEQUE_COMPARES.items():
        n = assigns.get(a)
        v = n.value if n is not None else None
        if not (isinstance(v, ast.Call) and dotted(v.func) == '_make_compare' and len(v.args) == 2
                and dotted(v.args[0]) in SEQOPS):
            err(n or dq, 'Deque.%s is not _make_compare(op.<x>, doc)' % a, fname)
        D('Definition %s : seqop := %s.' % (defname, SEQOPS[dotted(v.args[0])]))

    D('\n(* ---- Deque: construction, maxlen ---- *)')
    h = method('Deque', '__init__', T_DEQUE_INIT)
    D('Definition deque_init_policy : policy := %s.' % c_policy(h['__Hpolicy__'], fname))
    D('Definition deque_init_maxlen (maxlen : option Z) : mlen := %s.' % c_maxlen_init(h['__Hmaxlen__'], fname))
    h = method('Deque', 'fromcache', T_DEQUE_FROMCACHE)
    D('Definition deque_fromcache_maxlen (maxlen : option Z) : mlen := %s.' % c_maxlen_init(h['__Hmaxlen__'], fname))
    method('Deque', 'cache', T_DEQUE_CACHE)
    method('Deque', 'directory', T_DEQUE_DIRECTORY)
    method('Deque', 'maxlen', T_DEQUE_MAXLEN_GET)
    h = match_template(T_DEQUE_MAXLEN_SET, find_setter(dq, 'maxlen', fname), fname)
    envm = {'self._cache': ('len_cache', 'sized'), 'self': ('len_cache', 'sized'), 'self._maxlen': ('maxlen', 'mlen')}
    D('Definition deque_setmaxlen_retry : bool := %s.' % c_bool(h['__Hretry__'], fname))
    D('Definition deque_setmaxlen_guard (len_cache : Z) (maxlen : mlen) : bool := %s.' % guard(h['__Hguard__'], envm, fname))
    D('Definition deque_setmaxlen_trim : mref := %s.' % c_mref(h['__Htrim__'], fname))

    D('\n(* ---- Deque._index and the three users ---- *)')
    h = method('Deque', '_index', T_DEQUE_INDEX)
    envi = {'index': ('index', 'Z'), 'len_self': ('len_self', 'Z')}
    D('Definition deque_index_nonneg (index : Z) : bool := %s.' % guard(h['__Hnonneg__'], envi, fname))
    D('Definition deque_index_too_high (index len_self : Z) : bool := %s.' % guard(h['__Hhigh__'], envi, fname))
    D('Definition deque_index_too_low (index len_self : Z) : bool := %s.' % guard(h['__Hlow__'], envi, fname))
    D('Definition deque_index_hit_fwd (index : Z) : bool := %s.' % guard(h['__Hhitfwd__'], envi, fname))
    D('Definition deque_index_hit_bwd (index : Z) : bool := %s.' % guard(h['__Hhitbwd__'], envi, fname))
    D('Definition deque_index_step_fwd (index : Z) : Z := (index - %s).' % zexpr(h['__Hdec__'], envi, fname))
    D('Definition deque_index_adjust (index : Z) : Z := (index + %s).' % zexpr(h['__Hadj__'], envi, fname))
    D('Definition deque_index_step_bwd (index : Z) : Z := (index + %s).' % zexpr(h['__Hinc__'], envi, fname))
    D('Definition deque_index_fwd_reverse : bool := %s.' % c_keys(h['__Hkeysfwd__'], fname))
    D('Definition deque_index_bwd_reverse : bool := %s.' % c_keys(h['__Hkeysbwd__'], fname))
    D('Definition deque_index_exn_high : exn := %s.' % c_exn(h['__Hexnhigh__'], fname))
    D('Definition deque_index_exn_low : exn := %s.' % c_exn(h['__Hexnlow__'], fname))
    D('Definition deque_index_exn_end : exn := %s.' % c_exn(h['__Hexnend__'], fname))
    h = method('Deque', '__getitem__', T_DEQUE_GETITEM)
    D('Definition deque_getitem_func : cmeth := %s.' % c_cmeth_ref(h['__Hfunc__'], fname))
    h = method('Deque', '__setitem__', T_DEQUE_SETITEM)
    D('Definition deque_setitem_func : cmeth := %s.' % c_cmeth_ref(h['__Hfunc__'], fname))
    h = method('Deque', '__delitem__', T_DEQUE_DELITEM)
    D('Definition deque_delitem_func : cmeth := %s.' % c_cmeth_ref(h['__Hfunc__'], fname))
    method('Deque', '__repr__', T_REPR_DEQUE)
    method('Deque', '__iadd__', T_DEQUE_IADD)

    D('\n(* ---- Deque: iteration, state ---- *)')
    h = method('Deque', '__iter__', T_DEQUE_ITER)
    D('Definition deque_iter_reverse : bool := %s.' % c_keys(h['__Hkeys__'], fname))
    h = method('Deque', '__reversed__', T_DEQUE_REVERSED)
    D('Definition deque_reversed_reverse : bool := %s.' % c_keys(h['__Hkeys__'], fname))
    method('Deque', '__len__', T_DEQUE_LEN)
    h = method('Deque', '__getstate__', T_DEQUE_GETSTATE)
    D('Definition deque_getstate : list state_field := %s.' % c_fields(h['__Hstate__'], fname))
    method('Deque', '__setstate__', T_DEQUE_SETSTATE)
    h = method('Deque', 'copy', T_DEQUE_COPY)
    D('Definition deque_copy_args : list state_field := %s.' % c_fields(
        ast.Tuple(elts=[h['__Hdirectory__'], h['__Hmaxlen__']], ctx=ast.Load()), fname))

    D('\n(* ---- Deque: append / appendleft (push + trim inside one transaction) ---- *)')
    for name in ('append', 'appendleft'):
        h = method('Deque', name, T_DEQUE_APPEND if name == 'append' else T_DEQUE_APPENDLEFT)
        if c_bool(h['__Hretry__'], fname) != 'true':
            err(h['__Hretry__'], '%s: transact(retry=...) is no longer True' % name, fname)
        _, rec, full = c_cache_call(h['__Hpush__'], sigs, fname, in_txn=True, passthrough={'value': 'value'})
        D('Definition deque_%s_call : qcall := %s.' % (name, rec))
        D('Definition deque_%s_guard (len_cache : Z) (maxlen : mlen) : bool := %s.' % (name, guard(h['__Hguard__'], envm, fname)))
        D('Definition deque_%s_trim : mref := %s.' % (name, c_mref(h['__Htrim__'], fname)))

    D('\n(* ---- Deque: clear, count, extend ---- *)')
    h = method('Deque', 'clear', T_DEQUE_CLEAR)
    D('Definition deque_clear_call : qcall := %s.' % c_cache_call(h['__Hcall__'], sigs, fname)[1])
    h = method('Deque', 'count', T_DEQUE_COUNT)
    envv = {'value': ('value', 'Z'), 'item': ('item', 'Z')}
    D('Definition deque_count_match (value item : Z) : bool := %s.' % guard(h['__Hmatch__'], envv, fname))
    h = method('Deque', 'extend', T_DEQUE_EXTEND)
    D('Definition deque_extend_fn : mref := %s.' % c_mref(h['__Hfn__'], fname))
    h = method('Deque', 'extendleft', T_DEQUE_EXTENDLEFT)
    D('Definition deque_extendleft_fn : mref := %s.' % c_mref(h['__Hfn__'], fname))

    D('\n(* ---- Deque: peek / peekleft / pop / popleft (pull or peek + sentinel translation) ---- *)')
    for name in ('peek', 'peekleft', 'pop', 'popleft'):
        h = method('Deque', name, T_DEQUE_PEEKLIKE % name)
        dv = c_dflt(h['__Hdefault__'], fname)
        _, rec, _ = c_cache_call(h['__Hcall__'], sigs, fname, local_default=dv)
        D('Definition deque_%s_call : qcall := %s.' % (name, rec))
        D('Definition deque_%s_miss (value : comp) : bool := %s.' % (name, c_miss(h['__Hmiss__'], fname)))
        D('Definition deque_%s_exn : exn := %s.' % (name, c_exn(h['__Hexn__'], fname)))

    D('\n(* ---- Deque: remove, reverse, rotate ---- *)')
    h = method('Deque', 'remove', T_DEQUE_REMOVE)
    D('Definition deque_remove_reverse : bool := %s.' % c_keys(h['__Hkeys__'], fname))
    D('Definition deque_remove_match (value item : Z) : bool := %s.' % guard(h['__Hmatch__'], envv, fname))
    D('Definition deque_remove_exn : exn := %s.' % c_exn(h['__Hexn__'], fname))
    h = method('Deque', 'reverse', T_DEQUE_REVERSE)
    D('Definition deque_reverse_source : iterdir := %s.' % c_source(h['__Hsource__'], fname))
    h = method('Deque', 'rotate', T_DEQUE_ROTATE)
    envr = {'steps': ('steps', 'Z'), 'len_self': ('len_self', 'Z')}
    D('Definition deque_rotate_empty (len_self : Z) : bool := %s.' % guard(h['__Hempty__'], envr, fname))
    D('Definition deque_rotate_nonneg (steps : Z) : bool := %s.' % guard(h['__Hnonneg__'], envr, fname))
    D('Definition deque_rotate_neg_factor : Z := %s.' % zexpr(h['__Hneg__'], envr, fname))
    D('Definition deque_rotate_right_pop : mref := %s.' % c_mref(h['__Hrpop__'], fname))
    D('Definition deque_rotate_right_push : mref := %s.' % c_mref(h['__Hrpush__'], fname))
    D('Definition deque_rotate_left_pop : mref := %s.' % c_mref(h['__Hlpop__'], fname))
    D('Definition deque_rotate_left_push : mref := %s.' % c_mref(h['__Hlpush__'], fname))
    method('Deque', 'transact', T_TRANSACT)

    # ------------------------------------------------------------------ Index
    ix = find_func(tree, 'Index', fname)
    known = {'__init__', 'fromcache', 'cache', 'directory', '__getitem__', '__setitem__', '__delitem__',
             'setdefault', 'peekitem', 'pop', 'popitem', 'push', 'pull', 'clear', '__iter__', '__reversed__',
             '__len__', 'keys', 'values', 'items', '__getstate__', '__setstate__', '__eq__', '__ne__', 'memoize',
             'transact', '__repr__'} | set(INDEX_ALIASES)
    check_members(ix, known, fname)
    if [ast.unparse(b) for b in ix.bases] != ['MutableMapping']:
        err(ix, 'Index no longer derives from MutableMapping only', fname)
    assigns = class_assigns(ix)
    for a, target in INDEX_ALIASES.items():
        if a not in assigns or ast.unparse(assigns[a].value) != target:
            err(assigns.get(a, ix), 'Index.%s is no longer %s' % (a, target), fname)

    D('\n(* ---- Index ---- *)')
    h = method('Index', '__init__', T_INDEX_INIT)
    D('Definition index_init_policy : policy := %s.' % c_policy(h['__Hpolicy__'], fname))
    method('Index', 'fromcache', T_INDEX_FROMCACHE)
    method('Index', 'cache', T_DEQUE_CACHE)
    method('Index', 'directory', T_DEQUE_DIRECTORY)
    method('Index', '__getitem__', T_INDEX_GETITEM)
    method('Index', '__setitem__', T_INDEX_SETITEM)
    method('Index', '__delitem__', T_INDEX_DELITEM)
    D('(* __getitem__/__setitem__/__delitem__ are `self._cache[key]`, `self._cache[key] = value`, `del self._cache[key]` (fixed by template) *)')

    h = method('Index', 'setdefault', T_INDEX_SETDEFAULT)
    ret = h['__Hret__']
    if isinstance(ret, ast.Subscript) and dotted(ret.value) in ('_cache', 'self._cache') and dotted(ret.slice) == 'key':
        stored = 'true'
    elif dotted(ret) == 'default':
        stored = 'false'
    else:
        err(ret, 'unsupported setdefault result: ' + ast.unparse(ret), fname)
    D('Definition index_setdefault_returns_stored : bool := %s.' % stored)
    D('(* the lookup / add loop runs inside one transaction of the underlying cache *)')
    D('Definition index_setdefault_retry : bool := %s.' % c_bool(h['__Hretry__'], fname))
    meth, rec, full = c_cache_call(h['__Hadd__'], sigs, fname, in_txn=True, passthrough={'key': 'key', 'value': 'default'})
    if dotted(full['value']) != 'default':
        err(h['__Hadd__'], 'setdefault no longer adds `default`', fname)
    D('Definition index_setdefault_add : qcall := %s.' % rec)

    h = method('Index', 'peekitem', T_INDEX_PEEKITEM)
    _, rec, full = c_cache_call(h['__Hcall__'], sigs, fname, passthrough={'last': None})
    envb = {'last': ('last', 'bool')}
    D('Definition index_peekitem_call : qcall := %s.' % rec)
    D('Definition index_peekitem_last (last : bool) : bool := %s.' % Expr(envb, fname).boolean(full['last']))

    h = method('Index', 'pop', T_INDEX_POP)
    f = find_func(tree, 'Index.pop', fname)
    D('Definition index_pop_default : comp := %s.' % c_comp(f.args.defaults[0], fname))
    _, rec, full = c_cache_call(h['__Hcall__'], sigs, fname, local_default='(DfComp CEnoval)', passthrough={'key': 'key'})
    if dotted(full['default']) != 'default':
        err(h['__Hcall__'], 'Index.pop no longer forwards its default', fname)
    D('(* qc_default below is the default of Index.pop itself, forwarded as default=default *)')
    D('Definition index_pop_call : qcall := %s.' % rec.replace('(DfComp CEnoval)', '(DfComp index_pop_default)'))
    D('Definition index_pop_miss (value : comp) : bool := %s.' % c_miss(h['__Hmiss__'], fname))
    D('Definition index_pop_exn : exn := %s.' % c_exn(h['__Hexn__'], fname))

    h = method('Index', 'popitem', T_INDEX_POPITEM)
    D('Definition index_popitem_retry : bool := %s.' % c_bool(h['__Hretry__'], fname))
    D('Definition index_popitem_last (last : bool) : bool := %s.' % Expr(envb, fname).boolean(h['__Hlast__']))
    method('Index', 'push', T_INDEX_PUSH)
    method('Index', 'pull', T_INDEX_PULL)
    h = method('Index', 'clear', T_INDEX_CLEAR)
    D('Definition index_clear_call : qcall := %s.' % c_cache_call(h['__Hcall__'], sigs, fname)[1])
    method('Index', '__iter__', T_INDEX_ITER)
    method('Index', '__reversed__', T_INDEX_REVERSED)
    method('Index', '__len__', T_INDEX_LEN)
    method('Index', 'keys', T_INDEX_KEYS)
    method('Index', 'values', T_INDEX_VALUES)
    method('Index', 'items', T_INDEX_ITEMS)
    h = method('Index', '__getstate__', T_INDEX_GETSTATE)
    D('Definition index_getstate : list state_field := %s.' % c_fields(h['__Hstate__'], fname))
    method('Index', '__setstate__', T_INDEX_SETSTATE)

    h = method('Index', '__eq__', T_INDEX_EQ)
    enve = {'self': ('len_self', 'sized'), 'other': ('len_other', 'sized')}
    D('Definition index_eq_len_differs (len_self len_other : Z) : bool := %s.' % guard(h['__Hlendiff__'], enve, fname))
    o = h['__Hordered__']
    elts = o.elts if isinstance(o, ast.Tuple) else [o]
    kinds = []
    for e in elts:
        if dotted(e) not in MAPKINDS:
            err(e, 'unsupported mapping type in Index.__eq__: ' + ast.unparse(e), fname)
        kinds.append(MAPKINDS[dotted(e)])
    D('Definition index_eq_ordered_kinds : list mapkind := [%s].' % '; '.join(kinds))
    envp = {n: (n, 'Z') for n in 'abxy'}
    D('Definition index_eq_pair_differs (a b x y : Z) : bool := %s.' % guard(h['__Hpairdiff__'], envp, fname))
    method('Index', '__ne__', T_INDEX_NE)
    method('Index', 'transact', T_TRANSACT)
    method('Index', '__repr__', T_REPR_INDEX)
    return {'Gen_Persistent.v': ''.join(out)}
