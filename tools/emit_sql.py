"""Gen_Sql.v: every SQL statement, guard and constant of the data methods of core.Cache.

Each method is matched against a source template (AST identity, so the order of effectful calls --
store / transact / statements / cleanup / fetch / remove / return -- is pinned: a reordering is a
translator failure, i.e. a broken obligation).  Holes:
    __Hq_*__  SQL text      -> parsed by sqlsubset and compiled to relational combinators
    __Hg_*__  guard         -> compiled by pyast.Expr to a Gallina boolean
    __Hk_*__  constant      -> integer / string constants
"""
import ast

import sqlsubset as sq
from pyast import Expr, TranslateError, dotted, err, find_func, match_template
from translate import HEADER

T = {}

T['_transact'] = '''
def _transact(self, retry=False, filename=None):
    sql = self._sql
    _disk_remove = self._disk.remove
    tid = threading.get_ident()
    txn_id = self._txn_id
    if __Hg_nested__:
        begin = False
        filenames, created = self._txn_files
    else:
        while True:
            try:
                sql(__Hq_begin__)
                begin = True
                self._txn_id = tid
                break
            except sqlite3.OperationalError:
                if retry:
                    continue
                if filename is not None:
                    _disk_remove(filename)
                raise Timeout from None
        filenames, created = self._txn_files = ([], [])
    if filename is not None:
        created.append(filename)
    try:
        yield sql, filenames.append
    except BaseException:
        if begin:
            assert self._txn_id == tid
            self._txn_id = None
            sql(__Hq_rollback__)
            for name in created:
                _disk_remove(name)
        raise
    else:
        if begin:
            assert self._txn_id == tid
            self._txn_id = None
            sql(__Hq_commit__)
            for name in filenames:
                if name is not None:
                    _disk_remove(name)
'''

# the value file of a row deleted by pop / pull is removed at once -- or, inside a transaction of the calling thread,
# handed to that transaction, which removes it after its COMMIT
T['_remove_after_transaction'] = '''
def _remove_after_transaction(self, filename):
    if __Hg_inside__:
        self._txn_files[0].append(filename)
    else:
        self._disk.remove(filename)
'''

T['set'] = '''
def set(self, key, value, expire=None, read=False, tag=None, retry=False):
    now = time.time()
    db_key, raw = self._disk.put(key)
    expire_time = None if expire is None else now + expire
    size, mode, filename, db_value = self._disk.store(value, read, key=key)
    columns = (expire_time, tag, size, mode, filename, db_value)
    with self._transact(retry, filename) as (sql, cleanup):
        rows = sql(__Hq_select__, (db_key, raw)).fetchall()
        if rows:
            ((rowid, old_filename),) = rows
            self._row_update(rowid, now, columns)
            cleanup(old_filename)
        else:
            self._row_insert(db_key, raw, now, columns)
        self._cull(now, sql, cleanup)
        return True
'''

T['__setitem__'] = '''
def __setitem__(self, key, value):
    self.set(key, value, retry=True)
'''

T['_row_update'] = '''
def _row_update(self, rowid, now, columns):
    sql = self._sql
    expire_time, tag, size, mode, filename, value = columns
    sql(__Hq_update__, (now, expire_time, now, 0, tag, size, mode, filename, value, rowid))
'''

T['_row_insert'] = '''
def _row_insert(self, key, raw, now, columns):
    sql = self._sql
    expire_time, tag, size, mode, filename, value = columns
    sql(__Hq_insert__, (key, raw, now, expire_time, now, 0, tag, size, mode, filename, value))
'''

T['_cull'] = '''
def _cull(self, now, sql, cleanup, limit=None):
    cull_limit = self.cull_limit if limit is None else limit
    if __Hg_disabled__:
        return
    select_expired_template = __Hq_expired__
    select_expired = select_expired_template % 'filename'
    rows = sql(select_expired, (now, cull_limit)).fetchall()
    if rows:
        delete_expired = __Hq_delin__ % (select_expired_template % 'rowid')
        sql(delete_expired, (now, cull_limit))
        for (filename,) in rows:
            cleanup(filename)
        cull_limit -= len(rows)
        if __Hg_exhausted__:
            return
    select_policy = EVICTION_POLICY[self.eviction_policy]['cull']
    if __Hg_nopolicy__:
        return
    select_filename = select_policy.format(fields='filename', now=now)
    rows = sql(select_filename, (cull_limit,)).fetchall()
    if rows:
        delete = __Hq_delin2__ % (select_policy.format(fields='rowid', now=now))
        sql(delete, (cull_limit,))
        for (filename,) in rows:
            cleanup(filename)
'''

T['touch'] = '''
def touch(self, key, expire=None, retry=False):
    now = time.time()
    db_key, raw = self._disk.put(key)
    expire_time = None if expire is None else now + expire
    with self._transact(retry) as (sql, _):
        rows = sql(__Hq_select__, (db_key, raw)).fetchall()
        if rows:
            ((rowid, old_expire_time),) = rows
            if __Hg_live__:
                sql(__Hq_update__, (expire_time, rowid))
                return True
    return False
'''

T['add'] = '''
def add(self, key, value, expire=None, read=False, tag=None, retry=False):
    now = time.time()
    db_key, raw = self._disk.put(key)
    expire_time = None if expire is None else now + expire
    size, mode, filename, db_value = self._disk.store(value, read, key=key)
    columns = (expire_time, tag, size, mode, filename, db_value)
    with self._transact(retry, filename) as (sql, cleanup):
        rows = sql(__Hq_select__, (db_key, raw)).fetchall()
        if rows:
            ((rowid, old_filename, old_expire_time),) = rows
            if __Hg_live__:
                cleanup(filename)
                return False
            self._row_update(rowid, now, columns)
            cleanup(old_filename)
        else:
            self._row_insert(db_key, raw, now, columns)
        self._cull(now, sql, cleanup)
        return True
'''

T['incr'] = '''
def incr(self, key, delta=1, default=0, retry=False):
    now = time.time()
    db_key, raw = self._disk.put(key)
    select = __Hq_select__
    with self._transact(retry) as (sql, cleanup):
        rows = sql(select, (db_key, raw)).fetchall()
        if not rows:
            if default is None:
                raise KeyError(key)
            value = default + delta
            columns = (None, None) + self._disk.store(value, False, key=key)
            self._row_insert(db_key, raw, now, columns)
            self._cull(now, sql, cleanup)
            return value
        ((rowid, expire_time, filename, value),) = rows
        if __Hg_expired__:
            if default is None:
                raise KeyError(key)
            value = default + delta
            columns = (None, None) + self._disk.store(value, False, key=key)
            self._row_update(rowid, now, columns)
            self._cull(now, sql, cleanup)
            cleanup(filename)
            return value
        value += delta
        columns = __Hq_cols__
        update_column = EVICTION_POLICY[self.eviction_policy]['get']
        if update_column is not None:
            columns += ', ' + update_column.format(now=now)
        update = __Hq_update__ % columns
        sql(update, (now, value, rowid))
        return value
'''

T['decr'] = '''
def decr(self, key, delta=1, default=0, retry=False):
    return self.incr(key, -delta, default, retry)
'''

T['get'] = '''
def get(self, key, default=None, read=False, expire_time=False, tag=False, retry=False):
    db_key, raw = self._disk.put(key)
    update_column = EVICTION_POLICY[self.eviction_policy]['get']
    select = __Hq_select__
    if expire_time and tag:
        default = (default, None, None)
    elif expire_time or tag:
        default = (default, None)
    if __Hg_fast__:
        missing = ENOVAL
        while True:
            rows = self._sql(select, (db_key, raw, time.time())).fetchall()
            if not rows:
                return default
            ((rowid, db_expire_time, db_tag, mode, filename, db_value),) = rows
            try:
                value = self._disk.fetch(mode, filename, db_value, read)
            except IOError:
                if filename == missing:
                    return default
                missing = filename
            else:
                break
    else:
        cache_hit = __Hq_hit__
        cache_miss = __Hq_miss__
        with self._transact(retry) as (sql, _):
            rows = sql(select, (db_key, raw, time.time())).fetchall()
            if not rows:
                if self.statistics:
                    sql(cache_miss)
                return default
            ((rowid, db_expire_time, db_tag, mode, filename, db_value),) = rows
            try:
                value = self._disk.fetch(mode, filename, db_value, read)
            except IOError:
                if self.statistics:
                    sql(cache_miss)
                return default
            if self.statistics:
                sql(cache_hit)
            now = time.time()
            update = __Hq_update__
            if update_column is not None:
                sql(update % update_column.format(now=now), (rowid,))
    if expire_time and tag:
        return (value, db_expire_time, db_tag)
    elif expire_time:
        return (value, db_expire_time)
    elif tag:
        return (value, db_tag)
    else:
        return value
'''

T['__getitem__'] = '''
def __getitem__(self, key):
    value = self.get(key, default=ENOVAL, retry=True)
    if value is ENOVAL:
        raise KeyError(key)
    return value
'''

T['read'] = '''
def read(self, key, retry=False):
    handle = self.get(key, default=ENOVAL, read=True, retry=retry)
    if handle is ENOVAL:
        raise KeyError(key)
    return handle
'''

T['__contains__'] = '''
def __contains__(self, key):
    sql = self._sql
    db_key, raw = self._disk.put(key)
    select = __Hq_select__
    rows = sql(select, (db_key, raw, time.time())).fetchall()
    return bool(rows)
'''

T['pop'] = '''
def pop(self, key, default=None, expire_time=False, tag=False, retry=False):
    db_key, raw = self._disk.put(key)
    select = __Hq_select__
    if expire_time and tag:
        default = default, None, None
    elif expire_time or tag:
        default = default, None
    with self._transact(retry) as (sql, _):
        rows = sql(select, (db_key, raw, time.time())).fetchall()
        if not rows:
            return default
        ((rowid, db_expire_time, db_tag, mode, filename, db_value),) = rows
        sql(__Hq_delete__, (rowid,))
    try:
        value = self._disk.fetch(mode, filename, db_value, False)
    except IOError:
        return default
    finally:
        if filename is not None:
            self._remove_after_transaction(filename)
    if expire_time and tag:
        return value, db_expire_time, db_tag
    elif expire_time:
        return value, db_expire_time
    elif tag:
        return value, db_tag
    else:
        return value
'''

T['__delitem__'] = '''
def __delitem__(self, key, retry=True):
    db_key, raw = self._disk.put(key)
    with self._transact(retry) as (sql, cleanup):
        rows = sql(__Hq_select__, (db_key, raw, time.time())).fetchall()
        if not rows:
            raise KeyError(key)
        ((rowid, filename),) = rows
        sql(__Hq_delete__, (rowid,))
        cleanup(filename)
        return True
'''

T['delete'] = '''
def delete(self, key, retry=False):
    try:
        return self.__delitem__(key, retry=retry)
    except KeyError:
        return False
'''

T['push'] = '''
def push(self, value, prefix=None, side='back', expire=None, read=False, tag=None, retry=False):
    if prefix is None:
        min_key = __Hk_min__
        max_key = __Hk_max__
    else:
        min_key = prefix + __Hk_smin__
        max_key = prefix + __Hk_smax__
    now = time.time()
    raw = True
    expire_time = None if expire is None else now + expire
    order = __Hk_order__
    select = __Hq_select__ % order[side]
    size, mode, filename, db_value = self._disk.store(value, read)
    columns = (expire_time, tag, size, mode, filename, db_value)
    with self._transact(retry, filename) as (sql, cleanup):
        rows = sql(select, (min_key, max_key, raw)).fetchall()
        if rows:
            ((key,),) = rows
            if prefix is not None:
                num = int(key[(key.rfind('-') + 1) :])
            else:
                num = key
            if side == 'back':
                num += 1
            else:
                assert side == 'front'
                num -= 1
        else:
            num = __Hk_start__
        if prefix is not None:
            db_key = __Hk_fmt__.format(prefix, num)
        else:
            db_key = num
        self._row_insert(db_key, raw, now, columns)
        self._cull(now, sql, cleanup)
        return db_key
'''

PULLPEEK_HEAD = '''
    if prefix is None:
        min_key = __Hk_min__
        max_key = __Hk_max__
    else:
        min_key = prefix + __Hk_smin__
        max_key = prefix + __Hk_smax__
    order = __Hk_order__
    select = __Hq_select__ % order[side]
    if expire_time and tag:
        default = default, None, None
    elif expire_time or tag:
        default = default, None
'''
RET_KV = '''
    if expire_time and tag:
        return (key, value), db_expire, db_tag
    elif expire_time:
        return (key, value), db_expire
    elif tag:
        return (key, value), db_tag
    else:
        return key, value
'''

T['pull'] = '''
def pull(self, prefix=None, default=(None, None), side='front', expire_time=False, tag=False, retry=False):
''' + PULLPEEK_HEAD + '''
    while True:
        while True:
            with self._transact(retry) as (sql, cleanup):
                rows = sql(select, (min_key, max_key)).fetchall()
                if not rows:
                    return default
                ((rowid, key, db_expire, db_tag, mode, name, db_value),) = rows
                sql(__Hq_delete__, (rowid,))
                if __Hg_expired__:
                    cleanup(name)
                else:
                    break
        try:
            value = self._disk.fetch(mode, name, db_value, False)
        except IOError:
            continue
        finally:
            if name is not None:
                self._remove_after_transaction(name)
        break
''' + RET_KV

T['peek'] = '''
def peek(self, prefix=None, default=(None, None), side='front', expire_time=False, tag=False, retry=False):
''' + PULLPEEK_HEAD + '''
    while True:
        while True:
            with self._transact(retry) as (sql, cleanup):
                rows = sql(select, (min_key, max_key)).fetchall()
                if not rows:
                    return default
                ((rowid, key, db_expire, db_tag, mode, name, db_value),) = rows
                if __Hg_expired__:
                    sql(__Hq_delete__, (rowid,))
                    cleanup(name)
                else:
                    break
        try:
            value = self._disk.fetch(mode, name, db_value, False)
        except IOError:
            continue
        break
''' + RET_KV

T['peekitem'] = '''
def peekitem(self, last=True, expire_time=False, tag=False, retry=False):
    order = __Hk_order__
    select = __Hq_select__ % order[last]
    while True:
        while True:
            with self._transact(retry) as (sql, cleanup):
                rows = sql(select).fetchall()
                if not rows:
                    raise KeyError('dictionary is empty')
                ((rowid, db_key, raw, db_expire, db_tag, mode, name, db_value),) = rows
                if __Hg_expired__:
                    sql(__Hq_delete__, (rowid,))
                    cleanup(name)
                else:
                    break
        key = self._disk.get(db_key, raw)
        try:
            value = self._disk.fetch(mode, name, db_value, False)
        except IOError:
            continue
        break
''' + RET_KV

T['evict'] = '''
def evict(self, tag, retry=False):
    select = __Hq_select__
    args = [tag, 0, __Hk_page__]
    return self._select_delete(select, args, arg_index=1, retry=retry)
'''

T['expire'] = '''
def expire(self, now=None, retry=False):
    select = __Hq_select__
    args = [0, now or time.time(), __Hk_page__]
    return self._select_delete(select, args, row_index=1, retry=retry)
'''

T['clear'] = '''
def clear(self, retry=False):
    select = __Hq_select__
    args = [0, __Hk_page__]
    return self._select_delete(select, args, retry=retry)
'''

T['cull'] = '''
def cull(self, retry=False):
    now = time.time()
    if retry:
        count = self.expire(now, retry=True)
    else:
        count = self.expire(now)
    select_policy = EVICTION_POLICY[self.eviction_policy]['cull']
    if select_policy is None:
        return __Hk_nonepolicy__
    select_filename = select_policy.format(fields='filename', now=now)
    try:
        while __Hg_over__:
            with self._transact(retry) as (sql, cleanup):
                rows = sql(select_filename, (__Hk_page__,)).fetchall()
                if not rows:
                    break
                count += len(rows)
                delete = (__Hq_delin__ % select_policy.format(fields='rowid', now=now))
                sql(delete, (__Hk_page2__,))
                for (filename,) in rows:
                    cleanup(filename)
    except Timeout:
        raise Timeout(count) from None
    return count
'''

T['_select_delete'] = '''
def _select_delete(self, select, args, row_index=0, arg_index=0, retry=False):
    count = 0
    delete = __Hq_delin__
    try:
        while True:
            with self._transact(retry) as (sql, cleanup):
                rows = sql(select, args).fetchall()
                if not rows:
                    break
                count += len(rows)
                sql(delete % ','.join(str(row[0]) for row in rows))
                for row in rows:
                    args[arg_index] = row[row_index]
                    cleanup(row[-1])
    except Timeout:
        raise Timeout(count) from None
    return count
'''

T['iterkeys'] = '''
def iterkeys(self, reverse=False):
    sql = self._sql
    limit = __Hk_page__
    _disk_get = self._disk.get
    if reverse:
        select = __Hq_first_desc__
        iterate = __Hq_iter_desc__
    else:
        select = __Hq_first_asc__
        iterate = __Hq_iter_asc__
    row = sql(select).fetchall()
    if row:
        ((key, raw),) = row
    else:
        return
    yield _disk_get(key, raw)
    while True:
        rows = sql(iterate, (key, raw, key, limit)).fetchall()
        if not rows:
            break
        for key, raw in rows:
            yield _disk_get(key, raw)
'''

T['_iter'] = '''
def _iter(self, ascending=True):
    sql = self._sql
    rows = sql(__Hq_max__).fetchall()
    ((max_rowid,),) = rows
    yield
    if max_rowid is None:
        return
    bound = max_rowid + 1
    limit = __Hk_page__
    _disk_get = self._disk.get
    rowid = 0 if ascending else bound
    select = __Hq_select__ % ('ASC' if ascending else 'DESC')
    while True:
        if ascending:
            args = (rowid, bound, limit)
        else:
            args = (0, rowid, limit)
        rows = sql(select, args).fetchall()
        if not rows:
            break
        for rowid, key, raw in rows:
            yield _disk_get(key, raw)
'''

T['stats'] = '''
def stats(self, enable=True, reset=False):
    result = (self.reset('hits'), self.reset('misses'))
    if reset:
        self.reset('hits', 0)
        self.reset('misses', 0)
    self.reset('statistics', enable)
    return result
'''

T['volume'] = '''
def volume(self):
    ((page_count,),) = self._sql('PRAGMA page_count').fetchall()
    total_size = self._page_size * page_count + self.reset('size')
    return total_size
'''

T['__len__'] = '''
def __len__(self):
    return self.reset('count')
'''

POLICIES = ['none', 'least-recently-stored', 'least-recently-used', 'least-frequently-used']
PNAME = {'none': 'PNone', 'least-recently-stored': 'PLRS', 'least-recently-used': 'PLRU', 'least-frequently-used': 'PLFU'}


def sconst(node, fname):
    if isinstance(node, ast.Constant) and isinstance(node.value, str):
        return node.value
    err(node, 'expected a string literal here, found: ' + ast.unparse(node)[:80], fname)


def iconst(node, fname):
    if isinstance(node, ast.Constant) and isinstance(node.value, int) and not isinstance(node.value, bool):
        return node.value
    if isinstance(node, ast.UnaryOp) and isinstance(node.op, ast.USub):
        return -iconst(node.operand, fname)
    err(node, 'expected an integer literal here, found: ' + ast.unparse(node)[:80], fname)


def wrap(fn, node, fname, *a, **kw):
    try:
        return fn(*a, **kw)
    except sq.SqlError as e:
        err(node, 'SQL outside the supported subset: %s' % e, fname)


def emit(ctx):
    fname = ctx.path('core')
    tree = ctx.tree('core')
    consts = ctx.module_int_consts('core')
    out = [HEADER % 'core.py Cache data methods, EVICTION_POLICY, triggers',
           'From DC Require Import DCPrelude Val SqlBase.\n\n']
    H = {}
    for name, tmpl in T.items():
        H[name] = match_template(tmpl, find_func(tree, 'Cache.' + name, fname), fname)

    def sel(defname, method, hole, transform=None):
        node = H[method][hole]
        s = sconst(node, fname)
        if transform:
            s = transform(s)
        text, parsed = wrap(sq.emit_select, node, fname, defname, s)
        out.append(text)
        return parsed

    def dele(defname, method, hole, transform=None, ids=False):
        node = H[method][hole]
        s = sconst(node, fname)
        if transform:
            s = transform(s)
        text, parsed = wrap(sq.emit_delete, node, fname, defname, s, ids)
        out.append(text)
        return parsed

    def upd(defname, method, hole, transform=None):
        node = H[method][hole]
        s = sconst(node, fname)
        if transform:
            s = transform(s)
        text, parsed = wrap(sq.emit_update, node, fname, defname, s)
        out.append(text)
        return parsed

    def guard(defname, method, hole, env, params, calls=None):
        node = H[method][hole]
        g = Expr(env, fname, consts, calls=calls or {}).boolean(node)
        out.append('(* %s: %s *)\nDefinition %s %s : bool := %s.\n' % (method, ast.unparse(node), defname, params, g))

    def kint(defname, method, hole):
        out.append('Definition %s : Z := %d.\n' % (defname, iconst(H[method][hole], fname)))

    # ---- transactions
    out.append('(* ---- _transact ---- *)\n')
    for hole, want in (('__Hq_begin__', 'BEGIN IMMEDIATE'), ('__Hq_commit__', 'COMMIT'), ('__Hq_rollback__', 'ROLLBACK')):
        got = ' '.join(sconst(H['_transact'][hole], fname).split()).upper()
        if got != want:
            err(H['_transact'][hole], 'transaction statement is %r, the model knows %r' % (got, want), fname)
    out.append('Definition txn_begin_immediate : bool := true.\n'
               '(* on a failed BEGIN (no retry) and after ROLLBACK the freshly written value file is removed *)\n'
               'Definition transact_failure_removes_file : bool := true.\n')
    g = H['_transact']['__Hg_nested__']
    gs = ast.unparse(g).replace(' ', '')
    if gs not in ('tid==txn_id', 'txn_id==tid'):
        err(g, 'nested-transaction test is not `tid == txn_id`', fname)
    out.append('(* _transact joins an open transaction iff it belongs to the calling thread *)\n'
               'Definition transact_nested (tid : Z) (txn_id : option Z) : bool := '
               'match txn_id with Some t => tid =? t | None => false end.\n')
    g = H['_remove_after_transaction']['__Hg_inside__']
    gs = ast.unparse(g).replace(' ', '')
    if gs not in ('self._txn_id==threading.get_ident()', 'threading.get_ident()==self._txn_id'):
        err(g, '_remove_after_transaction: the test is not `self._txn_id == threading.get_ident()`', fname)
    out.append('(* file removals are deferred: a call nested in a transaction of its thread hands the files it releases (cleanup lists, the\n'
               '   file of a popped / pulled value) to the outermost transaction, which removes them after its COMMIT; files stored inside a\n'
               '   transaction that is rolled back are removed after the ROLLBACK; set / add announce the removal of the old file only after the\n'
               '   row has been rewritten (templates of _transact / _remove_after_transaction / set / add) *)\n'
               'Definition transact_defers_removals : bool := true.\n\n')

    # ---- row insert/update
    out.append('(* ---- _row_insert / _row_update ---- *)\n')
    node = H['_row_insert']['__Hq_insert__']
    text, _ = wrap(sq.emit_insert, node, fname, 'row_insert', sconst(node, fname))
    out.append(text)
    upd('row_update', '_row_update', '__Hq_update__')
    out.append('\n')

    # ---- set / add / touch
    out.append('(* ---- set / add / touch ---- *)\n')
    sel('set_select', 'set', '__Hq_select__')
    sel('add_select', 'add', '__Hq_select__')
    env = {'old_expire_time': ('old_expire_time', 'optZ'), 'now': ('now', 'Z')}
    guard('add_live', 'add', '__Hg_live__', env, '(old_expire_time : option Z) (now : Z)')
    sel('touch_select', 'touch', '__Hq_select__')
    guard('touch_live', 'touch', '__Hg_live__', env, '(old_expire_time : option Z) (now : Z)')
    upd('touch_update', 'touch', '__Hq_update__')
    out.append('\n')

    # ---- _cull
    out.append('(* ---- _cull ---- *)\n')
    envc = {'cull_limit': ('cull_limit', 'Z')}
    guard('cull_disabled', '_cull', '__Hg_disabled__', envc, '(cull_limit : Z)')
    guard('cull_exhausted', '_cull', '__Hg_exhausted__', envc, '(cull_limit : Z)')
    envp = {'select_policy': ('select_policy', 'optany'), 'self.size_limit': ('size_limit', 'Z')}
    calls = {'self.volume': lambda args, node, ex: ('volume', 'Z')}
    guard('cull_skip_policy', '_cull', '__Hg_nopolicy__', envp,
          '(select_policy : option unit) (volume size_limit : Z)', calls)
    exp_t = sconst(H['_cull']['__Hq_expired__'], fname)
    delin = sconst(H['_cull']['__Hq_delin__'], fname)
    delin2 = sconst(H['_cull']['__Hq_delin2__'], fname)
    text, _ = wrap(sq.emit_select, H['_cull']['__Hq_expired__'], fname, 'cull_expired_select', exp_t % 'filename')
    out.append(text)
    text, _ = wrap(sq.emit_delete, H['_cull']['__Hq_delin__'], fname, 'cull_expired_delete', delin % (exp_t % 'rowid'))
    out.append(text)

    # ---- EVICTION_POLICY
    pol = None
    for n in tree.body:
        if isinstance(n, ast.Assign) and len(n.targets) == 1 and dotted(n.targets[0]) == 'EVICTION_POLICY':
            try:
                pol = ast.literal_eval(n.value)
            except Exception:
                err(n, 'EVICTION_POLICY is not a literal', fname)
            polnode = n
    if pol is None:
        raise TranslateError('%s: EVICTION_POLICY not found' % fname)
    if sorted(pol) != sorted(POLICIES):
        err(polnode, 'eviction policies are %s, the model knows %s' % (sorted(pol), sorted(POLICIES)), fname)
    out.append('\n(* ---- EVICTION_POLICY ---- *)\n')
    has_cull, has_get = [], []
    for p in POLICIES:
        ent = pol[p]
        if sorted(ent) != ['cull', 'get', 'init']:
            err(polnode, 'policy %s has keys %s' % (p, sorted(ent)), fname)
        if ent['cull'] is not None:
            has_cull.append(p)
            s = ent['cull'].format(fields='filename', now='?')
            text, _ = wrap(sq.emit_select, polnode, fname, 'policy_cull_select_%s' % PNAME[p], s)
            out.append(text)
            d = delin2 % ent['cull'].format(fields='rowid', now='?')
            text, _ = wrap(sq.emit_delete, polnode, fname, 'policy_cull_delete_%s' % PNAME[p], d)
            out.append(text)
            d3 = sconst(H['cull']['__Hq_delin__'], fname) % ent['cull'].format(fields='rowid', now='?')
            text, _ = wrap(sq.emit_delete, polnode, fname, 'policy_cullall_delete_%s' % PNAME[p], d3)
            out.append(text)
        if ent['get'] is not None:
            has_get.append(p)
    out.append('Definition policy_has_cull (p : policy) : bool := match p with %s | _ => false end.\n'
               % ' | '.join('%s => true' % PNAME[p] for p in has_cull))
    out.append('Definition policy_has_get (p : policy) : bool := match p with %s | _ => false end.\n'
               % ' | '.join('%s => true' % PNAME[p] for p in has_get))
    out.append('Definition policy_cull_select (p : policy) (lim : Z) (t : list row) : list row :=\n  match p with %s | _ => [] end.\n'
               % ' | '.join('%s => policy_cull_select_%s lim t' % (PNAME[p], PNAME[p]) for p in has_cull))
    out.append('Definition policy_cull_delete (p : policy) (lim : Z) (t : list row) (r : row) : bool :=\n  match p with %s | _ => false end.\n'
               % ' | '.join('%s => policy_cull_delete_%s lim t r' % (PNAME[p], PNAME[p]) for p in has_cull))
    out.append('Definition policy_cullall_delete (p : policy) (lim : Z) (t : list row) (r : row) : bool :=\n  match p with %s | _ => false end.\n'
               % ' | '.join('%s => policy_cullall_delete_%s lim t r' % (PNAME[p], PNAME[p]) for p in has_cull))
    # get-time update of the policy column: 'UPDATE Cache SET %s WHERE rowid = ?' % column.format(now=now)
    gupd = sconst(H['get']['__Hq_update__'], fname)
    for p in has_get:
        s = gupd % pol[p]['get'].format(now='?')
        text, parsed = wrap(sq.emit_update, polnode, fname, 'policy_get_update_%s' % PNAME[p], s)
        out.append(text)
    # uniform wrapper: (now, rowid)
    lines = []
    for p in has_get:
        uses_now = '{now}' in pol[p]['get']
        if uses_now:
            lines.append('%s => if policy_get_update_%s_where now rid r then policy_get_update_%s_set now rid r else r' % (PNAME[p], PNAME[p], PNAME[p]))
        else:
            lines.append('%s => if policy_get_update_%s_where rid r then policy_get_update_%s_set rid r else r' % (PNAME[p], PNAME[p], PNAME[p]))
    out.append('Definition policy_get_update (p : policy) (now rid : Z) (r : row) : row :=\n  match p with %s | _ => r end.\n'
               % ' | '.join(lines))
    # incr: 'UPDATE Cache SET %s WHERE rowid = ?' % ('store_time = ?, value = ?' [+ ', ' + column])
    icols = sconst(H['incr']['__Hq_cols__'], fname)
    iupd = sconst(H['incr']['__Hq_update__'], fname)
    text, _ = wrap(sq.emit_update, H['incr']['__Hq_update__'], fname, 'incr_update_plain', iupd % icols)
    out.append(text)
    lines = []
    for p in POLICIES:
        if p in has_get:
            s = iupd % (icols + ', ' + pol[p]['get'].format(now='?'))
            text, parsed = wrap(sq.emit_update, polnode, fname, 'incr_update_%s' % PNAME[p], s)
            out.append(text)
            if '{now}' in pol[p]['get']:
                # textual parameter order: store_time, value, <now>, rowid
                lines.append('%s => if incr_update_%s_where now v now rid r then incr_update_%s_set now v now rid r else r' % (PNAME[p], PNAME[p], PNAME[p]))
            else:
                lines.append('%s => if incr_update_%s_where now v rid r then incr_update_%s_set now v rid r else r' % (PNAME[p], PNAME[p], PNAME[p]))
    out.append('Definition incr_update (p : policy) (now : Z) (v : sqlval) (rid : Z) (r : row) : row :=\n  match p with %s | _ => if incr_update_plain_where now v rid r then incr_update_plain_set now v rid r else r end.\n\n'
               % ' | '.join(lines))

    # ---- incr
    out.append('(* ---- incr ---- *)\n')
    sel('incr_select', 'incr', '__Hq_select__')
    env = {'expire_time': ('expire_time', 'optZ'), 'now': ('now', 'Z')}
    guard('incr_expired', 'incr', '__Hg_expired__', env, '(expire_time : option Z) (now : Z)')
    out.append('\n')

    # ---- get / contains / pop / delitem
    out.append('(* ---- get / __contains__ / pop / __delitem__ ---- *)\n')
    sel('get_select', 'get', '__Hq_select__')
    env = {'self.statistics': ('statistics', 'bool'), 'update_column': ('update_column', 'optany')}
    guard('get_fast_path', 'get', '__Hg_fast__', env, '(statistics : bool) (update_column : option unit)')
    for hole, key, defname in (('__Hq_hit__', 'hits', 'settings_hit'), ('__Hq_miss__', 'misses', 'settings_miss')):
        node = H['get'][hole]
        s = ' '.join(sconst(node, fname).split())
        want = 'UPDATE Settings SET value = value + 1 WHERE key = "%s"' % key
        if s != want:
            err(node, 'statistics statement is %r, the model knows %r' % (s, want), fname)
    out.append('Definition stats_hit_increment : Z := 1.\nDefinition stats_miss_increment : Z := 1.\n')
    # the shape of the lock-free path is pinned by the template of get: SELECT; fetch; on IOError SELECT again unless the file that
    # could not be opened is the one that was already missing the time before; a miss only when a SELECT finds no row (or on that exit)
    out.append('(* get, lock-free path (template of get): when the value file named by the selected row cannot be opened (the value was\n'
               '   replaced or removed between the SELECT and the open) the lookup SELECTs again; it returns the default only when a SELECT\n'
               '   finds no row or when the SAME file is missing twice in a row *)\n'
               'Definition get_retries_after_missing_file : bool := true.\n')
    sel('contains_select', '__contains__', '__Hq_select__')
    sel('pop_select', 'pop', '__Hq_select__')
    dele('pop_delete', 'pop', '__Hq_delete__')
    sel('del_select', '__delitem__', '__Hq_select__')
    dele('del_delete', '__delitem__', '__Hq_delete__')
    out.append('\n')

    # ---- queues
    out.append('(* ---- push / pull / peek / peekitem ---- *)\n')
    for m in ('push', 'pull', 'peek'):
        kint('%s_min_key' % m, m, '__Hk_min__')
        kint('%s_max_key' % m, m, '__Hk_max__')
        out.append('Definition %s_smin : list Z := %s.\n' % (m, '[' + '; '.join(str(ord(c)) for c in sconst(H[m]['__Hk_smin__'], fname)) + ']'))
        out.append('Definition %s_smax : list Z := %s.\n' % (m, '[' + '; '.join(str(ord(c)) for c in sconst(H[m]['__Hk_smax__'], fname)) + ']'))
        try:
            order = ast.literal_eval(H[m]['__Hk_order__'])
        except Exception:
            err(H[m]['__Hk_order__'], 'order table is not a literal', fname)
        if sorted(order) != ['back', 'front']:
            err(H[m]['__Hk_order__'], 'order table keys are %s' % sorted(order), fname)
        for side in ('back', 'front'):
            sel('%s_select_%s' % (m, side), m, '__Hq_select__', lambda s, side=side, order=order: s % order[side])
    kint('push_start', 'push', '__Hk_start__')
    fmt = sconst(H['push']['__Hk_fmt__'], fname)
    if fmt != '{0}-{1:015d}':
        err(H['push']['__Hk_fmt__'], 'queue key format is %r, the model knows {0}-{1:015d}' % fmt, fname)
    out.append('Definition push_key_digits : Z := 15.\n')
    env = {'db_expire': ('db_expire', 'optZ')}
    calls = {'time.time': lambda args, node, ex: ('now', 'Z')}
    for m in ('pull', 'peek', 'peekitem'):
        guard('%s_expired' % m, m, '__Hg_expired__', env, '(db_expire : option Z) (now : Z)', calls)
        dele('%s_delete' % m, m, '__Hq_delete__')
    try:
        order = ast.literal_eval(H['peekitem']['__Hk_order__'])
    except Exception:
        err(H['peekitem']['__Hk_order__'], 'order table is not a literal', fname)
    if not (isinstance(order, tuple) and len(order) == 2):
        err(H['peekitem']['__Hk_order__'], 'peekitem order is not a pair', fname)
    sel('peekitem_select_first', 'peekitem', '__Hq_select__', lambda s: s % order[False])
    sel('peekitem_select_last', 'peekitem', '__Hq_select__', lambda s: s % order[True])
    out.append('\n')

    # ---- bulk removal
    out.append('(* ---- evict / expire / clear / cull / _select_delete ---- *)\n')
    sel('evict_select', 'evict', '__Hq_select__')
    kint('evict_page', 'evict', '__Hk_page__')
    sel('expire_select', 'expire', '__Hq_select__')
    kint('expire_page', 'expire', '__Hk_page__')
    sel('clear_select', 'clear', '__Hq_select__')
    kint('clear_page', 'clear', '__Hk_page__')
    node = H['_select_delete']['__Hq_delin__']
    s = sconst(node, fname)
    text, _ = wrap(sq.emit_delete, node, fname, 'select_delete_delete', s % 'IDS', True)
    out.append(text)
    kint('cull_page', 'cull', '__Hk_page__')
    kint('cull_page_delete', 'cull', '__Hk_page2__')
    nn = H['cull']['__Hk_nonepolicy__']
    if isinstance(nn, ast.Constant) and nn.value == 0:
        out.append('Definition cull_none_returns_count : bool := false.\n')
    elif ast.unparse(nn) == 'count':
        out.append('Definition cull_none_returns_count : bool := true.\n')
    else:
        err(nn, 'cull() with policy none returns neither 0 nor count', fname)
    envv = {'self.size_limit': ('size_limit', 'Z')}
    calls = {'self.volume': lambda args, node, ex: ('volume', 'Z')}
    guard('cull_over_limit', 'cull', '__Hg_over__', envv, '(volume size_limit : Z)', calls)
    out.append('\n')

    # ---- iteration
    out.append('(* ---- iterkeys / _iter ---- *)\n')
    kint('iterkeys_page', 'iterkeys', '__Hk_page__')
    sel('iterkeys_first_asc', 'iterkeys', '__Hq_first_asc__')
    sel('iterkeys_first_desc', 'iterkeys', '__Hq_first_desc__')
    sel('iterkeys_iter_asc', 'iterkeys', '__Hq_iter_asc__')
    sel('iterkeys_iter_desc', 'iterkeys', '__Hq_iter_desc__')
    kint('iter_page', '_iter', '__Hk_page__')
    sel('iter_max', '_iter', '__Hq_max__')
    sel('iter_select_asc', '_iter', '__Hq_select__', lambda s: s % 'ASC')
    sel('iter_select_desc', '_iter', '__Hq_select__', lambda s: s % 'DESC')
    out.append('\n')

    # ---- triggers
    out.append('(* ---- triggers created in Cache.__init__ ---- *)\n')
    init = find_func(tree, 'Cache.__init__', fname)
    trig = {}
    for n in ast.walk(init):
        if isinstance(n, ast.Call) and dotted(n.func) == 'sql' and n.args and isinstance(n.args[0], ast.Constant) \
                and isinstance(n.args[0].value, str) and n.args[0].value.strip().upper().startswith('CREATE TRIGGER'):
            ev, key, fn, _ = wrap(sq.emit_trigger, n, fname, n.args[0].value)
            if (ev, key) in trig:
                err(n, 'two triggers for %s/%s' % (ev, key), fname)
            trig[(ev, key)] = fn
    known = {('INSERT', 'count'), ('DELETE', 'count'), ('INSERT', 'size'), ('UPDATE', 'size'), ('DELETE', 'size')}
    if set(trig) != known:
        raise TranslateError('%s: triggers are %s, the model knows %s' % (fname, sorted(trig), sorted(known)))
    for (ev, key), fn in sorted(trig.items()):
        out.append('Definition trig_%s_%s : Z -> row -> row -> Z := %s.\n' % (ev.lower(), key, fn))
    # the Cache table columns and the unique index
    ddl = None
    for n in ast.walk(init):
        if isinstance(n, ast.Call) and dotted(n.func) == 'sql' and n.args and isinstance(n.args[0], ast.Constant) \
                and isinstance(n.args[0].value, str) and 'CREATE TABLE IF NOT EXISTS Cache' in n.args[0].value:
            ddl = ' '.join(n.args[0].value.split())
    want = ('CREATE TABLE IF NOT EXISTS Cache ( rowid INTEGER PRIMARY KEY, key BLOB, raw INTEGER, store_time REAL, expire_time REAL, '
            'access_time REAL, access_count INTEGER DEFAULT 0, tag BLOB, size INTEGER DEFAULT 0, mode INTEGER DEFAULT 0, filename TEXT, value BLOB)')
    if ddl != want:
        raise TranslateError('%s: Cache table DDL changed: %r' % (fname, ddl))
    out.append('Definition cache_table_columns : Z := 12.\n')
    return {'Gen_Sql.v': ''.join(out)}
