"""Gen_Recipes.v: the guards, stored values, defaults, retry flags and cache-method names of
recipes.py Lock / RLock / BoundedSemaphore / Averager / throttle / barrier (C15, C20).

Every method is matched against a source template (AST equality outside the __Hname__ holes); the
holes are compiled to Gallina by small whitelisting compilers below.  Anything else raises
TranslateError (fail closed).  model/Recipes.v calls the generated definitions, so flipping a
comparison, changing a stored value or calling another cache method changes the model and breaks a
bridge lemma of proofs/RecipesFacts.v (or AveragerFacts.v / ThrottleFacts.v).
"""
import ast

from pyast import CMP, Expr, TranslateError, dotted, err, find_func, match_template
from translate import HEADER

# ---------------------------------------------------------------------------
# templates

T_LOCK_ACQUIRE = '''
def acquire(self):
    while True:
        added = __Hcall__(self._key, None, expire=self._expire, tag=self._tag, retry=__Hretry__)
        if added:
            break
        time.sleep(0.001)
'''

T_LOCK_RELEASE = '''
def release(self):
    __Hcall__(self._key, retry=__Hretry__)
'''

T_LOCK_LOCKED = '''
def locked(self):
    return self._key in self._cache
'''

T_ENTER = '''
def __enter__(self):
    self.acquire()
'''

T_EXIT = '''
def __exit__(self, *exc_info):
    self.release()
'''

T_RLOCK_ACQUIRE = '''
def acquire(self):
    pid = os.getpid()
    tid = threading.get_ident()
    pid_tid = '{}-{}'.format(pid, tid)

    while True:
        with self._cache.transact(retry=__Hretry__):
            value, count = self._cache.get(self._key, default=__Hdefault__)
            if __Hguard__:
                self._cache.set(self._key, (__Howner__, __Hcount__), expire=self._expire, tag=self._tag)
                return
        time.sleep(0.001)
'''

T_RLOCK_RELEASE = '''
def release(self):
    pid = os.getpid()
    tid = threading.get_ident()
    pid_tid = '{}-{}'.format(pid, tid)

    with self._cache.transact(retry=__Hretry__):
        value, count = self._cache.get(self._key, default=__Hdefault__)
        is_owned = __Hguard__
        assert is_owned, 'cannot release un-acquired lock'
        self._cache.set(self._key, (__Howner__, __Hcount__), expire=self._expire, tag=self._tag)
'''

T_SEM_ACQUIRE = '''
def acquire(self):
    while True:
        with self._cache.transact(retry=__Hretry__):
            value = self._cache.get(self._key, default=__Hdefault__)
            if __Hguard__:
                self._cache.set(self._key, __Hstore__, expire=self._expire, tag=self._tag)
                return
        time.sleep(0.001)
'''

T_SEM_RELEASE = '''
def release(self):
    with self._cache.transact(retry=__Hretry__):
        value = self._cache.get(self._key, default=__Hdefault__)
        assert __Hguard__, 'cannot release un-acquired semaphore'
        value += __Hinc__
        self._cache.set(self._key, value, expire=self._expire, tag=self._tag)
'''

T_AVG_ADD = '''
def add(self, value):
    with self._cache.transact(retry=__Hretry__):
        total, count = self._cache.get(self._key, default=__Hdefault__)
        total += __Hdt__
        count += __Hdc__
        self._cache.set(self._key, (total, count), expire=self._expire, tag=self._tag)
'''

T_AVG_GET = '''
def get(self):
    total, count = __Hcall__(self._key, default=__Hdefault__, retry=__Hretry__)
    return None if __Hnone__ else total / count
'''

T_AVG_POP = '''
def pop(self):
    total, count = __Hcall__(self._key, default=__Hdefault__, retry=__Hretry__)
    return None if __Hnone__ else total / count
'''

T_THROTTLE = '''
def throttle(cache, count, seconds, name=None, expire=None, tag=None, time_func=time.time, sleep_func=time.sleep):
    def decorator(func):
        rate = __Hrate__
        key = full_name(func) if name is None else name
        now = time_func()
        cache.set(key, (__Hinit_last__, __Hinit_tally__), expire=expire, tag=tag, retry=__Hretry__)

        @functools.wraps(func)
        def wrapper(*args, **kwargs):
            while True:
                with cache.transact(retry=__Htretry__):
                    last, tally = cache.get(key)
                    now = time_func()
                    tally += __Hrefill__
                    delay = 0

                    if __Hfull__:
                        cache.set(key, (__Hfull_last__, __Hfull_tally__), expire)
                    elif __Hok__:
                        cache.set(key, (__Hok_last__, __Hok_tally__), expire)
                    else:
                        delay = __Hdelay__

                if delay:
                    sleep_func(delay)
                else:
                    break

            return func(*args, **kwargs)

        return wrapper

    return decorator
'''

T_BARRIER = '''
def barrier(cache, lock_factory, name=None, expire=None, tag=None):
    def decorator(func):
        key = full_name(func) if name is None else name
        lock = lock_factory(cache, key, expire=expire, tag=tag)

        @functools.wraps(func)
        def wrapper(*args, **kwargs):
            __HSbody__

        return wrapper

    return decorator
'''

CACHE_OPS = {'add': 'OpAdd', 'set': 'OpSet', 'delete': 'OpDelete', 'get': 'OpGet', 'pop': 'OpPop'}


# ---------------------------------------------------------------------------
# small compilers


def cache_op(node, fname, recv='self._cache'):
    """`self._cache.add` -> OpAdd; any other callee is refused."""
    d = dotted(node)
    if d is None or not d.startswith(recv + '.') or d[len(recv) + 1:] not in CACHE_OPS:
        err(node, 'unsupported cache call: ' + ast.unparse(node), fname)
    return CACHE_OPS[d[len(recv) + 1:]]


def flag(node, fname):
    if isinstance(node, ast.Constant) and node.value is True:
        return 'true'
    if isinstance(node, ast.Constant) and node.value is False:
        return 'false'
    err(node, 'retry flag is not a boolean literal: ' + ast.unparse(node), fname)


class ZExpr(Expr):
    """pyast.Expr plus `int == optional-int` (owner identity compared with the stored owner)."""

    def cmp_terms(self, whole, a, ta, op, b, tb):
        if isinstance(op, ast.Eq) and (ta, tb) in (('Z', 'optZ'), ('optZ', 'Z'), ('optZ', 'optZ'), ('optZ', 'none'), ('none', 'optZ')):
            return '(optZ_eqb %s %s)' % (self.as_opt(a, ta), self.as_opt(b, tb))
        return Expr.cmp_terms(self, whole, a, ta, op, b, tb)

    @staticmethod
    def as_opt(t, ty):
        return '(Some %s)' % t if ty == 'Z' else t

    def optional(self, node):
        t, ty = self.compile(node)
        if ty in ('Z', 'optZ', 'none'):
            return self.as_opt(t, ty)
        self.fail(node, 'expected an optional integer (owner)')

    def integer(self, node):
        # the float literal 0.0 (Averager default total) is the integer 0 of the model
        if isinstance(node, ast.Constant) and isinstance(node.value, float) and node.value == int(node.value):
            return '(%d)' % int(node.value)
        t, ty = self.compile(node)
        if ty != 'Z':
            self.fail(node, 'expected an integer expression')
        return t


def pair(node, fname, what):
    if not isinstance(node, ast.Tuple) or len(node.elts) != 2:
        err(node, '%s is not a pair: %s' % (what, ast.unparse(node)), fname)
    return node.elts


class QExpr:
    """Arithmetic/comparisons over rationals (throttle).  Names come from env; int literals are
    injected; float(x) is the identity (the model is exact)."""

    def __init__(self, env, fname):
        self.env = env
        self.fname = fname

    def fail(self, node, msg):
        err(node, msg + ': ' + ast.unparse(node), self.fname)

    def num(self, node):
        if isinstance(node, ast.Constant) and isinstance(node.value, int) and not isinstance(node.value, bool):
            return '(inject_Z (%d))' % node.value
        if isinstance(node, ast.Name):
            if node.id in self.env:
                return self.env[node.id]
            self.fail(node, 'unknown name in throttle arithmetic')
        if isinstance(node, ast.Call) and dotted(node.func) == 'float' and len(node.args) == 1 and not node.keywords:
            return self.num(node.args[0])
        if isinstance(node, ast.BinOp):
            ops = {ast.Add: 'Qplus', ast.Sub: 'Qminus', ast.Mult: 'Qmult', ast.Div: 'Qdiv'}
            if type(node.op) not in ops:
                self.fail(node, 'unsupported arithmetic operator')
            return '(%s %s %s)' % (ops[type(node.op)], self.num(node.left), self.num(node.right))
        if isinstance(node, ast.UnaryOp) and isinstance(node.op, ast.USub):
            return '(Qopp %s)' % self.num(node.operand)
        self.fail(node, 'unsupported arithmetic form')

    def boolean(self, node):
        if isinstance(node, ast.BoolOp):
            op = '&&' if isinstance(node.op, ast.And) else '||'
            return '(' + (' %s ' % op).join(self.boolean(v) for v in node.values) + ')'
        if isinstance(node, ast.UnaryOp) and isinstance(node.op, ast.Not):
            return '(negb %s)' % self.boolean(node.operand)
        if isinstance(node, ast.Compare) and len(node.ops) == 1:
            a, b = self.num(node.left), self.num(node.comparators[0])
            op = node.ops[0]
            if isinstance(op, ast.Gt):
                return '(Qltb %s %s)' % (b, a)
            if isinstance(op, ast.GtE):
                return '(Qle_bool %s %s)' % (b, a)
            if isinstance(op, ast.Lt):
                return '(Qltb %s %s)' % (a, b)
            if isinstance(op, ast.LtE):
                return '(Qle_bool %s %s)' % (a, b)
            if isinstance(op, ast.Eq):
                return '(Qeq_bool %s %s)' % (a, b)
            if isinstance(op, ast.NotEq):
                return '(negb (Qeq_bool %s %s))' % (a, b)
        self.fail(node, 'unsupported throttle condition')


def barrier_program(stmts, fname, inside=False):
    """Statements of barrier's wrapper -> list of BEnter/BCall/BExit.  Only `with lock:` blocks and
    (returned) calls of `func(*args, **kwargs)` are accepted."""
    out = []
    for st in stmts:
        if isinstance(st, ast.With):
            if len(st.items) != 1 or dotted(st.items[0].context_expr) != 'lock' or st.items[0].optional_vars is not None:
                err(st, 'unsupported with-item in barrier wrapper: ' + ast.unparse(st.items[0]), fname)
            out += ['BEnter'] + barrier_program(st.body, fname, True) + ['BExit']
        elif isinstance(st, (ast.Return, ast.Expr)) and isinstance(st.value, ast.Call) \
                and ast.unparse(st.value) == 'func(*args, **kwargs)':
            out.append('BCall')
            if isinstance(st, ast.Return) and st is not stmts[-1]:
                err(st, 'return before the end of a block', fname)
        else:
            err(st, 'unsupported statement in barrier wrapper: ' + ast.unparse(st)[:60], fname)
    return out


# ---------------------------------------------------------------------------


def emit(ctx):
    fname = ctx.path('recipes')
    tree = ctx.tree('recipes')
    out = [HEADER % 'recipes.py Lock, RLock, BoundedSemaphore, Averager, throttle, barrier',
           'From Coq Require Import QArith.\nFrom DC Require Import DCPrelude RecipesBase.\nLocal Open Scope Z_scope.\n\n']

    def tmpl(t, path):
        return match_template(t, find_func(tree, path, fname), fname)

    # ---- Lock
    h = tmpl(T_LOCK_ACQUIRE, 'Lock.acquire')
    out.append('(* ---- Lock: acquire spins on `%s(key, None, ...)` until it returns true ---- *)\n' % ast.unparse(h['__Hcall__']))
    out.append('Definition lock_acquire_op : cache_op := %s.\n' % cache_op(h['__Hcall__'], fname))
    out.append('Definition lock_acquire_retry : bool := %s.\n' % flag(h['__Hretry__'], fname))
    h = tmpl(T_LOCK_RELEASE, 'Lock.release')
    out.append('Definition lock_release_op : cache_op := %s.\n' % cache_op(h['__Hcall__'], fname))
    out.append('Definition lock_release_retry : bool := %s.\n' % flag(h['__Hretry__'], fname))
    tmpl(T_LOCK_LOCKED, 'Lock.locked')
    out.append('Definition lock_locked_op : cache_op := OpContains.\n\n')
    for cls in ('Lock', 'RLock', 'BoundedSemaphore'):
        tmpl(T_ENTER, cls + '.__enter__')
        tmpl(T_EXIT, cls + '.__exit__')
    out.append('(* `with lock:` is acquire() ... release() for Lock, RLock and BoundedSemaphore (templates of __enter__/__exit__). *)\n\n')

    # ---- RLock
    env = {'pid_tid': ('pid_tid', 'Z'), 'value': ('value', 'optZ'), 'count': ('count', 'Z')}
    ze = ZExpr(env, fname)
    sig = '(pid_tid : Z) (value : option Z) (count : Z)'
    out.append('(* ---- RLock: stored value is (owner, count); owner identity is the integer pid_tid ---- *)\n')
    for meth, t in (('acquire', T_RLOCK_ACQUIRE), ('release', T_RLOCK_RELEASE)):
        h = tmpl(t, 'RLock.' + meth)
        o, c = pair(h['__Hdefault__'], fname, 'default')
        out.append('Definition rlock_%s_default : option Z * Z := (%s, %s).\n' % (meth, ze.optional(o), ze.integer(c)))
        out.append('Definition rlock_%s_retry : bool := %s.\n' % (meth, flag(h['__Hretry__'], fname)))
        out.append('Definition rlock_%s_guard %s : bool := %s.\n' % (meth, sig, ze.boolean(h['__Hguard__'])))
        out.append('Definition rlock_%s_store %s : option Z * Z := (%s, %s).\n' % (
            meth, sig, ze.optional(h['__Howner__']), ze.integer(h['__Hcount__'])))
    out.append('\n')

    # ---- BoundedSemaphore
    env = {'self._value': ('self_value', 'Z'), 'value': ('value', 'Z')}
    ze = ZExpr(env, fname)
    sig = '(self_value value : Z)'
    out.append('(* ---- BoundedSemaphore: stored value is the number of remaining permits ---- *)\n')
    h = tmpl(T_SEM_ACQUIRE, 'BoundedSemaphore.acquire')
    out.append('Definition sem_acquire_default (self_value : Z) : Z := %s.\n' % ze.integer(h['__Hdefault__']))
    out.append('Definition sem_acquire_retry : bool := %s.\n' % flag(h['__Hretry__'], fname))
    out.append('Definition sem_acquire_guard %s : bool := %s.\n' % (sig, ze.boolean(h['__Hguard__'])))
    out.append('Definition sem_acquire_store %s : Z := %s.\n' % (sig, ze.integer(h['__Hstore__'])))
    h = tmpl(T_SEM_RELEASE, 'BoundedSemaphore.release')
    out.append('Definition sem_release_default (self_value : Z) : Z := %s.\n' % ze.integer(h['__Hdefault__']))
    out.append('Definition sem_release_retry : bool := %s.\n' % flag(h['__Hretry__'], fname))
    out.append('Definition sem_release_guard %s : bool := %s.\n' % (sig, ze.boolean(h['__Hguard__'])))
    out.append('Definition sem_release_store %s : Z := (value + %s).\n\n' % (sig, ze.integer(h['__Hinc__'])))

    # ---- Averager
    env = {'value': ('value', 'Z'), 'total': ('total', 'Z'), 'count': ('count', 'Z')}
    ze = ZExpr(env, fname)
    out.append('(* ---- Averager: stored value is (total, count); totals are integers in the model ---- *)\n')
    h = tmpl(T_AVG_ADD, 'Averager.add')
    a, b = pair(h['__Hdefault__'], fname, 'default')
    out.append('Definition avg_add_default : Z * Z := (%s, %s).\n' % (ze.integer(a), ze.integer(b)))
    out.append('Definition avg_add_retry : bool := %s.\n' % flag(h['__Hretry__'], fname))
    out.append('Definition avg_add_store (value total count : Z) : Z * Z := ((total + %s), (count + %s)).\n' % (
        ze.integer(h['__Hdt__']), ze.integer(h['__Hdc__'])))
    for meth, t in (('get', T_AVG_GET), ('pop', T_AVG_POP)):
        h = tmpl(t, 'Averager.' + meth)
        a, b = pair(h['__Hdefault__'], fname, 'default')
        out.append('Definition avg_%s_op : cache_op := %s.\n' % (meth, cache_op(h['__Hcall__'], fname)))
        out.append('Definition avg_%s_default : Z * Z := (%s, %s).\n' % (meth, ze.integer(a), ze.integer(b)))
        out.append('Definition avg_%s_retry : bool := %s.\n' % (meth, flag(h['__Hretry__'], fname)))
        out.append('Definition avg_%s_none (total count : Z) : bool := %s.\n' % (meth, ze.boolean(h['__Hnone__'])))
    out.append('\n')

    # ---- throttle
    h = match_template(T_THROTTLE, find_func(tree, 'throttle', fname), fname)
    out.append('(* ---- throttle: stored value is (last, tally); exact rationals ---- *)\n')
    qe = QExpr({'count': 'count', 'seconds': 'seconds'}, fname)
    out.append('Definition thr_rate (count seconds : Q) : Q := %s.\n' % qe.num(h['__Hrate__']))
    qe = QExpr({'count': 'count', 'now': 'now'}, fname)
    out.append('Definition thr_init (now count : Q) : Q * Q := (%s, %s).\n' % (qe.num(h['__Hinit_last__']), qe.num(h['__Hinit_tally__'])))
    out.append('Definition thr_init_retry : bool := %s.\n' % flag(h['__Hretry__'], fname))
    out.append('Definition thr_transact_retry : bool := %s.\n' % flag(h['__Htretry__'], fname))
    qe = QExpr({'count': 'count', 'now': 'now', 'last': 'last', 'tally': 'tally', 'rate': 'rate'}, fname)
    out.append('(* tally += ... : the value of tally after the refill *)\n')
    out.append('Definition thr_refill (count rate last tally now : Q) : Q := (Qplus tally %s).\n' % qe.num(h['__Hrefill__']))
    sig = '(count rate last tally now : Q)'
    out.append('(* below, `tally` is the refilled value *)\n')
    out.append('Definition thr_full_guard %s : bool := %s.\n' % (sig, qe.boolean(h['__Hfull__'])))
    out.append('Definition thr_full_store %s : Q * Q := (%s, %s).\n' % (sig, qe.num(h['__Hfull_last__']), qe.num(h['__Hfull_tally__'])))
    out.append('Definition thr_ok_guard %s : bool := %s.\n' % (sig, qe.boolean(h['__Hok__'])))
    out.append('Definition thr_ok_store %s : Q * Q := (%s, %s).\n' % (sig, qe.num(h['__Hok_last__']), qe.num(h['__Hok_tally__'])))
    out.append('Definition thr_delay %s : Q := %s.\n\n' % (sig, qe.num(h['__Hdelay__'])))

    # ---- barrier
    f = find_func(tree, 'barrier', fname)
    h = {}
    t = ast.parse(T_BARRIER).body[0]
    if ast.dump(t.args) != ast.dump(f.args):
        err(f, 'signature of barrier changed', fname)
    # match everything except the wrapper body, which is compiled statement by statement
    body = [s for s in f.body if not (isinstance(s, ast.Expr) and isinstance(s.value, ast.Constant))]
    tb = t.body
    if len(body) != 2 or not isinstance(body[0], ast.FunctionDef) or body[0].name != 'decorator':
        err(f, 'barrier: unexpected structure', fname)
    dec, tdec = body[0], tb[0]
    if ast.dump(dec.args) != ast.dump(tdec.args) or len(dec.body) != 4 or not isinstance(dec.body[2], ast.FunctionDef):
        err(dec, 'barrier.decorator: unexpected structure', fname)
    for i in (0, 1, 3):
        if ast.dump(dec.body[i]) != ast.dump(tdec.body[i]):
            err(dec.body[i], 'barrier.decorator: statement differs from the translator template: ' + ast.unparse(dec.body[i]), fname)
    if ast.dump(body[1]) != ast.dump(tb[1]):
        err(body[1], 'barrier: unexpected return', fname)
    wr = dec.body[2]
    if wr.name != 'wrapper' or ast.dump(wr.args) != ast.dump(tdec.body[2].args):
        err(wr, 'barrier wrapper signature changed', fname)
    prog = barrier_program(wr.body, fname)
    out.append('(* ---- barrier: the wrapper, as the sequence of lock-enter / call / lock-exit it performs ---- *)\n')
    out.append('Definition barrier_wrapper : list bstep := [%s].\n' % '; '.join(prog))
    return {'Gen_Recipes.v': ''.join(out)}
