#!/usr/bin/env python3
"""Writes MANIFEST.json from the table below (kept in one place so it is always schema-valid)."""
import json, os
HERE = os.path.dirname(os.path.dirname(os.path.abspath(__file__)))
ALL = ['C%02d' % i for i in range(1, 21)]

CHECKS = {
 'C16': dict(
   cat='proof',
   text='Theorems about the args_to_key regenerated from core.py on every run: key injectivity for every base/typed/ignore/arity (full statement refuted by a vm_compute witness = finding C16-F1; strongest true restriction proved), wrapper returns f / repeat served from cache / expire<=0 stores nothing for Cache, Django wrappers, stampede guard key distinct. Tie: fail-closed AST translator + model-vs-implementation key comparison + exhaustive pair monitor on the implementation.',
   note='Trusted: Coq kernel, translator templates for args_to_key and the four wrappers, the structural model of key identity (validated against Disk.put), abstract store standing for Cache.get/set (C03). memoize_stampede early-recompute thread is exercised only through its guard key.',
   tech='Coq proof (injectivity by list splitting, invariant over wrapper calls) + generated model + exhaustive differential enumeration',
   ref='7 (C16)'),
}

def main():
    checks = []
    for pid in ALL:
        if pid not in CHECKS:
            continue
        c = CHECKS[pid]
        checks.append({
            'property_id': pid,
            'quick_cmd': 'bin/check %s --tier quick' % pid,
            'thorough_cmd': 'bin/check %s --tier thorough' % pid,
            'evidence_file': '/verif/evidence/%s.json' % pid,
            'replay_cmd_template': 'bin/check %s --replay {path}' % pid,
            'engine': 'coq-model',
            'level_claimed': {'category': c['cat'], 'text': c['text'], 'design_ref': 'DESIGN.md section ' + c['ref']},
            'level_note': c['note'],
            'technique': c['tech'],
        })
    na = [{'property_id': p, 'reason': 'not yet built in this development (planned, see DESIGN.md section 7); no check is claimed'}
          for p in ALL if p not in CHECKS]
    m = {
        'version': 1,
        'setup_cmd': 'bin/setup',
        'hooks': {
            'guard': 'DISKCACHE_VERIF',
            'enable': 'no source hooks: instrumentation is applied from the harness by replacing module globals of diskcache.core (time, sqlite3, os, open); the guard name is reserved and unused',
            'baseline_off_cmd': 'cd /repo && /venv/bin/python -m pytest -ra -q -p no:cacheprovider --timeout=900 --continue-on-collection-errors',
            'source_commits': [],
            'add_only': True,
        },
        'engines': [{'name': 'coq-model', 'path': 'coq/', 'serves_properties': sorted(CHECKS),
                     'kind_free_text': 'Coq 8.16 development: generated (coq/gen, from /repo by tools/translate.py) + hand-written model, proofs, property theorems; correspondence via coqc vm_compute driven by harness/'}],
        'checks': checks,
        'notes': 'Technique family: machine-checked proof in Coq. See DESIGN.md; known findings in known_findings.txt.',
        'not_applicable': na,
    }
    with open(os.path.join(HERE, 'MANIFEST.json'), 'w') as f:
        json.dump(m, f, indent=1)
        f.write('\n')

if __name__ == '__main__':
    main()
