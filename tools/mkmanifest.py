#!/usr/bin/env python3
"""Writes MANIFEST.json from the table below (kept in one place so it is always schema-valid)."""
import json, os
HERE = os.path.dirname(os.path.dirname(os.path.abspath(__file__)))
ALL = ['C%02d' % i for i in range(1, 21)]

CHECKS = {
 'C01': dict(
   cat='proof',
   text='Round-trip theorem over the Disk.store/fetch decision trees regenerated from core.py on every run: for every value (any int, float class, code-point list, byte list, other object, stream), every min_file_size and every codec with load(dumps v)=v, whatever store accepts a lookup returns unchanged and the recorded size is the file size; store rejects exactly unencodable text; JSONDisk round trip (stream + plain get refuted = finding C01-F3). Tie: AST translator (type tests, thresholds, modes, open() mode/encoding/newline) + model-vs-implementation comparison of row, file bytes and lookup result + monitor through every accessor.',
   note='Trusted: Coq kernel; hand-written models of CPython sqlite3 binding and POSIX text-mode newline handling (validated each run); pickle/json/zlib/UTF-8 round trip as explicit premises; accessor plumbing (get/pop/pull/peek/peekitem/Deque/Index return fetch of what store produced) is exercised by the monitor, proved only at the codec level here (C03 for the table level). Deque over a JSONDisk cache is excluded (queue keys bypass Disk.put; not constructible through the public Deque constructor).',
   tech='Coq proof (case analysis over generated decision trees, codec premises) + generated model + differential testing',
   ref='7 (C01)'),
 'C02': dict(
   cat='proof',
   text='Theorems over the regenerated Disk.put/get: for every pair of keys in the domain, the UNIQUE(key, raw) index identifies them iff they are equal under the documented rule (exact int/float comparison, str/bytes by content, everything else by serialised form, native never equal to serialised); get(put k) = k; the domain excludes only unencodable text and streams: float NaN is one key, distinct from every other key (Disk.put pickles it since the repair of the former finding C02-F2), and put never yields a NULL or REAL-NaN database key for any key and codec; key-ordered iteration lists every (key, raw) pair exactly once in strict key order for every table without NULL keys, hence for every state satisfying the invariant and every state reachable from the empty cache (no hypothesis on the keys); JSONDisk identity = JSON text (1 vs 1.0 refuted = finding C02-F1). Tie: translator + model-vs-database comparison on enumerated pairs + pair monitor (len, membership, get, iteration).',
   note='Trusted: Coq kernel; hand-written SQLite comparison model (storage classes, exact int/real order, memcmp) validated on every pair; injectivity of optimised pickle as a premise. Table-level clauses (no shadowing through set/get, iteration order) are checked by the monitor here and proved in C03. The model has one NaN: float("nan"); a NaN with another sign bit or payload pickles differently under protocols >= 1 and is then another key (outside alphabet and model). The witness of the former finding C02-F2 is a regression input of the monitor.',
   tech='Coq proof (case analysis over key classes) + generated model + exhaustive pair enumeration',
   ref='7 (C02)'),
 'C04': dict(
   cat='proof',
   text='Theorems over the row-level model whose SQL statements and expiry guards are regenerated from core.py on every run: every lookup (get, contains, pop, delete, touch, add-refusal, incr, pull, peek, peekitem) serves only rows with now < expire_time, a live row is found by every lookup, items without ttl never expire, the lazy cull and expire() select only passed rows and the lazy cull at most cull_limit; for every state, key and clock value. expire() on negative absolute expiry times refuted (finding C04-F1). Tie: SQL/guard translator + bridge lemmas (a flipped comparison breaks them) + row-level correspondence after every call + ledger monitor on the implementation (visibility decided from the previously observed table).',
   note='Trusted: Coq kernel; relational model of the SQL subset (SqlBase.v) and the SQL-to-combinator compiler; hand-written control skeleton of Cache.v tied by correspondence. "expire() removes every passed item for any population" is decided by the monitor (populations up to 350 sharing one time) and by correspondence, not yet by a theorem over the paging loop. Float rounding of now+expire off the 2^-10 grid is outside the model.',
   tech='Coq proof (bridge lemmas + case analysis/induction over the generated lookups and retry loops) + generated model + differential testing with a visibility ledger',
   ref='7 (C04)'),
 'C08': dict(
   cat='proof',
   text='Invariant by induction over arbitrary histories of the full API (any clock, any volume oracle): Settings.count = number of rows and Settings.size = SUM(size), via a generic closure theorem (any predicate preserved by insert/update/delete with the generated trigger arithmetic is preserved by every API call); and the file clause: under the state invariant Sinv, proved for every history from the empty cache, the value files are exactly the files the rows refer to, each of the recorded size, rows without a file have size 0, reported size = total size of the value files. Cache.check() silence and the behaviour under single injected SQL/file faults and unencodable values are decided by the monitor after every call, and by the row/file correspondence.',
   note='Trusted: Coq kernel; trigger model; fault injection raises before the statement executes (COMMIT/ROLLBACK/unlink are not injection points). Faulted histories (rollback after a failed statement, partial file removal) are decided by the monitor, not by a theorem; concurrent clause is C05/C07 (machine invariant instantiated with the real bodies). incr storing a non-native value inside its transaction is outside the rollback cleanup (rare: only big ints with a tiny disk_min_file_size).',
   tech='Coq proof (generic invariant-closure theorem over the operation skeletons + trigger bridge lemmas) + fault-injection monitor',
   ref='7 (C08)'),
 'C16': dict(
   cat='proof',
   text='Theorems about the args_to_key regenerated from core.py on every run: key injectivity for every base/typed/ignore/arity (full statement refuted by a vm_compute witness = finding C16-F1; strongest true restriction proved), wrapper returns f / repeat served from cache / expire<=0 stores nothing for Cache, Django wrappers, stampede guard key distinct. Tie: fail-closed AST translator + model-vs-implementation key comparison + exhaustive pair monitor on the implementation.',
   note='Trusted: Coq kernel, translator templates for args_to_key and the four wrappers, the structural model of key identity (validated against Disk.put), abstract store standing for Cache.get/set (C03). memoize_stampede early-recompute thread is exercised only through its guard key.',
   tech='Coq proof (injectivity by list splitting, invariant over wrapper calls) + generated model + exhaustive differential enumeration',
   ref='7 (C16)'),
 'C19': dict(
   cat='proof',
   text='Theorems about a DjangoCache model built from the delegation table and get_backend_timeout regenerated from djangocache.py on every run: make_key injective in (version,key) for every prefix and key; timeout mapping DEFAULT/None/0/negative/positive; refinement of the Django contract dictionary by every call sequence of the 16 API methods under a non-decreasing clock (the clock hypothesis is proved necessary); culling of expired rows proved unobservable. Tie: fail-closed AST translator + per-call model-vs-implementation correspondence + three-way monitor (DjangoCache, Django LocMemCache, plain-Python contract) under one virtual clock hitting expiry instants exactly and one tick either side.',
   note='Trusted: Coq kernel; translator templates for the DjangoCache methods and the get_backend_timeout chain; hand-written dictionary semantics of the FanoutCache methods (bk_* in model/Django.v) and the BaseCache-inherited methods, validated per call; stdlib DecimalZ for the decimal printer. Assumptions: single client (no Timeout; retry defaults belong to C14), clock never runs backwards, size_limit never reached, integer values and versions. Shard routing is C13.',
   tech='Coq proof (injectivity by list splitting, refinement via a frame lemma over injective key making, induction over histories) + generated model + differential three-way monitor',
   ref='7 (C19)'),
 'C11': dict(
   cat='proof',
   text='Refinement theorems (every op, every index i:Z, every rotate n:Z, histories of any length) of a Deque model that calls definitions regenerated from persistent.py on every run, against a list specification of collections.deque; length<=maxlen, persistence of contents and maxlen through reopen/copy/pickle, never-loses (multiset), and exactly-once FIFO delivery over all interleavings of atomic calls. Tie: fail-closed AST translator (66 bridge lemmas) + three-way differential run (Deque vs collections.deque vs Coq model and spec, results/contents/queue keys after every call) + COMMIT-linearised replay of scheduled producer/consumer runs through the model.',
   note='Trusted: Coq kernel; abstract queue cache (the C10/C03 interface, checked incl. keys by correspondence), translator templates, value encoding; atomicity of one Deque call assumed (C05/C06); Sequence mixins (index, in) monitored but not modelled; d.maxlen=None excluded (setter raises TypeError after storing None: outside collections.deque vocabulary).',
   tech='Coq refinement proof by induction/case analysis + generated model + differential testing + deterministic scheduler',
   ref='7 (C11)'),
 'C12': dict(
   cat='proof',
   text='Index model (calls generated definitions) proved equal to an OrderedDict specification for every mapping op on caches with distinct keys; persistence; never-loses; concurrent clause on a micro-step machine: full statement refuted by a vm_compute witness (= finding C12-F1, replayed deterministically on the implementation), strongest true restriction proved for all schedules and any number of writers (a lookup fails only if a writer removed the file between the SELECT and the open; never for inline values); setdefault (a lookup / add loop inside one transaction, read off by the translator) commits atomically on the concurrent machine with the real transaction bodies for every schedule and every program of the other clients, and the three-separate-calls form it had before the repair 9759b46 is refuted by a vm_compute witness. Tie: translator + three-way differential run + machine-vs-implementation outcome comparison on random schedules + witness replay.',
   note='Trusted: Coq kernel; keys restricted to those where cache key identity equals Python == (no bool next to 0/1, no tuples differing only in numeric typing); atomicity of single Index calls from C05/C06; the concurrent machine covers one key, one lookup, replacing writers.',
   tech='Coq refinement proof + micro-step invariant over all schedules + generated model + differential testing + deterministic scheduler',
   ref='7 (C12)'),
 'C13': dict(
   cat='proof',
   text='Theorems over the FanoutCache table regenerated from fanout.py: for every key identity, shard count n>=1 and operation sequence whose routing respects key identity, every key-addressed call returns what one dictionary returns, the shards always hold exactly that dictionary (split/merge), len/volume/stats are sums, clear/expire/evict/cull/check/iteration visit each shard exactly once, transact locks shards in order; routing is a closed function of Disk.put; key_eq => same shard refuted (1/1.0, 0/0.0/-0.0 = C13-F1) with the strongest restriction proved; per-shard limit = total/shards over Q. Tie: translator + model hash/shard/dir/limit/adler32 and whole-history runs compared with the implementation + monitors (reference dictionary, single Cache, shard directories, 4 fresh interpreters with different hash seeds, recorded routing fixture).',
   note='Trusted: Coq kernel; dictionary-with-expiry standing for one Cache (C03); utf8/pack(!d)/pickle as data; timeouts inside _remove injected at the shard-method boundary (real lock timeouts: C14). Comparison with one cache runs with cull_limit 0. C13-F2 (hash-seed-dependent pickles) is outside the codec premise.',
   tech='Coq proof (simulation by split = per-shard filter, induction over histories; finite case analysis over the generated table) + generated model + differential histories + cross-process routing fixture',
   ref='7 (C13)'),
 'C15': dict(
   cat='proof',
   text='Coq proof over an atomic-layer state machine for any number of clients, any programs, any schedule: Lock/RLock mutual exclusion, RLock depth/owner/refusal, BoundedSemaphore permit conservation and bound, refusal at full value, step-level progress, barrier runs the function under the lock. Guards, stored values and cache-method names regenerated from recipes.py each run. Partial: no liveness under contention; Lock and Semaphore theorems assume contenders release only what they hold (proved necessary); atomicity of cache ops and transact blocks assumed (C05/C06); processes exercised free-running in the thorough tier only.',
   note='Trusted: Coq kernel; templates in emit_recipes.py; the atomic-step mapping in c15.py (commit of the key shard as linearization point); the scheduler.',
   tech='Coq inductive invariants over all schedules + generated definitions + schedule-driven differential testing with an independent witness monitor',
   ref='7 (C15)'),
 'C20': dict(
   cat='proof',
   text='Averager ledger invariant for all interleavings of adds/gets/pops (stored total/count = sum/number of completed adds since the last pop); throttle token-bucket rate bound over Q for all arrival patterns and any number of callers (starts in any window [t,t+W] <= count + count/seconds*W), bucket invariant, lone-caller progress. Partial: no liveness under contention (starvation observed and not claimed); binary64 rounding not modelled (harness uses exact values, every tally compared exactly); monotone clock, count >= 1.',
   note='Trusted: Coq kernel (QArith/lra, closed under the global context); templates in emit_recipes.py; atomicity of transact blocks (C06); start timestamps taken at admission (no scheduling delay between admission and start).',
   tech='Coq inductive invariants + potential-function argument over Q + generated definitions + schedule-driven differential testing',
   ref='7 (C20)'),
 'C03': dict(
   cat='proof',
   text='Row-level theorems for every reachable state, configuration, clock value and volume oracle: rowids strictly ascending for every history (insertion order = iteration order, replacing keeps the position), count = number of rows, and the removal clause: the lazy cull removes only passed rows or, under an evicting policy, rows once volume >= size_limit; set removes no other key except through that cull; get/contains/touch remove nothing; delete/pop remove exactly the one live item their key addresses. The whole-state dictionary laws are proved for every state satisfying the invariant Sinv (rowids ascending and positive, keys unique, file references unique/resolving/of the recorded size, no orphan file, counters), which is proved for every history from the empty cache: get-after-set (value, expiry, tag; or removed by the own cull of that write), no shadowing between distinct keys (set/delete/pop/touch/incr), absent after delete/pop, add = set on an absent or dead key, incr after set, iteration = insertion order for every table size with len = number of rows, set keeps the position of an existing key and appends a new one. Lookup clauses are C04, value/key clauses C01/C02. Tie: SQL/guard translator with bridge lemmas + three-way differential run (implementation, plain-Python reference dictionary, Coq row model) with the table compared after every call, exhaustive short sequences and histories crossing the 100-row page size.',
   note='Trusted: Coq kernel; relational SQL model; control skeleton of Cache.v pinned by translator templates and validated after every call. The exact (non-disjunctive) forms of get-after-set/no-shadowing assume cull_limit = 0 (the lazy cull really can remove an expired or evicted item of another key; the general forms carry that disjunct). Sinv for histories containing push assumes the pushed key is fresh (queue key theory: C10). iterkeys lists the table in ORDER BY key, raw for every state satisfying Sinv and every reachable state: "no NULL key" is a clause of Sinv since the repair of the former finding C03-F1 (Disk.put no longer binds a float NaN key as NULL); the table-level statement keeps the clause as a hypothesis and a table with NULL keys refutes the statement without it; the witness history of C03-F1 is a directed three-way history. incr on float values is outside the model (kept out of generated histories).',
   tech='Coq proof (generic invariant closure over operation skeletons, bridge lemmas, rowid uniqueness) + generated model + three-way differential testing',
   ref='7 (C03)'),
 'C09': dict(
   cat='proof',
   text='Theorems over model/Cache.v for all well-formed states (rowids distinct, proved invariant), configurations, clock values and volume-oracle values: _cull removes an unexpired row only with volume >= size_limit, a policy other than none and cull_limit <> 0; at most cull_limit rows, none when zero; as a prefix in policy-key order (tie-insensitive), expired rows first in expire_time order; lifted to set/add/incr/push; policy-key maintenance of set/add/incr/get; cull() = expire() (complete for 0 <= expire_time < now, any population) followed by pages of 10 in policy order until volume <= size_limit or empty, returning the number removed, always terminating; policy none and get never evict; each shard gets size_limit/shards. Tie: translator of _cull, EVICTION_POLICY, cull, get/incr updates, triggers, fanout __init__ + row-level comparison after every call + independent ledger monitor.',
   note='Trusted: Coq kernel; hand-written SQLite model (stable ORDER BY, LIMIT prefix, DELETE by rowid) and the control skeleton of Cache.v, validated every run; the page part of volume() is an oracle over which every theorem quantifies. Order statement is tie-insensitive (<=). C09_bound stated for cull_limit >= 0. Fanout limit is the exact rational, binary64 rounding checked per shard by the monitor.',
   tech='Coq proof (sorted-prefix lemmas over stable insertion sort; inductive invariants over step, select_delete and cull_loop) + generated model + differential row-level testing + history-ledger monitor',
   ref='7 (C09)'),
 'C17': dict(
   cat='proof',
   text='Theorems over an executable model of Cache.check/FanoutCache.check whose guards, repairs, pass order and walk directions are regenerated from the source: for every damaged state (any rows/files/dirs/counters, unique rowids) plain check changes nothing and reports exactly the declaratively defined inconsistencies; check(fix=True) reports the same by (kind, name) plus only directories it emptied itself, leaves every row readable, preserves undamaged rows and owned files, fixes the counters, and a second check reports nothing.',
   note='Trusted: Coq kernel; hand-written os.walk/removedirs/trigger semantics (compared with the implementation on every case: sorted warnings with numbers + resulting rows, counters, tree, for plain / fix / second run); integrity_check and VACUUM, Timeout, trees deeper than xx/yy and symlinks are outside the model; truncated pickle or UTF-8 value files stay undecodable after the repair (check compares sizes only). Debris of killed processes (C07) is exercised in C07, not here.',
   tech='Coq proof (list induction, no bounds) + AST translator + differential testing + oracle monitor over all subsets of damage kinds',
   ref='7 (C17)'),
 'C18': dict(
   cat='proof',
   text='Format-frozen theorem (generated on-disk format data: schema DDL, settings, file layout, queue-key constants, shard directory format, plus the Disk put/store/fetch/hash decision trees = hand-frozen copy of release 5.6.3), settings-merge theorems for all dictionaries (given > stored > defaults, idempotent reopen), the same for every shard of a FanoutCache and every setting incl. size_limit (existing shard opened without size_limit keeps the stored limit, new shard gets default/shards, given limit divided and stored; the former finding C18-F1, repaired in 3d346b2, is kept as a refutation of the RELEASED size_limit rule, and the format-frozen theorem states that one recorded difference explicitly), handle state round trip. Partial: cross-handle/thread/fork/process visibility and "every operation depends only on directory state" are exercised (reference-dictionary monitor over histories with close/reopen/pickle/copy/thread/fork/new-process events for Cache, FanoutCache, Deque, Index, DjangoCache; golden directory written by the pinned version read back) not proved.',
   note='Trusted: Coq kernel; translator; the frozen decision trees include the two recorded value-path fixes (NaN -> pickle, newline=""), which do not change how existing files are read on POSIX; the key path differs from the frozen copy at exactly one key, stated in the theorem (a float NaN key is pickled, the released put bound it as NULL; every other key gets the released database key: C18_put_compatible), so rows the released code stored under NaN stay unreachable by key as they were; process/fork/thread behaviour of SQLite and CPython.',
   tech='Coq (reflexivity/vm_compute + list lemmas) + AST translator + golden fixture + differential testing of the settings merge',
   ref='7 (C18)'),
 'C10': dict(
   cat='proof',
   text='Theorems over the push/pull/peek selects, guards and key constants regenerated from core.py. Integer queue and every string prefix: the range-restricted, key-ordered view evolves as a double-ended queue; order of 15-digit zero-padded keys proved = numeric order; peek = next pull; invariant inductive over all push/pull/peek histories; isolation for prefixes not extending one another by a dash and a digit, and frame for every row outside the range; full isolation refuted by a vm_compute witness = findings C10-F1/F2; validity range 0 < n < 999999999999999; exactly-once and per-producer order for all schedules of an atomic queue machine; push/pull/peek with their REAL bodies are calls of the micro-step machine (TxnQueue): invariant for every schedule with kills, the commit of a delivering pull removes exactly the delivered committed row under the lock; that instance is driven by the schedules the implementation ran under (queuecorr, sched_check). Tie: SQL/guard translator + bridge lemmas + row-level model-vs-implementation comparison after every call + ledger monitor + scheduler/process runs.',
   note='Trusted: Coq kernel; SqlBase/Val model of WHERE/ORDER BY/LIMIT; hand-written skeleton of push/pull/peek/_cull in Cache.v (validated per call). The model has no UNIQUE constraint (C10-F2 is monitor-only). Concurrent clause proved at the atomic layer; atomicity of single calls is C05. Push under a quiet _cull; returned-key identity stated via the inserted row.',
   tech='Coq proof (stable-sort/filter commutation, invariant induction, lexicographic-digit arithmetic, schedule induction) + generated model + differential histories + deterministic-scheduler enumeration',
   ref='7 (C10)'),
 'C05': dict(
   cat='proof',
   text='Invariant of a micro-step machine (file create/close, BEGIN, body, COMMIT/ROLLBACK, removals, post-commit fetch, lock-free SELECT/open, kill) proved by induction for any number of clients, any programs with well-behaved bodies and any schedule: every committed row refers to a completely written file, a lookup never opens a partial file (it finds the complete file or none: the one tolerated miss), a COMMIT installs exactly its body applied to the current committed state (writers are serial), one client inside a transaction at a time. The body hypotheses are discharged for the real set/add/delete/pop/touch/incr/get/contains bodies of the row model, whose solo run is proved equal to the sequential model that is compared with the implementation after every call. Partial: that SQLite serialises BEGIN IMMEDIATE..COMMIT, that readers see the last committed state and that threads/processes behave as separate connections is not proved; it is exercised: deterministic scheduler over 2-4 clients in own-object, shared-object and forked-process modes, Wing-Gong linearizability monitor against a reference dictionary, event sequences of every call checked against the stage automaton that simulates the machine, lock discipline checked on every merged log; the machine with the real bodies is driven by the very schedule the implementation ran under (ConcRun.sched_check, soundness proved): every BEGIN free/busy, every file step, every outcome and the final rows, counters and files must agree; the Python reference dictionary is itself compared with the machine run with one client. Iteration is not atomic (finding C05-F1).',
   note='Trusted: Coq kernel; SQLite locking/WAL, CPython thread-local connections, OS processes; the Python reference dictionary of the monitor; the stage automaton accepts a superset of the machine traces (simulation proved one way). The schedule correspondence covers set/add/delete/pop/touch/incr/decr/get/contains (and push/pull/peek under C10) without tags; other calls are decided by the linearizability monitor only.',
   tech='Coq inductive invariant over micro-steps of any number of clients (all schedules, kills) + body lemmas for the generated transaction bodies + model run under the implementation schedule (correspondence with proved soundness) + deterministic-scheduler differential testing with a linearizability monitor and trace automaton',
   ref='7 (C05)'),
 'C06': dict(
   cat='proof',
   text='On the same machine, a transact block is one writing call whose body is the composition of its inner calls and whose inner file removals happen while the transaction is open (as the code does): COMMIT is atomic and installs the body on the current state, nobody else can change the committed state while the block holds the lock, ROLLBACK leaves the committed state exactly as it was, other clients spin or time out at BEGIN and never enter the transaction, a call joins an open transaction iff it belongs to the calling thread (generated guard). "Every file of every row still resolves after an abort" holds for well-behaved bodies (nothing removed before the commit decision) and fails for bodies that remove files early (vm_compute witness). With the REAL bodies (TxnBlock): a block is a well-behaved body for inline and file-backed values (removals are deferred to the outermost COMMIT: generated flag), hence machine invariant, atomic commit and exact restoration on abort for every schedule of programs with blocks; the defect repaired in 5793ab1 (inner calls removed files before the outermost COMMIT: former findings C06-F1..F4) is replayed on the OLD body by vm_compute next to the repaired body; single-client programs with nested/aborted/partly caught blocks run by the implementation are followed by the block model (block_check, soundness proved). FanoutCache.transact commits shard by shard (finding C06-F6). Partial as C05; Cache/Deque/Index/FanoutCache.transact exercised under the scheduler with raise points after every inner call, nesting up to 3, concurrent reader and writer.',
   note='Trusted: as C05. FanoutCache.transact ordering (shards taken in index order) is generated and monitored, its deadlock-freedom is not proved. Nested stores happen inside the open transaction in the code and before BEGIN in the machine (file creation does not interact with the lock).',
   tech='Coq machine invariant + block model over the real bodies (invariant for inline values, vm_compute counterexamples for file-backed ones) + block correspondence with the implementation + generated nesting guard + scheduler-driven monitors (abort snapshot equality, block atomicity, nesting placement, thread ownership)',
   ref='7 (C06)'),
 'C07': dict(
   cat='proof',
   text='Kill is a step of the machine available in every configuration: the invariant (referenced files complete, ownership of unreferenced files, lock consistency) is closed under kills at arbitrary steps for any number of clients; a kill changes neither the committed state nor the files and releases the victim lock; the database only ever changes by a COMMIT that installs a whole body (interrupted call applied entirely or not at all); a free lock is granted at once. Instantiated with the real bodies; at every kill point of the single-call workloads the machine is crashed where the implementation was killed and must hold exactly the rows, counters and files (partial and unreferenced ones included) found in the directory (crash_check, soundness proved). Partial: SQLite WAL recovery and lock release on process death are trusted; a kill inside a SQLite call is only sampled. Exercised: every mutating method x value transitions x inside/outside a block, Deque and Index operations, killed before every traced event (os._exit in a forked child), also inside the opening of a fresh or populated directory, then reopened: contents = completed calls plus possibly the interrupted one, every present key readable, check() reports only unknown files/empty directories, a write succeeds at once, check(fix=True) then check() clean.',
   note='Trusted: os._exit at an event boundary stands for a kill at that instant; SQLite recovery. A kill inside a block that had released a value file used to leave a row without its file (former finding C07-F1, repaired in 5793ab1 with C06-F1; replayed on the old body by C07_kill_in_block_old_body).',
   tech='Coq inductive invariant with kill steps + crash correspondence (machine crashed at the implementation kill point) + exhaustive kill-point enumeration on the implementation',
   ref='7 (C07)'),
 'C14': dict(
   cat='proof',
   text='On the machine: a call that finds the lock busy and does not retry removes the value file it had written, reports Timeout and leaves database, lock and every other file as they were; with retry it changes nothing while the lock is busy and gets the lock the first time it is free; lock-free lookups are enabled in every configuration and answer from the committed state. Finite case analysis over the delegation table regenerated from fanout.py: every FanoutCache (hence DjangoCache) data operation returns its documented default on Timeout and never raises it; bulk removals resume after a Timeout and add every partial count. Exercised exhaustively: 107 public operations of Cache, FanoutCache, DjangoCache, Deque, Index x inline/file-backed x lock held before the call / taken between the value-file write and BEGIN / released after k failed attempts x retry x settings that turn reads into writes, comparing table, Settings and directory listing before and after.',
   note='Trusted: as C05. FanoutCache bulk removals wait for the lock even with retry=False (they never raise Timeout; tolerated and counted). FanoutCache.get(expire_time=True, tag=True) returns the bare default on a timeout (allowed by the property text, counted).',
   tech='Coq machine lemmas + finite case analysis over generated tables + exhaustive fault enumeration on the implementation',
   ref='7 (C14)'),
}

def main():
    checks = []
    for pid in ALL:
        if pid not in CHECKS:
            continue
        c = CHECKS[pid]
        checks.append({
            'property_id': pid,
            'quick_cmd': 'bin/check %s --tier quick' % pid,
            'thorough_cmd': 'bin/check %s --tier thorough' % pid,
            'evidence_file': '/verif/evidence/%s.json' % pid,
            'replay_cmd_template': 'bin/check %s --replay {path}' % pid,
            'engine': 'coq-model',
            'level_claimed': {'category': c['cat'], 'text': c['text'], 'design_ref': 'DESIGN.md section ' + c['ref']},
            'level_note': c['note'],
            'technique': c['tech'],
        })
    na = [{'property_id': p, 'reason': 'not yet built in this development (planned, see DESIGN.md section 7); no check is claimed'}
          for p in ALL if p not in CHECKS]
    m = {
        'version': 1,
        'setup_cmd': 'bin/setup',
        'hooks': {
            'guard': 'DISKCACHE_VERIF',
            'enable': 'no source hooks: instrumentation is applied from the harness by replacing module globals of diskcache.core (time, sqlite3, os, open); the guard name is reserved and unused',
            'baseline_off_cmd': 'cd /repo && /venv/bin/python -m pytest -ra -q -p no:cacheprovider --timeout=900 --continue-on-collection-errors',
            'source_commits': [],
            'add_only': True,
        },
        'engines': [{'name': 'coq-model', 'path': 'coq/', 'serves_properties': sorted(CHECKS),
                     'kind_free_text': 'Coq 8.16 development: generated (coq/gen, from /repo by tools/translate.py) + hand-written model, proofs, property theorems; correspondence via coqc vm_compute driven by harness/'}],
        'checks': checks,
        'notes': 'Technique family: machine-checked proof in Coq. See DESIGN.md; known findings in known_findings.txt.',
        'not_applicable': na,
    }
    with open(os.path.join(HERE, 'MANIFEST.json'), 'w') as f:
        json.dump(m, f, indent=1)
        f.write('\n')

if __name__ == '__main__':
    main()
