"""Gen_Fanout.v: FanoutCache (fanout.py) -- shard index expressions, delegation table, __init__ arithmetic and
shard directory format, aggregate folds (C13; the except clauses are also what C14_fanout_total reads).

Fail-closed.  Every method that touches the shards must have exactly the signature recorded in SIGS (only the
default of `retry` is free: it is read off the AST and emitted) and its body must match one of the source
templates below (pyast.match_template, __Hname__ expression holes).  What the holes capture is compiled by small
whitelisting compilers and becomes a generated term, so an edit changes Gen_Fanout.v (and then breaks a bridge
lemma in proofs/FanoutFacts.v or FanoutTimeoutFacts.v) instead of passing unnoticed:

  key-addressed methods      index = <E>; shard = self._shards[index]; <tail>
        <E>      integer expression over self._hash(key), self._count, literals, % // + - *, `a or b`
                 -> Definition idx_<m> (h count : Z) : Z
        <tail>   try: return shard.<m>(...) except <Exc>|(<Exc>, ...): return <False|True|None|0|default>
                 | return shard.<m>(...) | shard[key] = value | return shard[key] | return key in shard | del shard[key]
                 -> fdeleg record; positional arguments are resolved against the callee's signature in core.py
  operator forms of Cache    the retry constant of Cache.__setitem__/__getitem__, the retry default of
                             Cache.__delitem__, Cache.__contains__ (lock-free: no _transact)
  __init__                   size_limit = <Q>, with <Q> over settings.pop('size_limit', default_size_limit), shards,
                             literals, / (true division -> rational), // * + -;  '%0<w>d' % num;  self._hash;
                             `if <P>: limit['size_limit'] = size_limit` with <P> over given, op.exists(op.join(path, DBNAME)),
                             not / and / or -> Definition shard_limit_passed (given shard_exists : bool) : bool
  aggregates                 __len__, volume, stats, check, _remove, expire/evict/cull/clear, __iter__,
                             __reversed__, transact, create_tag_index, drop_tag_index, close, reset
"""
import ast
import copy
import re

from pyast import TranslateError, dotted, err, find_func, match_template, strip_doc
from translate import HEADER

SIGS = {
    'set': 'def set(self, key, value, expire=None, read=False, tag=None, retry=False): pass',
    '__setitem__': 'def __setitem__(self, key, value): pass',
    'touch': 'def touch(self, key, expire=None, retry=False): pass',
    'add': 'def add(self, key, value, expire=None, read=False, tag=None, retry=False): pass',
    'incr': 'def incr(self, key, delta=1, default=0, retry=False): pass',
    'decr': 'def decr(self, key, delta=1, default=0, retry=False): pass',
    'get': 'def get(self, key, default=None, read=False, expire_time=False, tag=False, retry=False): pass',
    '__getitem__': 'def __getitem__(self, key): pass',
    '__contains__': 'def __contains__(self, key): pass',
    'pop': 'def pop(self, key, default=None, expire_time=False, tag=False, retry=False): pass',
    'delete': 'def delete(self, key, retry=False): pass',
    '__delitem__': 'def __delitem__(self, key): pass',
    'expire': 'def expire(self, retry=False): pass',
    'evict': 'def evict(self, tag, retry=False): pass',
    'cull': 'def cull(self, retry=False): pass',
    'clear': 'def clear(self, retry=False): pass',
}
KEYED = ['set', '__setitem__', 'touch', 'add', 'incr', 'decr', 'get', '__getitem__', '__contains__', 'pop',
         'delete', '__delitem__']
FMETH = {'set': 'MSet', '__setitem__': 'MSetItem', 'touch': 'MTouch', 'add': 'MAdd', 'incr': 'MIncr', 'decr': 'MDecr',
         'get': 'MGet', '__getitem__': 'MGetItem', 'read': 'MRead', '__contains__': 'MContains', 'pop': 'MPop',
         'delete': 'MDelete', '__delitem__': 'MDelItem'}
COQNAME = {'__setitem__': 'setitem', '__getitem__': 'getitem', '__contains__': 'contains', '__delitem__': 'delitem'}
CMETH = {'set': 'CSet', 'touch': 'CTouch', 'add': 'CAdd', 'incr': 'CIncr', 'decr': 'CDecr', 'get': 'CGet', 'pop': 'CPop',
         'delete': 'CDelete', 'check': 'CCheck', 'expire': 'CExpire', 'evict': 'CEvict', 'cull': 'CCull',
         'clear': 'CClear', 'stats': 'CStats', 'volume': 'CVolume', 'create_tag_index': 'CCreateTagIndex',
         'drop_tag_index': 'CDropTagIndex', 'close': 'CClose', 'reset': 'CReset', 'transact': 'CTransact'}
CPARAM = {'key': 'PKey', 'value': 'PValue', 'expire': 'PExpire', 'read': 'PRead', 'tag': 'PTag', 'retry': 'PRetry',
          'default': 'PDefault', 'delta': 'PDelta', 'expire_time': 'PExpireTime', 'fix': 'PFix', 'now': 'PNow',
          'enable': 'PEnable', 'reset': 'PReset'}
FARG = {'key': 'AKey', 'value': 'AValue', 'expire': 'AExpire', 'read': 'ARead', 'tag': 'ATag', 'retry': 'ARetry',
        'default': 'ADefault', 'delta': 'ADelta', 'expire_time': 'AExpireTime', 'fix': 'AFix', 'enable': 'AEnable',
        'reset': 'AReset'}
EXN = {'Timeout': 'ETimeout', 'sqlite3.OperationalError': 'EOperationalError'}

T_PREFIX = '''
index = __Hindex__
shard = self._shards[index]
'''
T_TRY = '''
try:
    return __Hcall__
except __Hexc__:
    return __Hret__
'''
T_SETITEM = 'shard[__Hk__] = __Hv__'
T_DELITEM = 'del shard[__Hk__]'
T_GETITEM = 'return shard[__Hk__]'
T_CONTAINS = 'return __Hk__ in shard'
T_RETURN = 'return __Hcall__'

T_READ = '''
def read(self, key):
    handle = self.get(key, default=ENOVAL, read=True, retry=__Hretry__)
    if handle is ENOVAL:
        raise KeyError(key)
    return handle
'''

# operator forms of Cache (core.py)
T_C_SETITEM = '''
def __setitem__(self, key, value):
    self.set(key, value, retry=__Hretry__)
'''
T_C_GETITEM = '''
def __getitem__(self, key):
    value = self.get(key, default=ENOVAL, retry=__Hretry__)
    if value is ENOVAL:
        raise KeyError(key)
    return value
'''
T_C_CONTAINS = '''
def __contains__(self, key):
    sql = self._sql
    db_key, raw = self._disk.put(key)
    select = __Hselect__
    rows = sql(select, (db_key, raw, time.time())).fetchall()
    return bool(rows)
'''
T_C_DECR = '''
def decr(self, key, delta=1, default=0, retry=False):
    return self.incr(key, -delta, default, retry)
'''
T_C_DELETE = '''
def delete(self, key, retry=False):
    try:
        return self.__delitem__(key, retry=retry)
    except KeyError:
        return False
'''
T_C_LEN = '''
def __len__(self):
    return self.reset('count')
'''

T_INIT = '''
def __init__(self, directory=None, shards=8, timeout=0.010, disk=Disk, **settings):
    if directory is None:
        directory = tempfile.mkdtemp(prefix='diskcache-')
    directory = str(directory)
    directory = op.expanduser(directory)
    directory = op.expandvars(directory)

    default_size_limit = DEFAULT_SETTINGS['size_limit']
    given = 'size_limit' in settings
    size_limit = __Hlimit__

    def shard(num):
        path = op.join(directory, __Hfmt__ % num)
        limit = {}
        if __Hpass__:
            limit['size_limit'] = size_limit
        return Cache(
            directory=path, timeout=timeout, disk=disk, **limit, **settings
        )

    self._count = shards
    self._directory = directory
    self._disk = disk
    self._shards = tuple(shard(num) for num in range(shards))
    self._hash = self._shards[0].disk.hash
    self._caches = {}
    self._deques = {}
    self._indexes = {}
'''

T_TRANSACT = '''
def transact(self, retry=True):
    assert retry, 'retry must be True in FanoutCache'
    with cl.ExitStack() as stack:
        for shard in __Hshards__:
            shard_transaction = shard.transact(retry=__Hretry__)
            stack.enter_context(shard_transaction)
        yield
'''
T_LEN = '''
def __len__(self):
    return sum(__Helt__ for shard in __Hshards__)
'''
T_VOLUME = '''
def volume(self):
    return sum(__Helt__ for shard in __Hshards__)
'''
T_STATS = '''
def stats(self, enable=True, reset=False):
    results = [__Hcall__ for shard in __Hshards__]
    total_hits = sum(__Hh__ for __Hh1__, __Hh2__ in results)
    total_misses = sum(__Hm__ for __Hm1__, __Hm2__ in results)
    return total_hits, total_misses
'''
T_CHECK = '''
def check(self, fix=False, retry=False):
    warnings = (__Hcall__ for shard in __Hshards__)
    return functools.reduce(operator.iadd, warnings, [])
'''
T_REMOVE = '''
def _remove(self, name, args=(), retry=False):
    total = 0
    for shard in __Hshards__:
        method = getattr(shard, name)
        while True:
            try:
                count = method(*args, retry=retry)
                total += count
            except Timeout as timeout:
                total += __Hpartial__
            else:
                break
    return total
'''
T_REMOVE_NOPARTIAL = '''
def _remove(self, name, args=(), retry=False):
    total = 0
    for shard in __Hshards__:
        method = getattr(shard, name)
        while True:
            try:
                count = method(*args, retry=retry)
                total += count
            except Timeout:
                pass
            else:
                break
    return total
'''
T_VIA_REMOVE_ARGS = 'return self._remove(__Hname__, args=__Hargs__, retry=retry)'
T_VIA_REMOVE = 'return self._remove(__Hname__, retry=retry)'
T_ITER = '''
def __iter__(self):
    iterators = (__Hit__ for shard in __Hshards__)
    return it.chain.from_iterable(iterators)
'''
T_REVERSED = '''
def __reversed__(self):
    iterators = (__Hit__ for shard in __Hshards__)
    return it.chain.from_iterable(iterators)
'''
T_CREATE_TI = '''
def create_tag_index(self):
    for shard in __Hshards__:
        shard.create_tag_index()
'''
T_DROP_TI = '''
def drop_tag_index(self):
    for shard in __Hshards__:
        shard.drop_tag_index()
'''
T_CLOSE = '''
def close(self):
    for shard in __Hshards__:
        shard.close()
    self._caches.clear()
    self._deques.clear()
    self._indexes.clear()
'''
T_RESET = '''
def reset(self, key, value=ENOVAL):
    for shard in __Hshards__:
        while True:
            try:
                result = shard.reset(key, value)
            except Timeout:
                pass
            else:
                break
    return result
'''


def matches(template, node, fname):
    try:
        return match_template(template, node, fname)
    except TranslateError:
        return None


def check_signature(name, node, fname):
    """Signature must equal SIGS[name] except for the default of `retry`; returns that default (or None)."""
    want = ast.parse(SIGS[name]).body[0].args
    got = copy.deepcopy(node.args)
    retry = None
    names = [a.arg for a in got.args]
    if 'retry' in names:
        i = names.index('retry') - (len(got.args) - len(got.defaults))
        if i < 0:
            err(node, '%s: parameter retry has no default' % name, fname)
        d = got.defaults[i]
        if not (isinstance(d, ast.Constant) and isinstance(d.value, bool)):
            err(node, '%s: default of retry is not a boolean literal: %s' % (name, ast.unparse(d)), fname)
        retry = d.value
        got.defaults[i] = ast.Constant(value=False)
    if ast.dump(want) != ast.dump(got):
        err(node, 'signature of %s changed: (%s), the translator knows (%s)' % (
            name, ast.unparse(node.args), ast.unparse(want)), fname)
    return retry


def bool_const(node, what, fname):
    if isinstance(node, ast.Constant) and isinstance(node.value, bool):
        return 'true' if node.value else 'false'
    err(node, '%s is not a boolean literal: %s' % (what, ast.unparse(node)), fname)


# ---------------------------------------------------------------------------
# shard index expression


def compile_index(node, fname):
    """Integer expression over self._hash(key) (h) and self._count (count)."""
    if isinstance(node, ast.Call) and dotted(node.func) == 'self._hash' and not node.keywords \
            and len(node.args) == 1 and isinstance(node.args[0], ast.Name) and node.args[0].id == 'key':
        return 'h'
    if dotted(node) == 'self._count':
        return 'count'
    if isinstance(node, ast.Constant) and isinstance(node.value, int) and not isinstance(node.value, bool):
        return '(%d)' % node.value
    if isinstance(node, ast.BinOp):
        a, b = compile_index(node.left, fname), compile_index(node.right, fname)
        # Python's % and // are floor-based with the sign of the divisor, like Z.modulo / Z.div; a zero divisor
        # raises in Python and yields 0 in Coq: the model only uses count >= 1.
        ops = {ast.Mod: '(%s mod %s)', ast.FloorDiv: '(%s / %s)', ast.Add: '(%s + %s)', ast.Sub: '(%s - %s)',
               ast.Mult: '(%s * %s)'}
        if type(node.op) in ops:
            return ops[type(node.op)] % (a, b)
        err(node, 'unsupported operator in shard index: ' + ast.unparse(node), fname)
    if isinstance(node, ast.BoolOp) and isinstance(node.op, ast.Or):
        parts = [compile_index(v, fname) for v in node.values]
        t = parts[-1]
        for p in reversed(parts[:-1]):          # `a or b` on integers: a unless it is 0
            t = '(if %s =? 0 then %s else %s)' % (p, t, p)
        return t
    err(node, 'unsupported shard index expression: ' + ast.unparse(node), fname)


# ---------------------------------------------------------------------------
# delegated calls


def callee_params(ctx, meth, node, fname):
    f = find_func(ctx.tree('core'), 'Cache.' + meth, ctx.path('core'))
    a = f.args
    if a.vararg or a.kwonlyargs or a.posonlyargs or a.kwarg:
        err(node, 'callee Cache.%s has a signature the translator does not handle' % meth, fname)
    return [x.arg for x in a.args][1:]


def compile_arg(e, params, fname):
    if isinstance(e, ast.Name) and e.id in params and e.id in FARG:
        return FARG[e.id]
    if isinstance(e, ast.Constant) and e.value is True:
        return 'ATrue'
    if isinstance(e, ast.Constant) and e.value is False:
        return 'AFalse'
    if isinstance(e, ast.Constant) and e.value is None:
        return 'APyNone'
    if isinstance(e, ast.Name) and e.id == 'ENOVAL':
        return 'AEnoval'
    if isinstance(e, ast.Call) and dotted(e.func) == 'time.time' and not e.args and not e.keywords:
        return 'ANowCall'
    err(e, 'argument is not a parameter of the method, a literal, ENOVAL or time.time(): ' + ast.unparse(e), fname)


def bind_args(ctx, meth, args, keywords, params, node, fname):
    if meth not in CMETH:
        err(node, 'Cache method unknown to the translator: ' + meth, fname)
    cparams = callee_params(ctx, meth, node, fname)
    binds = []
    if len(args) > len(cparams):
        err(node, 'more positional arguments than Cache.%s takes' % meth, fname)
    for p, e in zip(cparams, args):
        if isinstance(e, ast.Starred):
            err(e, 'starred argument', fname)
        if p not in CPARAM:
            err(e, 'callee parameter unknown to the translator: ' + p, fname)
        binds.append((CPARAM[p], compile_arg(e, params, fname)))
    for kw in keywords:
        if kw.arg is None or kw.arg not in cparams or kw.arg not in CPARAM:
            err(node, 'keyword argument %s is not a parameter of Cache.%s' % (kw.arg, meth), fname)
        if CPARAM[kw.arg] in [b[0] for b in binds]:
            err(node, 'parameter %s bound twice' % kw.arg, fname)
        binds.append((CPARAM[kw.arg], compile_arg(kw.value, params, fname)))
    return binds


def compile_call(ctx, call, params, fname, receiver='shard'):
    """shard.<meth>(...) -> (cmeth, binds)"""
    if not isinstance(call, ast.Call):
        err(call, 'expected a delegating call: ' + ast.unparse(call), fname)
    d = dotted(call.func)
    if d is None or not d.startswith(receiver + '.') or d.count('.') != 1:
        err(call, 'callee is not %s.<method>: %s' % (receiver, ast.unparse(call.func)), fname)
    meth = d.split('.')[1]
    binds = bind_args(ctx, meth, call.args, call.keywords, params, call, fname)
    return CMETH[meth], binds


def fmt_binds(binds):
    return '[' + '; '.join('(%s, %s)' % b for b in binds) + ']'


def compile_exc(node, fname):
    nodes = node.elts if isinstance(node, ast.Tuple) else [node]
    out = []
    for n in nodes:
        d = dotted(n)
        if d not in EXN:
            err(n, 'exception class unknown to the translator: ' + ast.unparse(n), fname)
        out.append(EXN[d])
    return out


def compile_ret(node, params, fname):
    if isinstance(node, ast.Constant):
        if node.value is False:
            return 'RetFalse'
        if node.value is True:
            return 'RetTrue'
        if node.value is None:
            return 'RetNone'
        if isinstance(node.value, int) and node.value == 0:
            return 'RetZero'
    if isinstance(node, ast.Name) and node.id == 'default' and 'default' in params:
        return 'RetDefault'
    err(node, 'value returned by the handler is not False/True/None/0/default: ' + ast.unparse(node), fname)


def is_name(node, name):
    return isinstance(node, ast.Name) and node.id == name


def compile_keyed(ctx, name, node, fname):
    retry = check_signature(name, node, fname)
    params = [a.arg for a in node.args.args][1:]
    body = list(strip_doc(node.body))
    if len(body) != 3:
        err(node, '%s: body has %d statements, the translator knows 3 (index, shard, delegation)' % (name, len(body)), fname)
    h = match_template(T_PREFIX, body[:2], fname)
    index = compile_index(h['__Hindex__'], fname)
    last = [body[2]]
    catch, onexc = [], 'None'
    t = matches(T_TRY, last, fname)
    if t is not None:
        callee, binds = compile_call(ctx, t['__Hcall__'], params, fname)
        catch = compile_exc(t['__Hexc__'], fname)
        onexc = '(Some %s)' % compile_ret(t['__Hret__'], params, fname)
    else:
        callee = None
        for tmpl, cm, nargs in ((T_SETITEM, 'CSetItem', 2), (T_DELITEM, 'CDelItem', 1), (T_GETITEM, 'CGetItem', 1),
                                (T_CONTAINS, 'CContains', 1)):
            t = matches(tmpl, last, fname)
            if t is not None:
                if not is_name(t['__Hk__'], 'key') or (nargs == 2 and not is_name(t['__Hv__'], 'value')):
                    err(body[2], '%s: operator form does not pass key/value unchanged: %s' % (name, ast.unparse(body[2])), fname)
                callee = cm
                binds = [('PKey', 'AKey')] + ([('PValue', 'AValue')] if nargs == 2 else [])
                break
        if callee is None:
            t = matches(T_RETURN, last, fname)
            if t is None:
                err(body[2], '%s: final statement matches no template of a delegating method: %s' % (
                    name, ast.unparse(body[2])[:80]), fname)
            callee, binds = compile_call(ctx, t['__Hcall__'], params, fname)
    if 'PKey' not in [b[0] for b in binds] or dict(binds)['PKey'] != 'AKey':
        err(body[2], '%s: the key is not handed on unchanged' % name, fname)
    return {'index': index, 'callee': callee, 'bind': fmt_binds(binds),
            'retry': 'None' if retry is None else '(Some %s)' % ('true' if retry else 'false'),
            'catch': '[' + '; '.join(catch) + ']', 'onexc': onexc}


# ---------------------------------------------------------------------------
# __init__


def compile_limit(node, fname):
    """-> (term, 'Z' | 'Q') over size_limit (the given or default total) and shards."""
    if isinstance(node, ast.Call) and dotted(node.func) == 'settings.pop' and not node.keywords and len(node.args) == 2 \
            and isinstance(node.args[0], ast.Constant) and node.args[0].value == 'size_limit' \
            and is_name(node.args[1], 'default_size_limit'):
        return 'size_limit', 'Z'
    if is_name(node, 'shards'):
        return 'shards', 'Z'
    if isinstance(node, ast.Constant) and isinstance(node.value, int) and not isinstance(node.value, bool):
        return '(%d)' % node.value, 'Z'
    if isinstance(node, ast.BinOp):
        a, ta = compile_limit(node.left, fname)
        b, tb = compile_limit(node.right, fname)

        def q(t, ty):
            return t if ty == 'Q' else '(inject_Z %s)' % t
        if isinstance(node.op, ast.Div):            # true division: exact rational (Python rounds it to binary64)
            return '(%s / %s)%%Q' % (q(a, ta), q(b, tb)), 'Q'
        if isinstance(node.op, ast.FloorDiv) and ta == tb == 'Z':
            return '(%s / %s)%%Z' % (a, b), 'Z'
        sym = {ast.Add: '+', ast.Sub: '-', ast.Mult: '*'}.get(type(node.op))
        if sym is not None:
            if ta == tb == 'Z':
                return '(%s %s %s)%%Z' % (a, sym, b), 'Z'
            return '(%s %s %s)%%Q' % (q(a, ta), sym, q(b, tb)), 'Q'
    err(node, 'unsupported size_limit expression: ' + ast.unparse(node), fname)


def compile_pass(node, fname):
    """The guard under which a shard is handed size_limit -> boolean term over `given` (the caller gave size_limit:
    `given = 'size_limit' in settings`, matched by the template) and `shard_exists` (op.exists(op.join(path, DBNAME)),
    path being the shard directory: the shard's database file is there)."""
    if is_name(node, 'given'):
        return 'given'
    if ast.unparse(node).replace(' ', '') == 'op.exists(op.join(path,DBNAME))':
        return 'shard_exists'
    if isinstance(node, ast.Constant) and isinstance(node.value, bool):
        return 'true' if node.value else 'false'
    if isinstance(node, ast.UnaryOp) and isinstance(node.op, ast.Not):
        return '(negb %s)' % compile_pass(node.operand, fname)
    if isinstance(node, ast.BoolOp):
        sym = ' || ' if isinstance(node.op, ast.Or) else ' && '
        return '(' + sym.join(compile_pass(v, fname) for v in node.values) + ')'
    err(node, 'unsupported condition for handing size_limit to a shard: ' + ast.unparse(node), fname)


def int_eval(node):
    if isinstance(node, ast.Constant) and isinstance(node.value, int) and not isinstance(node.value, bool):
        return node.value
    if isinstance(node, ast.BinOp):
        a, b = int_eval(node.left), int_eval(node.right)
        if a is None or b is None:
            return None
        if isinstance(node.op, ast.Pow) and 0 <= b < 200:
            return a ** b
        if isinstance(node.op, ast.Mult):
            return a * b
        if isinstance(node.op, ast.Add):
            return a + b
        if isinstance(node.op, ast.Sub):
            return a - b
    return None


def default_size_limit(ctx):
    fname = ctx.path('core')
    for n in ctx.tree('core').body:
        if isinstance(n, ast.Assign) and len(n.targets) == 1 and is_name(n.targets[0], 'DEFAULT_SETTINGS'):
            if not isinstance(n.value, ast.Dict):
                err(n, 'DEFAULT_SETTINGS is not a dict literal', fname)
            for k, v in zip(n.value.keys, n.value.values):
                if isinstance(k, ast.Constant) and k.value == 'size_limit':
                    r = int_eval(v)
                    if r is None:
                        err(v, 'DEFAULT_SETTINGS[size_limit] is not an integer expression: ' + ast.unparse(v), fname)
                    return r
    raise TranslateError('%s: DEFAULT_SETTINGS[\'size_limit\'] not found' % fname)


# ---------------------------------------------------------------------------
# aggregates


def shard_range(node, fname):
    s = ast.unparse(node).replace(' ', '')
    if s == 'self._shards':
        return 'AllForward'
    if s == 'reversed(self._shards)':
        return 'AllBackward'
    err(node, 'aggregate does not range over all shards (self._shards / reversed(self._shards)): ' + ast.unparse(node), fname)


def sum_elt(node, fname):
    s = ast.unparse(node).replace(' ', '')
    table = {'len(shard)': 'CLen', 'shard.volume()': 'CVolume'}
    if s in table:
        return table[s]
    err(node, 'unsupported summand: ' + ast.unparse(node), fname)


def stats_proj(elt, a, b, fname):
    if not (isinstance(a, ast.Name) and isinstance(b, ast.Name) and isinstance(elt, ast.Name)) or a.id == b.id:
        err(elt, 'stats: unsupported unpacking of (hits, misses)', fname)
    if elt.id == a.id:
        return 'PFst'
    if elt.id == b.id:
        return 'PSnd'
    err(elt, 'stats: summand is not a component of the pair: ' + ast.unparse(elt), fname)


def emit(ctx):
    fname = ctx.path('fanout')
    tree = ctx.tree('fanout')
    cname = ctx.path('core')
    ctree = ctx.tree('core')
    cls = find_func(tree, 'FanoutCache', fname)
    out = [HEADER % 'fanout.py FanoutCache (signatures of the callees and operator forms from core.py Cache)',
           'From Coq Require Import QArith.\n'
           'From DC Require Import DCPrelude FanoutBase.\n\n']

    # ---- __init__
    h = match_template(T_INIT, find_func(tree, 'FanoutCache.__init__', fname), fname)
    lim, ty = compile_limit(h['__Hlimit__'], fname)
    if ty == 'Z':
        lim = '(inject_Z %s)' % lim
    fmt = h['__Hfmt__']
    m = re.match(r'^%0(\d+)d$', fmt.value) if isinstance(fmt, ast.Constant) and isinstance(fmt.value, str) else None
    if m is None:
        err(fmt, 'shard directory format is not of the form %0<w>d: ' + ast.unparse(fmt), fname)
    out.append('''(* __init__: shard number num is Cache(op.join(directory, fmt %% num), [size_limit=<shard_size_limit>,] **settings) for num
   in range(shards).  `size_limit` is settings.pop('size_limit', DEFAULT_SETTINGS['size_limit']).  Python's `/` is TRUE division:
   the value is the binary64 nearest to this exact rational (the rational itself whenever it is representable). *)
Definition default_size_limit : Z := %d.
Definition shard_size_limit (size_limit shards : Z) : Q := %s.
Definition shard_size_limit_is_true_division : bool := %s.
(* the shard is handed size_limit under this condition only (otherwise it keeps the limit stored in it); `given`: the caller
   gave size_limit; `shard_exists`: the shard's database file (core.DBNAME in the shard directory) exists before the open *)
Definition shard_limit_passed (given shard_exists : bool) : bool := %s.
(* '%%0<w>d' %% num: decimal, zero-padded to width w *)
Definition shard_dir_width : Z := %s.
(* self._hash = self._shards[0].disk.hash (matched by template): routing uses Disk.hash of gen/Gen_Disk.v *)
Definition hash_is_disk_hash_of_shard0 : bool := true.

''' % (default_size_limit(ctx), lim, 'true' if ty == 'Q' else 'false', compile_pass(h['__Hpass__'], fname), m.group(1)))

    # ---- key-addressed methods
    out.append('(* Key-addressed methods: shard index expression and delegation record (vocabulary in base/FanoutBase.v). *)\n')
    rows = []
    for name in KEYED:
        node = find_func(tree, 'FanoutCache.' + name, fname)
        r = compile_keyed(ctx, name, node, fname)
        cn = COQNAME.get(name, name)
        out.append('Definition idx_%s (h count : Z) : Z := %s.\n' % (cn, r['index']))
        out.append('Definition deleg_%s : fdeleg :=\n  {| fd_index := idx_%s; fd_callee := %s;\n     fd_bind := %s;\n'
                   '     fd_retry := %s; fd_catch := %s; fd_on_exc := %s |}.\n' % (
                       cn, cn, r['callee'], r['bind'], r['retry'], r['catch'], r['onexc']))
        rows.append('(%s, deleg_%s)' % (FMETH[name], cn))
    out.append('\nDefinition fanout_table : list (fmeth * fdeleg) :=\n  [' + ';\n   '.join(rows) + '].\n\n')

    # ---- read
    h = match_template(T_READ, find_func(tree, 'FanoutCache.read', fname), fname)
    out.append('(* read: self.get(key, default=ENOVAL, read=True, retry=<read_retry>), KeyError when ENOVAL comes back *)\n'
               'Definition read_retry : bool := %s.\n\n' % bool_const(h['__Hretry__'], 'retry of read', fname))

    # ---- operator forms of Cache
    h1 = match_template(T_C_SETITEM, find_func(ctree, 'Cache.__setitem__', cname), cname)
    h2 = match_template(T_C_GETITEM, find_func(ctree, 'Cache.__getitem__', cname), cname)
    match_template(T_C_CONTAINS, find_func(ctree, 'Cache.__contains__', cname), cname)
    dnode = find_func(ctree, 'Cache.__delitem__', cname)
    want = ast.parse('def __delitem__(self, key, retry=True): pass').body[0].args
    got = copy.deepcopy(dnode.args)
    if len(got.defaults) != 1:
        err(dnode, 'signature of Cache.__delitem__ changed: ' + ast.unparse(dnode.args), cname)
    delitem_retry = bool_const(got.defaults[0], 'default of retry in Cache.__delitem__', cname)
    got.defaults[0] = ast.Constant(value=True)
    if ast.dump(want) != ast.dump(got):
        err(dnode, 'signature of Cache.__delitem__ changed: ' + ast.unparse(dnode.args), cname)
    match_template(T_C_DECR, find_func(ctree, 'Cache.decr', cname), cname)
    match_template(T_C_DELETE, find_func(ctree, 'Cache.delete', cname), cname)
    match_template(T_C_LEN, find_func(ctree, 'Cache.__len__', cname), cname)
    out.append('''(* operator forms of Cache (core.py): shard[key] = value is self.set(key, value, retry=<..>); shard[key] is
   self.get(key, default=ENOVAL, retry=<..>) + KeyError; del shard[key] is __delitem__(key) with its retry default;
   key in shard is one SELECT outside any transaction.  Cache.decr is incr(key, -delta, default, retry) and Cache.delete
   is __delitem__(key, retry=retry) with KeyError -> False (both matched by template). *)
Definition cache_setitem_retry : bool := %s.
Definition cache_getitem_retry : bool := %s.
Definition cache_delitem_retry : bool := %s.
Definition cache_contains_lock_free : bool := true.

''' % (bool_const(h1['__Hretry__'], 'retry of Cache.__setitem__', cname),
       bool_const(h2['__Hretry__'], 'retry of Cache.__getitem__', cname), delitem_retry))

    # ---- aggregates
    h = match_template(T_LEN, find_func(tree, 'FanoutCache.__len__', fname), fname)
    out.append('(* Aggregate methods. *)\nDefinition agg_len : agg_sum := {| as_meth := %s; as_shards := %s |}.\n' % (
        sum_elt(h['__Helt__'], fname), shard_range(h['__Hshards__'], fname)))
    h = match_template(T_VOLUME, find_func(tree, 'FanoutCache.volume', fname), fname)
    out.append('Definition agg_volume : agg_sum := {| as_meth := %s; as_shards := %s |}.\n' % (
        sum_elt(h['__Helt__'], fname), shard_range(h['__Hshards__'], fname)))

    h = match_template(T_STATS, find_func(tree, 'FanoutCache.stats', fname), fname)
    cm, binds = compile_call(ctx, h['__Hcall__'], ['enable', 'reset'], fname)
    if cm != 'CStats':
        err(h['__Hcall__'], 'stats does not call shard.stats', fname)
    out.append('Definition agg_stats_t : agg_stats :=\n  {| st_shards := %s; st_bind := %s; st_hits := %s; st_misses := %s |}.\n' % (
        shard_range(h['__Hshards__'], fname), fmt_binds(binds),
        stats_proj(h['__Hh__'], h['__Hh1__'], h['__Hh2__'], fname),
        stats_proj(h['__Hm__'], h['__Hm1__'], h['__Hm2__'], fname)))

    h = match_template(T_CHECK, find_func(tree, 'FanoutCache.check', fname), fname)
    cm, binds = compile_call(ctx, h['__Hcall__'], ['fix', 'retry'], fname)
    if cm != 'CCheck':
        err(h['__Hcall__'], 'check does not call shard.check', fname)
    out.append('Definition agg_check_t : agg_check := {| ck_shards := %s; ck_bind := %s |}.\n' % (
        shard_range(h['__Hshards__'], fname), fmt_binds(binds)))

    rnode = find_func(tree, 'FanoutCache._remove', fname)
    try:
        h = match_template(T_REMOVE, rnode, fname)
        p = ast.unparse(h['__Hpartial__']).replace(' ', '')
        if p == 'timeout.args[0]':
            partial = 'PartialArg0'
        elif p == '0':
            partial = 'PartialNothing'
        else:
            err(h['__Hpartial__'], '_remove: unsupported partial count: ' + p, fname)
    except TranslateError as first:
        h = matches(T_REMOVE_NOPARTIAL, rnode, fname)
        if h is None:
            raise TranslateError('%s (_remove no longer matches `for shard: while True: try: total += method(...) except Timeout as '
                                 'timeout: total += timeout.args[0] else: break`)' % first)
        partial = 'PartialNothing'
    out.append('Definition remove_loop : remove_loop_t :=\n  {| rm_shards := %s; rm_resumes := true; rm_partial := %s; rm_passes_retry := true |}.\n' % (
        shard_range(h['__Hshards__'], fname), partial))

    for name in ('expire', 'evict', 'cull', 'clear'):
        node = find_func(tree, 'FanoutCache.' + name, fname)
        retry = check_signature(name, node, fname)
        params = [a.arg for a in node.args.args][1:]
        body = list(strip_doc(node.body))
        h = matches(T_VIA_REMOVE_ARGS, body, fname)
        args = []
        if h is None:
            h = matches(T_VIA_REMOVE, body, fname)
            if h is None:
                err(node, '%s: body is not `return self._remove(<name>[, args=(...)], retry=retry)`' % name, fname)
        else:
            if not isinstance(h['__Hargs__'], ast.Tuple):
                err(h['__Hargs__'], '%s: args is not a tuple literal' % name, fname)
            args = h['__Hargs__'].elts
        nm = h['__Hname__']
        if not (isinstance(nm, ast.Constant) and nm.value in ('expire', 'evict', 'cull', 'clear')):
            err(nm, '%s: unsupported shard method name: %s' % (name, ast.unparse(nm)), fname)
        binds = bind_args(ctx, nm.value, args, [], params, node, fname)
        out.append('Definition agg_%s : agg_remove := {| ar_meth := %s; ar_bind := %s; ar_retry := %s |}.\n' % (
            name, CMETH[nm.value], fmt_binds(binds), 'None' if retry is None else '(Some %s)' % ('true' if retry else 'false')))

    def each(node):
        s = ast.unparse(node).replace(' ', '')
        if s == 'iter(shard)':
            return 'EachForward'
        if s == 'reversed(shard)':
            return 'EachBackward'
        err(node, 'unsupported per-shard iterator: ' + ast.unparse(node), fname)
    h = match_template(T_ITER, find_func(tree, 'FanoutCache.__iter__', fname), fname)
    out.append('Definition agg_iter_t : agg_iter := {| it_shards := %s; it_each := %s |}.\n' % (
        shard_range(h['__Hshards__'], fname), each(h['__Hit__'])))
    h = match_template(T_REVERSED, find_func(tree, 'FanoutCache.__reversed__', fname), fname)
    out.append('Definition agg_reversed_t : agg_iter := {| it_shards := %s; it_each := %s |}.\n' % (
        shard_range(h['__Hshards__'], fname), each(h['__Hit__'])))

    tnode = find_func(tree, 'FanoutCache.transact', fname)
    if [ast.unparse(d) for d in tnode.decorator_list] != ['cl.contextmanager']:
        err(tnode, 'transact is no longer a cl.contextmanager', fname)
    h = match_template(T_TRANSACT, tnode, fname)
    out.append('Definition agg_transact_t : agg_transact := {| tx_shards := %s; tx_retry := %s; tx_asserts_retry := true |}.\n' % (
        shard_range(h['__Hshards__'], fname), bool_const(h['__Hretry__'], 'retry of shard.transact', fname)))

    for nm, t in (('create_tag_index', T_CREATE_TI), ('drop_tag_index', T_DROP_TI), ('close', T_CLOSE), ('reset', T_RESET)):
        h = match_template(t, find_func(tree, 'FanoutCache.' + nm, fname), fname)
        out.append('Definition foreach_%s : shard_range := %s.\n' % (nm, shard_range(h['__Hshards__'], fname)))
    out.append('(* reset repeats shard.reset(key, value) until it does not raise Timeout (matched by template). *)\n')

    # every public method of the class is accounted for (a new data method must be added to the translator)
    known = set(KEYED) | {'__init__', 'directory', '__getattr__', 'transact', 'read', 'check', 'expire', 'create_tag_index',
                          'drop_tag_index', 'evict', 'cull', 'clear', '_remove', 'stats', 'volume', 'close', '__enter__',
                          '__exit__', '__getstate__', '__setstate__', '__iter__', '__reversed__', '__len__', 'reset',
                          'cache', 'deque', 'index'}
    for n in cls.body:
        if isinstance(n, ast.FunctionDef) and n.name not in known:
            err(n, 'FanoutCache has a method the translator does not know: ' + n.name, fname)
    return {'Gen_Fanout.v': ''.join(out)}
