"""Gen_ArgsKey.v: args_to_key and the store conditions of the memoizing wrappers (C16)."""
import ast

from pyast import Expr, TranslateError, dotted, err, find_func, match_template
from translate import HEADER

T_ARGS_TO_KEY = '''
def args_to_key(base, args, kwargs, typed, ignore):
    args = tuple(arg for index, arg in enumerate(args) if __Hargcond__)
    key = base + args + __Hsep__
    if kwargs:
        kwargs = {key: val for key, val in kwargs.items() if __Hkwcond__}
        sorted_items = __Hitems__
        for item in sorted_items:
            key += item
    if typed:
        key += tuple(type(arg) for arg in args)
        if kwargs:
            key += tuple(type(value) for _, value in sorted_items)
    return key
'''

T_FULL_NAME = '''
def full_name(func):
    return func.__module__ + __Hsepstr__ + func.__qualname__
'''

T_CACHE_MEMOIZE = '''
def memoize(self, name=None, typed=False, expire=None, tag=None, ignore=()):
    if callable(name):
        raise TypeError('name cannot be callable')

    def decorator(func):
        base = (full_name(func),) if name is None else (name,)

        @ft.wraps(func)
        def wrapper(*args, **kwargs):
            key = wrapper.__cache_key__(*args, **kwargs)
            result = self.get(key, default=ENOVAL, retry=True)
            if result is ENOVAL:
                result = func(*args, **kwargs)
                if __Hstore__:
                    self.set(key, result, expire, tag=tag, retry=True)
            return result

        def __cache_key__(*args, **kwargs):
            return args_to_key(base, args, kwargs, typed, ignore)

        wrapper.__cache_key__ = __cache_key__
        return wrapper

    return decorator
'''

T_DJANGO_MEMOIZE = '''
def memoize(self, name=None, timeout=DEFAULT_TIMEOUT, version=None, typed=False, tag=None, ignore=()):
    if callable(name):
        raise TypeError('name cannot be callable')

    def decorator(func):
        base = (full_name(func),) if name is None else (name,)

        @wraps(func)
        def wrapper(*args, **kwargs):
            key = wrapper.__cache_key__(*args, **kwargs)
            result = self.get(key, ENOVAL, version, retry=True)
            if result is ENOVAL:
                result = func(*args, **kwargs)
                valid_timeout = __Hstore__
                if valid_timeout:
                    self.set(key, result, timeout, version, tag=tag, retry=True)
            return result

        def __cache_key__(*args, **kwargs):
            return args_to_key(base, args, kwargs, typed, ignore)

        wrapper.__cache_key__ = __cache_key__
        return wrapper

    return decorator
'''

T_STAMPEDE = '''
def memoize_stampede(cache, expire, name=None, typed=False, tag=None, beta=1, ignore=()):
    def decorator(func):
        base = (full_name(func),) if name is None else (name,)

        def timer(*args, **kwargs):
            start = time.time()
            result = func(*args, **kwargs)
            delta = time.time() - start
            return result, delta

        @functools.wraps(func)
        def wrapper(*args, **kwargs):
            key = wrapper.__cache_key__(*args, **kwargs)
            pair, expire_time = cache.get(key, default=ENOVAL, expire_time=True, retry=True)
            if pair is not ENOVAL:
                result, delta = pair
                now = time.time()
                ttl = expire_time - now
                if (-delta * beta * math.log(random.random())) < ttl:
                    return result
                thread_key = key + __Hsuffix__
                thread_added = cache.add(thread_key, None, expire=delta, retry=True)
                if thread_added:
                    def recompute():
                        with cache:
                            pair = timer(*args, **kwargs)
                            cache.set(key, pair, expire=expire, tag=tag, retry=True)
                    thread = threading.Thread(target=recompute)
                    thread.daemon = True
                    thread.start()
                return result
            pair = timer(*args, **kwargs)
            cache.set(key, pair, expire=expire, tag=tag, retry=True)
            return pair[0]

        def __cache_key__(*args, **kwargs):
            return args_to_key(base, args, kwargs, typed, ignore)

        wrapper.__cache_key__ = __cache_key__
        return wrapper

    return decorator
'''

T_INDEX_MEMOIZE = '''
def memoize(self, name=None, typed=False, ignore=()):
    return self._cache.memoize(name, typed, ignore=ignore)
'''


def el_tuple(node, fname):
    """(None,) / (ENOVAL,) / () -> Coq list of el."""
    if not isinstance(node, ast.Tuple):
        err(node, 'separator is not a tuple literal: ' + ast.unparse(node), fname)
    out = []
    for e in node.elts:
        if isinstance(e, ast.Constant) and e.value is None:
            out.append('ENone')
        elif isinstance(e, ast.Name) and e.id == 'ENOVAL':
            out.append('EEnoval')
        else:
            err(e, 'unsupported separator element: ' + ast.unparse(e), fname)
    return '[' + '; '.join(out) + ']'


def emit(ctx):
    fname = ctx.path('core')
    tree = ctx.tree('core')
    out = [HEADER % 'core.py args_to_key, Cache.memoize; djangocache.py memoize; recipes.py memoize_stampede; persistent.py Index.memoize',
           'From DC Require Import DCPrelude ArgsKeyBase.\n\n']

    # --- args_to_key
    f = find_func(tree, 'args_to_key', fname)
    h = match_template(T_ARGS_TO_KEY, f, fname)
    env_pos = {'index': ('index', 'Z'), 'ignore': ('ignore', 'set:ig_has_pos')}
    env_kw = {'key': ('key', 'str'), 'ignore': ('ignore', 'set:ig_has_name')}
    argcond = Expr(env_pos, fname).boolean(h['__Hargcond__'])
    kwcond = Expr(env_kw, fname).boolean(h['__Hkwcond__'])
    sep = el_tuple(h['__Hsep__'], fname)
    items = h['__Hitems__']
    src_items = ast.unparse(items).replace(' ', '')
    if src_items == 'sorted(kwargs.items())':
        sorted_flag = 'true'
    elif src_items in ('list(kwargs.items())', 'kwargs.items()', 'tuple(kwargs.items())'):
        sorted_flag = 'false'
    else:
        err(items, 'unsupported ordering of keyword items: ' + ast.unparse(items), fname)
    out.append('''Definition arg_kept (ignore : ignore_t) (index : Z) : bool := %s.
Definition kw_kept (ignore : ignore_t) (key : list Z) : bool := %s.
Definition separator : list el := %s.
Definition items_sorted : bool := %s.

(* Structure fixed by AST equality with the translator's template of args_to_key; the four
   definitions above are the parts read off the source. *)
Definition args_to_key (base args : list el) (kwargs : kwargs_t) (typed : bool) (ignore : ignore_t)
  : list el :=
  let args' := filter_index (arg_kept ignore) args in
  let key := base ++ args' ++ separator in
  let kwargs' := if negb (is_nil kwargs)
                 then filter (fun kv => kw_kept ignore (fst kv)) kwargs else kwargs in
  let sorted_items := if negb (is_nil kwargs) then order_items items_sorted kwargs' else [] in
  let key := key ++ flat_map item_flat sorted_items in
  if typed
  then key ++ map type_el args'
           ++ (if negb (is_nil kwargs') then map (fun kv => type_el (snd kv)) sorted_items else [])
  else key.

''' % (argcond, kwcond, sep, sorted_flag))

    # --- full_name: the key base derived for a function memoized without name=
    f = find_func(tree, 'full_name', fname)
    h = match_template(T_FULL_NAME, f, fname)
    sepn = h['__Hsepstr__']
    if not (isinstance(sepn, ast.Constant) and isinstance(sepn.value, str)):
        err(sepn, 'full_name: separator is not a string constant', fname)
    out.append('(* full_name(func) = func.__module__ + sep + func.__qualname__ (code points) *)\n')
    out.append('Definition full_name_sep : list Z := [%s].\n' % '; '.join(str(ord(ch)) for ch in sepn.value))
    out.append('Definition full_name (module qualname : list Z) : list Z := module ++ full_name_sep ++ qualname.\n\n')

    # --- Cache.memoize store condition
    f = find_func(tree, 'Cache.memoize', fname)
    h = match_template(T_CACHE_MEMOIZE, f, fname)
    env = {'expire': ('expire', 'optZ')}
    g = Expr(env, fname).boolean(h['__Hstore__'])
    out.append('(* Cache.memoize / FanoutCache.memoize: store the result iff ... (expire in clock ticks) *)\n')
    out.append('Definition memo_store_cache (expire : option Z) : bool := %s.\n\n' % g)

    # FanoutCache.memoize = Cache.memoize
    ftree = ctx.tree('fanout')
    ok = False
    for n in ftree.body:
        if isinstance(n, ast.Assign) and ast.unparse(n.targets[0]) == 'FanoutCache.memoize':
            if ast.unparse(n.value) != 'Cache.memoize':
                err(n, 'FanoutCache.memoize is no longer Cache.memoize', ctx.path('fanout'))
            ok = True
    if not ok:
        raise TranslateError('%s: FanoutCache.memoize = Cache.memoize not found' % ctx.path('fanout'))

    # --- DjangoCache.memoize
    dname = ctx.path('djangocache')
    f = find_func(ctx.tree('djangocache'), 'DjangoCache.memoize', dname)
    h = match_template(T_DJANGO_MEMOIZE, f, dname)
    # timeout: DEFAULT_TIMEOUT is a sentinel object; model: timeout : dj_timeout
    env = {'timeout': ('timeout', 'djt'), 'DEFAULT_TIMEOUT': ('DjDefault', 'djt')}
    g = compile_dj(h['__Hstore__'], dname)
    out.append('(* DjangoCache.memoize: timeout is the DEFAULT_TIMEOUT sentinel, None, or a number *)\n')
    out.append('Definition memo_store_django (timeout : dj_timeout) : bool := %s.\n\n' % g)

    # --- memoize_stampede
    rname = ctx.path('recipes')
    f = find_func(ctx.tree('recipes'), 'memoize_stampede', rname)
    h = match_template(T_STAMPEDE, f, rname)
    out.append('(* memoize_stampede: always stores; recompute-guard key = key ++ suffix *)\n')
    out.append('Definition stampede_suffix : list el := %s.\n\n' % el_tuple(h['__Hsuffix__'], rname))

    # --- Index.memoize delegates
    pname = ctx.path('persistent')
    f = find_func(ctx.tree('persistent'), 'Index.memoize', pname)
    match_template(T_INDEX_MEMOIZE, f, pname)
    out.append('(* Index.memoize delegates to Cache.memoize(name, typed, ignore=ignore): no expiry. *)\n')
    out.append('Definition index_memo_expire : option Z := None.\n')
    return {'Gen_ArgsKey.v': ''.join(out)}


def compile_dj(node, fname):
    """Boolean over `timeout` in {DEFAULT_TIMEOUT, None, number}: or/and of the three atom kinds."""
    if isinstance(node, ast.BoolOp):
        op = '||' if isinstance(node.op, ast.Or) else '&&'
        return '(' + (' %s ' % op).join(compile_dj(v, fname) for v in node.values) + ')'
    if isinstance(node, ast.UnaryOp) and isinstance(node.op, ast.Not):
        return '(negb %s)' % compile_dj(node.operand, fname)
    if isinstance(node, ast.Compare) and len(node.ops) == 1 and dotted(node.left) == 'timeout':
        op, r = node.ops[0], node.comparators[0]
        if isinstance(op, ast.Is) and isinstance(r, ast.Constant) and r.value is None:
            return '(match timeout with DjNone => true | _ => false end)'
        if isinstance(op, ast.Eq) and dotted(r) == 'DEFAULT_TIMEOUT':
            return '(match timeout with DjDefault => true | _ => false end)'
        if isinstance(r, ast.Constant) and isinstance(r.value, int):
            from pyast import CMP
            if type(op) in CMP:
                return '(match timeout with DjNum t => t %s %d | _ => false end)' % (CMP[type(op)], r.value)
    err(node, 'unsupported timeout test: ' + ast.unparse(node), fname)
