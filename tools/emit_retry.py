"""Gen_Retry.v: Cache._sql_retry, the statement-level retry used outside transactions (Cache.__init__, reset): the error
message it waits on, the give-up test on the elapsed time and the pause between attempts, read off the source (C14).
Times are integer microseconds.  Fail-closed."""
import ast
from fractions import Fraction

from pyast import CMP, err, find_func, match_template
from translate import HEADER

T_RETRY = '''
def _sql_retry(self):
    sql = self._sql

    def _execute_with_retry(statement, *args, **kwargs):
        start = time.time()
        while True:
            try:
                return sql(statement, *args, **kwargs)
            except sqlite3.OperationalError as exc:
                if str(exc) != __Hmsg__:
                    raise
                diff = time.time() - start
                if __Hguard__:
                    raise
                time.sleep(__Hsleep__)

    return _execute_with_retry
'''


def micro(node, fname, what):
    if not (isinstance(node, ast.Constant) and type(node.value) in (int, float)):
        err(node, '%s is not a numeric literal: %s' % (what, ast.unparse(node)), fname)
    v = Fraction(repr(node.value)) * 10 ** 6
    if v.denominator != 1:
        err(node, '%s is not a whole number of microseconds: %s' % (what, ast.unparse(node)), fname)
    return int(v)


def emit(ctx):
    fname = ctx.path('core')
    f = find_func(ctx.tree('core'), 'Cache._sql_retry', fname)
    if [ast.unparse(d) for d in f.decorator_list] != ['property']:
        err(f, '_sql_retry is no longer a property', fname)
    h = match_template(T_RETRY, f, fname)
    msg = h['__Hmsg__']
    if not (isinstance(msg, ast.Constant) and isinstance(msg.value, str) and msg.value.isascii()):
        err(msg, 'unsupported message test', fname)
    g = h['__Hguard__']
    if not (isinstance(g, ast.Compare) and len(g.ops) == 1 and isinstance(g.left, ast.Name) and g.left.id == 'diff'
            and type(g.ops[0]) in CMP):
        err(g, 'unsupported give-up test: ' + ast.unparse(g), fname)
    limit = micro(g.comparators[0], fname, 'the time limit')
    sleep = micro(h['__Hsleep__'], fname, 'the pause')
    out = [HEADER % 'core.py Cache._sql_retry', 'From DC Require Import DCPrelude.\n\n',
           '(* times in microseconds *)\n',
           'Definition retry_limit_us : Z := %d.\n' % limit,
           'Definition retry_sleep_us : Z := %d.\n' % sleep,
           '(* `if %s: raise` *)\n' % ast.unparse(g),
           'Definition retry_gives_up (diff : Z) : bool := diff %s retry_limit_us.\n' % CMP[type(g.ops[0])],
           '(* the only error waited on: OperationalError(%r) *)\n' % msg.value,
           'Definition retry_locked_msg : list Z := [%s].\n' % '; '.join(str(ord(c)) for c in msg.value)]
    return {'Gen_Retry.v': ''.join(out)}
