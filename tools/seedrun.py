#!/usr/bin/env python3
"""Confirm a seeded change and run the property's check against it.

usage: tools/seedrun.py <dir with patch.diff, demo.py, meta.json> [--tier quick] [--skip-tests]
For the change in <dir> (produced by an independent sub-agent that saw only the property text):
  1. the patch applies to a scratch copy of /repo;
  2. demo.py passes on the unchanged code and fails on the changed code;
  3. the existing test suite still passes with the change;
  4. bin/check <property> is run against the changed copy (scratch copy of /verif, like tools/mutcheck.sh).
Writes /verif/seeded/<id>/{patch.diff, demo.py, meta.json} when 1-3 are confirmed; meta.json records what was
run and what the check printed.  Nothing is ever applied to /repo itself.
"""
import json
import os
import re
import shutil
import subprocess
import sys
import tempfile

VERIF = os.path.dirname(os.path.dirname(os.path.abspath(__file__)))
PY = '/venv/bin/python'


def sh(cmd, cwd=None, env=None, timeout=3600):
    p = subprocess.run(cmd, cwd=cwd, env=env, stdout=subprocess.PIPE, stderr=subprocess.STDOUT, text=True, errors='replace', timeout=timeout)
    return p.returncode, p.stdout


def main():
    src = os.path.abspath(sys.argv[1])
    tier = 'quick'
    skip_tests = '--skip-tests' in sys.argv
    if '--tier' in sys.argv:
        tier = sys.argv[sys.argv.index('--tier') + 1]
    sid = os.path.basename(src.rstrip('/'))
    meta = json.load(open(os.path.join(src, 'meta.json')))
    prop = meta.get('property') or sid.split('-')[0]
    prop = re.match(r'C\d+', prop).group(0)
    tmp = tempfile.mkdtemp(prefix='seedrun-')
    out = {'id': sid, 'property': prop, 'agent_meta': meta}
    try:
        repo = os.path.join(tmp, 'repo')
        sh(['rsync', '-a', '--exclude', '.git', '--exclude', '__pycache__', '/repo/', repo + '/'])
        rc, o = sh(['patch', '-p1', '-s', '-i', os.path.join(src, 'patch.diff')], cwd=repo)
        out['patch_applies'] = rc == 0
        if rc != 0:
            out['error'] = 'patch does not apply: ' + o[-500:]
            print(json.dumps(out, indent=1))
            return 2
        envc = dict(os.environ, PYTHONPATH='/repo', PYTHONHASHSEED='0', PYTHONDONTWRITEBYTECODE='1')
        envm = dict(os.environ, PYTHONPATH=repo, PYTHONHASHSEED='0', PYTHONDONTWRITEBYTECODE='1')
        rc0, o0 = sh([PY, os.path.join(src, 'demo.py')], cwd=tmp, env=envc, timeout=900)
        rc1, o1 = sh([PY, os.path.join(src, 'demo.py')], cwd=repo, env=envm, timeout=900)
        out['demo_clean'] = {'rc': rc0, 'tail': o0[-300:]}
        out['demo_changed'] = {'rc': rc1, 'tail': o1[-400:]}
        out['demo_confirms'] = (rc0 == 0 and rc1 != 0)
        if not skip_tests:
            rct, ot = sh([PY, '-m', 'pytest', '-q', '-p', 'no:cacheprovider', '--timeout=900', '-x', '--deselect',
                          'tests/test_djangocache.py::DiskCacheTests::test_cache_write_for_model_instance_with_deferred',
                          '-o', 'addopts='], cwd=repo, env=envm, timeout=1800)
            tail = ot.strip().splitlines()[-1] if ot.strip() else ''
            if rct != 0 and 'database is locked' in ot:
                rct, ot = sh([PY, '-m', 'pytest', '-q', '-p', 'no:cacheprovider', '--timeout=900', '-x', '--deselect',
                              'tests/test_djangocache.py::DiskCacheTests::test_cache_write_for_model_instance_with_deferred',
                              '-o', 'addopts='], cwd=repo, env=envm, timeout=1800)
                tail = ot.strip().splitlines()[-1] if ot.strip() else ''
            out['tests'] = {'rc': rct, 'summary': tail}
            out['tests_pass'] = rct == 0
        else:
            out['tests_pass'] = None
            try:   # keep the test result of an earlier full confirmation
                prev = json.load(open(os.path.join(VERIF, 'seeded', sid, 'meta.json')))
                out['tests'] = prev['confirmed']['existing_tests']
            except Exception:
                pass
        # run the check against the changed copy
        ver = os.path.join(tmp, 'verif')
        sh(['rsync', '-a', '--exclude', '.git', '--exclude', 'build/cases', '--exclude', 'replays', '--exclude', 'evidence',
            '--exclude', 'seeded', VERIF + '/', ver + '/'])
        os.makedirs(os.path.join(ver, 'evidence'), exist_ok=True)
        os.makedirs(os.path.join(ver, 'replays'), exist_ok=True)
        envv = dict(os.environ, VERIF_REPO=repo)
        rcc, oc = sh([os.path.join(ver, 'bin', 'check'), prop, '--tier', tier], cwd=ver, env=envv, timeout=7200)
        lines = [l for l in oc.splitlines() if l.startswith(('VIOLATION', 'BROKEN', 'KNOWN-FINDING', prop + ' '))]
        replays = []
        for f in sorted(os.listdir(os.path.join(ver, 'replays'))):
            try:
                d = json.load(open(os.path.join(ver, 'replays', f)))
                replays.append({'file': f, 'kind': d.get('kind'), 'sig': d.get('sig'), 'what': str(d.get('what'))[:300],
                                'broken': d.get('broken_obligations') or [o_['name'] for o_ in d.get('obligations', [])]})
            except Exception:
                pass
        out['check'] = {'rc': rcc, 'lines': [l[:300] for l in lines][:30], 'replays': replays[:10],
                        'detected': rcc == 1 and any(l.startswith('VIOLATION') for l in lines),
                        'with_failing_input': any(l.startswith('VIOLATION') and 'no-failing-input-found' not in l for l in lines)}
        if out['demo_confirms'] and out['tests_pass'] in (True, None):
            dst = os.path.join(VERIF, 'seeded', sid)
            os.makedirs(dst, exist_ok=True)
            if os.path.realpath(src) != os.path.realpath(dst):     # a refresh runs on the kept copy itself
                shutil.copy(os.path.join(src, 'patch.diff'), dst)
                shutil.copy(os.path.join(src, 'demo.py'), dst)
            m2 = {'property': prop, 'summary': meta.get('summary'), 'needs_to_manifest': meta.get('needs_to_manifest'),
                  'files_touched': meta.get('files_touched'),
                  'confirmed': {'patch_applies': True, 'demo_unchanged_rc': rc0, 'demo_changed_rc': rc1,
                                'demo_changed_output': o1[-300:], 'existing_tests': out.get('tests')},
                  'what_was_run': ['patch -p1 on a scratch copy of /repo', 'demo.py on /repo and on the copy',
                                   'pytest (whole suite, one known always-failing Django test deselected) on the copy',
                                   'bin/check %s --tier %s with VERIF_REPO=<copy>' % (prop, tier)],
                  'check_result': out['check']}
            json.dump(m2, open(os.path.join(dst, 'meta.json'), 'w'), indent=1)
            out['kept'] = True
        else:
            out['kept'] = False
        print(json.dumps({k: v for k, v in out.items() if k != 'agent_meta'}, indent=1)[:3000])
        return 0
    finally:
        shutil.rmtree(tmp, ignore_errors=True)


if __name__ == '__main__':
    sys.exit(main())
