"""Gen_Disk.v: Disk.put/get/store/fetch/hash/_write/remove decision trees and open() arguments,
JSONDisk wrappers, MODE_* constants (C01, C02, C13, C18)."""
import ast

from pyast import Expr, TranslateError, dotted, err, find_func, match_template
from translate import HEADER

T_PUT = '''
def put(self, key):
    type_key = type(key)
    if type_key is bytes:
        return sqlite3.Binary(key), __Hraw1__
    elif __Hnative__:
        return key, __Hraw2__
    else:
        data = pickle.dumps(key, protocol=self.pickle_protocol)
        result = pickletools.optimize(data)
        return sqlite3.Binary(result), __Hraw3__
'''

T_GET = '''
def get(self, key, raw):
    if raw:
        return bytes(key) if type(key) is sqlite3.Binary else key
    else:
        return pickle.load(io.BytesIO(key))
'''

T_STORE = '''
def store(self, value, read, key=UNKNOWN):
    type_value = type(value)
    min_file_size = self.min_file_size
    if __Hinline__:
        return 0, __Hm1__, None, value
    elif type_value is bytes:
        if __Hbsmall__:
            return 0, __Hm2__, None, sqlite3.Binary(value)
        else:
            filename, full_path = self.filename(key, value)
            self._write(full_path, io.BytesIO(value), __Hw1__)
            return __Hs1__, __Hm3__, filename, None
    elif type_value is str:
        filename, full_path = self.filename(key, value)
        self._write(full_path, io.StringIO(value), __Hw2__, __Henc__)
        size = __Hs2__
        return size, __Hm4__, filename, None
    elif read:
        reader = ft.partial(value.read, 2**22)
        filename, full_path = self.filename(key, value)
        iterator = iter(reader, b'')
        size = self._write(full_path, iterator, __Hw3__)
        return size, __Hm5__, filename, None
    else:
        result = pickle.dumps(value, protocol=self.pickle_protocol)
        if __Hpsmall__:
            return 0, __Hm6__, None, sqlite3.Binary(result)
        else:
            filename, full_path = self.filename(key, value)
            self._write(full_path, io.BytesIO(result), __Hw4__)
            return __Hs3__, __Hm7__, filename, None
'''

T_WRITE = '''
def _write(self, full_path, iterator, mode, encoding=None):
    full_dir, _ = op.split(full_path)
    for count in range(1, 11):
        with cl.suppress(OSError):
            os.makedirs(full_dir)
        try:
            writer = __Hopen__
        except OSError:
            if count == 10:
                raise
            continue
        with writer:
            size = 0
            for chunk in iterator:
                size += len(chunk)
                writer.write(chunk)
            return size
'''

# after the newline fix _write computes the newline argument first
T_WRITE_NL = '''
def _write(self, full_path, iterator, mode, encoding=None):
    full_dir, _ = op.split(full_path)
    newline = __Hnlexpr__
    for count in range(1, 11):
        with cl.suppress(OSError):
            os.makedirs(full_dir)
        try:
            writer = __Hopen__
        except OSError:
            if count == 10:
                raise
            continue
        try:
            with writer:
                size = 0
                for chunk in iterator:
                    size += len(chunk)
                    writer.write(chunk)
                return size
        except BaseException:
            with cl.suppress(OSError):
                os.remove(full_path)
            raise
'''

T_FETCH = '''
def fetch(self, mode, filename, value, read):
    if mode == __Hf1__:
        return bytes(value) if type(value) is sqlite3.Binary else value
    elif mode == __Hf2__:
        if read:
            return open(op.join(self._directory, filename), __Hr1__)
        else:
            with open(op.join(self._directory, filename), __Hr2__) as reader:
                return reader.read()
    elif mode == __Hf3__:
        full_path = op.join(self._directory, filename)
        with __Hopen__ as reader:
            return reader.read()
    elif mode == __Hf4__:
        if value is None:
            with open(op.join(self._directory, filename), __Hr3__) as reader:
                return pickle.load(reader)
        else:
            return pickle.load(io.BytesIO(value))
'''

T_HASH = '''
def hash(self, key):
    mask = __Hmask__
    disk_key, _ = self.put(key)
    type_disk_key = type(disk_key)
    if type_disk_key is sqlite3.Binary:
        return zlib.adler32(disk_key) & mask
    elif type_disk_key is str:
        return zlib.adler32(disk_key.encode('utf-8')) & mask
    elif type_disk_key is int:
        return disk_key % mask
    else:
        assert type_disk_key is float
        return zlib.adler32(struct.pack('!d', disk_key)) & mask
'''

T_REMOVE = '''
def remove(self, file_path):
    full_path = op.join(self._directory, file_path)
    full_dir, _ = op.split(full_path)
    with cl.suppress(OSError):
        os.remove(full_path)
    with cl.suppress(OSError):
        os.removedirs(full_dir)
'''

T_FILENAME = '''
def filename(self, key=UNKNOWN, value=UNKNOWN):
    hex_name = codecs.encode(os.urandom(16), 'hex').decode('utf-8')
    sub_dir = op.join(hex_name[:2], hex_name[2:4])
    name = hex_name[4:] + '.val'
    filename = op.join(sub_dir, name)
    full_path = op.join(self._directory, filename)
    return filename, full_path
'''

T_JPUT = '''
def put(self, key):
    json_bytes = json.dumps(key).encode('utf-8')
    data = zlib.compress(json_bytes, self.compress_level)
    return super().put(data)
'''
T_JGET = '''
def get(self, key, raw):
    data = super().get(key, raw)
    return json.loads(zlib.decompress(data).decode('utf-8'))
'''
T_JSTORE = '''
def store(self, value, read, key=UNKNOWN):
    if not read:
        json_bytes = json.dumps(value).encode('utf-8')
        value = zlib.compress(json_bytes, self.compress_level)
    return super().store(value, read, key=key)
'''
T_JFETCH = '''
def fetch(self, mode, filename, value, read):
    data = super().fetch(mode, filename, value, read)
    if not read:
        data = json.loads(zlib.decompress(data).decode('utf-8'))
    return data
'''

TYPETESTS = {'bytes': 'is_bytes', 'str': 'is_str', 'int': 'is_int', 'float': 'is_float'}


def const_bool(node, fname):
    if isinstance(node, ast.Constant) and node.value in (True, False):
        return 'true' if node.value else 'false'
    err(node, 'raw flag is not a boolean literal: ' + ast.unparse(node), fname)


def mode_const(node, consts, fname):
    d = dotted(node)
    if d in consts:
        return d
    if isinstance(node, ast.Constant) and isinstance(node.value, int):
        return '(%d)' % node.value
    err(node, 'mode is not a MODE_* constant: ' + ast.unparse(node), fname)


def omode(node, fname):
    if isinstance(node, ast.Constant) and isinstance(node.value, str):
        m = ''.join(sorted(node.value))
        table = {'bx': 'OM_xb', 'x': 'OM_x', 'bw': 'OM_wb', 'w': 'OM_w', 'br': 'OM_rb', 'r': 'OM_r'}
        return table.get(m, 'OM_other')
    err(node, 'open mode is not a string literal: ' + ast.unparse(node), fname)


def szexpr(node, fname):
    s = ast.unparse(node).replace(' ', '')
    table = {'len(value)': 'SzLenValue', 'len(result)': 'SzLenResult', 'op.getsize(full_path)': 'SzGetsize', '0': 'SzZero'}
    if s in table:
        return table[s]
    err(node, 'unsupported size expression: ' + s, fname)


def nlarg(node, fname):
    if isinstance(node, ast.Constant):
        v = node.value
        table = {None: 'NLNone', '': 'NLEmpty', '\n': 'NLLF', '\r': 'NLCR', '\r\n': 'NLCRLF'}
        if v in table:
            return table[v]
    err(node, 'unsupported newline argument: ' + ast.unparse(node), fname)


def is_utf8(node, fname):
    if isinstance(node, ast.Constant) and isinstance(node.value, str):
        return 'true' if node.value.lower().replace('-', '') == 'utf8' else 'false'
    err(node, 'encoding is not a string literal', fname)


def open_call(node, fname, positional):
    """open(<path>, <mode>, encoding=..., newline=...) -> dict(mode=node, encoding=node|None, newline=node|None)."""
    if not (isinstance(node, ast.Call) and dotted(node.func) == 'open'):
        err(node, 'expected a call of open(): ' + ast.unparse(node), fname)
    if len(node.args) != 2 or ast.unparse(node.args[0]) != positional:
        err(node, 'unexpected positional arguments of open(): ' + ast.unparse(node), fname)
    out = {'mode': node.args[1], 'encoding': None, 'newline': None}
    for kw in node.keywords:
        if kw.arg in ('encoding', 'newline'):
            out[kw.arg] = kw.value
        else:
            err(node, 'unexpected keyword of open(): %s' % kw.arg, fname)
    return out


def emit(ctx):
    fname = ctx.path('core')
    tree = ctx.tree('core')
    consts = ctx.module_int_consts('core')
    for m in ('MODE_NONE', 'MODE_RAW', 'MODE_BINARY', 'MODE_TEXT', 'MODE_PICKLE'):
        if m not in consts:
            raise TranslateError('%s: constant %s not found' % (fname, m))
    out = [HEADER % 'core.py MODE_*, Disk.put/get/store/_write/fetch/hash/remove/filename, JSONDisk',
           'From DC Require Import DCPrelude Val DiskBase.\n\n']
    for m in ('MODE_NONE', 'MODE_RAW', 'MODE_BINARY', 'MODE_TEXT', 'MODE_PICKLE'):
        out.append('Definition %s : Z := %d.\n' % (m, consts[m]))
    out.append('\n')

    # ---- put
    h = match_template(T_PUT, find_func(tree, 'Disk.put', fname), fname)
    env = {'type_key': ('key', 'typeof'), 'key': ('key', 'pyval')}
    native = Expr(env, fname, consts, TYPETESTS).boolean(h['__Hnative__'])
    out.append('''(* Disk.put: key -> (database key, raw flag).  pkk = pickletools.optimize(pickle.dumps(key, protocol)). *)
Definition put_plan_of (key : pyval) : put_plan :=
  if is_bytes key then PutBlob %s
  else if %s then PutNative %s
  else PutPickle %s.

''' % (const_bool(h['__Hraw1__'], fname), native, const_bool(h['__Hraw2__'], fname), const_bool(h['__Hraw3__'], fname)))

    # ---- get: fixed structure
    match_template(T_GET, find_func(tree, 'Disk.get', fname), fname)
    out.append('(* Disk.get matches the template: raw -> the column value (blob as bytes), else pickle.load. *)\n'
               'Definition get_unpickles_when_not_raw : bool := true.\n\n')

    # ---- store
    h = match_template(T_STORE, find_func(tree, 'Disk.store', fname), fname)
    env = {'type_value': ('value', 'typeof'), 'value': ('value', 'pyval'), 'min_file_size': ('min_file_size', 'Z'),
           'read': ('read', 'bool')}

    def len_call(args, node, ex):
        (t, ty), = args
        if ty == 'pyval':
            return ('(pv_len %s)' % t, 'Z')
        if ty == 'bytes':
            return ('(Z.of_nat (length %s))' % t, 'Z')
        ex.fail(node, 'len() of %s' % ty)
    ex = Expr(env, fname, consts, TYPETESTS, calls={'len': len_call})
    inline = ex.boolean(h['__Hinline__'])
    bsmall = ex.boolean(h['__Hbsmall__'])
    env2 = dict(env)
    env2['result'] = ('result', 'bytes')
    psmall = Expr(env2, fname, consts, TYPETESTS, calls={'len': len_call}).boolean(h['__Hpsmall__'])
    out.append('''(* Disk.store: pkv = pickle.dumps(value, protocol). *)
Definition store_plan_of (min_file_size : Z) (pkv : pyval -> list Z) (value : pyval) (read : bool) : store_plan :=
  if %s then PlanInline %s value
  else if is_bytes value then
    (if %s then PlanInline %s value
     else PlanBytesFile %s %s %s (match value with VBytes b => b | _ => [] end))
  else if is_str value then
    PlanTextFile %s %s %s %s (match value with VStr s => s | _ => [] end)
  else if read then
    PlanStreamFile %s SzWritten %s (match value with VStream b => b | _ => [] end)
  else
    let result := pkv value in
    if %s then PlanInline %s (VBytes result)
    else PlanBytesFile %s %s %s result.

''' % (inline, mode_const(h['__Hm1__'], consts, fname),
       bsmall, mode_const(h['__Hm2__'], consts, fname),
       mode_const(h['__Hm3__'], consts, fname), szexpr(h['__Hs1__'], fname), omode(h['__Hw1__'], fname),
       mode_const(h['__Hm4__'], consts, fname), szexpr(h['__Hs2__'], fname), omode(h['__Hw2__'], fname), is_utf8(h['__Henc__'], fname),
       mode_const(h['__Hm5__'], consts, fname), omode(h['__Hw3__'], fname),
       psmall, mode_const(h['__Hm6__'], consts, fname),
       mode_const(h['__Hm7__'], consts, fname), szexpr(h['__Hs3__'], fname), omode(h['__Hw4__'], fname)))

    # ---- _write: the open() call and its newline argument
    wf = find_func(tree, 'Disk._write', fname)
    try:
        h = match_template(T_WRITE, wf, fname)
        nlexpr = None
    except TranslateError:
        h = match_template(T_WRITE_NL, wf, fname)
        nlexpr = h['__Hnlexpr__']
    oc = open_call(h['__Hopen__'], fname, 'full_path')
    if ast.unparse(oc['mode']) != 'mode' or oc['encoding'] is None or ast.unparse(oc['encoding']) != 'encoding':
        err(h['__Hopen__'], '_write no longer passes mode/encoding through to open()', fname)
    if oc['newline'] is None:
        wnl = 'fun _ => NLNone'
    elif isinstance(oc['newline'], ast.Constant):
        wnl = 'fun _ => %s' % nlarg(oc['newline'], fname)
    elif ast.unparse(oc['newline']) == 'newline' and nlexpr is not None:
        # newline = <a> if encoding is None else <b>
        if isinstance(nlexpr, ast.IfExp) and ast.unparse(nlexpr.test) == 'encoding is None':
            wnl = 'fun has_encoding : bool => if has_encoding then %s else %s' % (
                nlarg(nlexpr.orelse, fname), nlarg(nlexpr.body, fname))
        elif isinstance(nlexpr, ast.IfExp) and ast.unparse(nlexpr.test) == 'encoding is not None':
            wnl = 'fun has_encoding : bool => if has_encoding then %s else %s' % (
                nlarg(nlexpr.body, fname), nlarg(nlexpr.orelse, fname))
        else:
            err(nlexpr, 'unsupported newline computation in _write', fname)
    else:
        err(h['__Hopen__'], 'unsupported newline argument in _write', fname)
    out.append('(* Disk._write: newline= argument of the open() used for writing, given whether an encoding is passed *)\n')
    out.append('Definition write_newline : bool -> nlarg := %s.\n' % wnl)
    out.append('Definition write_tries : Z := 10.\n')
    out.append('(* a failed write removes the partial file before re-raising (only the newline-aware form of _write has this) *)\n')
    out.append('Definition write_failure_removes_partial : bool := %s.\n\n' % ('true' if nlexpr is not None else 'false'))

    # ---- fetch
    h = match_template(T_FETCH, find_func(tree, 'Disk.fetch', fname), fname)
    oc = open_call(h['__Hopen__'], fname, 'full_path')
    rnl = 'NLNone' if oc['newline'] is None else nlarg(oc['newline'], fname)
    if oc['encoding'] is None:
        err(h['__Hopen__'], 'text files are read without an explicit encoding', fname)
    modes = [mode_const(h['__Hf%d__' % i], consts, fname) for i in (1, 2, 3, 4)]
    out.append('''(* Disk.fetch *)
Definition fetch_plan_of (mode : Z) (col_is_null : bool) (read : bool) : fetch_plan :=
  if mode =? %s then FRaw
  else if mode =? %s then (if read then FHandle %s else FReadBytes %s)
  else if mode =? %s then FReadText %s %s %s
  else if mode =? %s then (if col_is_null then FUnpickleFile %s else FUnpickleCol)
  else FNone.

''' % (modes[0], modes[1], omode(h['__Hr1__'], fname), omode(h['__Hr2__'], fname),
       modes[2], omode(oc['mode'], fname), is_utf8(oc['encoding'], fname), rnl,
       modes[3], omode(h['__Hr3__'], fname)))

    # ---- hash
    h = match_template(T_HASH, find_func(tree, 'Disk.hash', fname), fname)
    mask = h['__Hmask__']
    if not (isinstance(mask, ast.Constant) and isinstance(mask.value, int)):
        err(mask, 'hash mask is not an integer literal', fname)
    out.append('''(* Disk.hash: adler32 of blob / utf-8 text / big-endian double, integers modulo the mask *)
Definition hash_mask : Z := %d.
Definition hash_plan_of (disk_key : sqlval) : hash_plan :=
  match disk_key with
  | SBlob _ => HashAdlerBlob | SText _ => HashAdlerUtf8 | SInt _ => HashIntMod | _ => HashAdlerDouble
  end.

''' % mask.value)

    match_template(T_REMOVE, find_func(tree, 'Disk.remove', fname), fname)
    match_template(T_FILENAME, find_func(tree, 'Disk.filename', fname), fname)
    out.append('(* Disk.remove / Disk.filename match their templates: remove file then removedirs, both suppressing OSError;\n'
               '   names are 16 random bytes in hex split xx/yy/<28 hex>.val *)\n'
               'Definition filename_random_bytes : Z := 16.\nDefinition filename_suffix : list Z := [46; 118; 97; 108].\n\n')

    for name, t in (('put', T_JPUT), ('get', T_JGET), ('store', T_JSTORE), ('fetch', T_JFETCH)):
        match_template(t, find_func(tree, 'JSONDisk.' + name, fname), fname)
    out.append('(* JSONDisk.put/get/store/fetch match their templates: json+zlib bytes wrapped around Disk;\n'
               '   store/fetch skip the codec when read=True. *)\n'
               'Definition jsondisk_wraps_bytes : bool := true.\n')
    return {'Gen_Disk.v': ''.join(out)}
