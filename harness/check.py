#!/venv/bin/python
"""bin/check <Cxx> [--tier quick|thorough] [--replay path]   -- see DESIGN.md section 2."""
import argparse
import importlib
import json
import os
import sys
import time
import traceback

HERE = os.path.dirname(os.path.abspath(__file__))
sys.path.insert(0, HERE)
import fw  # noqa: E402


def load_prop(pid):
    return importlib.import_module('props.' + pid.lower())


def main():
    ap = argparse.ArgumentParser()
    ap.add_argument('prop')
    ap.add_argument('--tier', default=os.environ.get('VERIF_TIER', 'quick'))
    ap.add_argument('--replay', default=None)
    ap.add_argument('--no-build', action='store_true', help='debug: skip translate/build')
    a = ap.parse_args()
    pid = a.prop.upper()
    tier = a.tier if a.tier in ('quick', 'thorough') else 'quick'
    try:
        seed = int(os.environ.get('VERIF_SEED', '1'))
    except ValueError:
        seed = 1
    mod = load_prop(pid)
    if a.replay:
        with open(a.replay) as f:
            payload = json.load(f)
        import inspect
        case = payload.get('case') or {}
        kind = case.get('check') if isinstance(case, dict) else None
        try:
            src = inspect.getsource(mod.replay)
        except (OSError, TypeError):
            src = ''
        if payload.get('kind') == 'failing-input' and kind is not None and ("'%s'" % kind) not in src and ('"%s"' % kind) not in src:
            # the module has no dedicated replay for this kind of case: run the whole check again (same seed and tier, monitors only) and
            # see whether a violation with the same signature comes back
            ctx = fw.Ctx(pid, payload.get('tier', 'quick'), int(payload.get('seed', seed)))
            try:
                res = mod.run(ctx)
                again = [v for v in res.violations if v.sig == payload.get('sig')]
                if not again and hasattr(mod, 'search'):
                    ctx.search_mode = True
                    again = [v for v in mod.search(ctx, []).violations if v.sig == payload.get('sig')]
            finally:
                ctx.cleanup()
            for v in again[:1]:
                print('again:', v.desc[:600])
            ok = not again
        else:
            ok = mod.replay(payload)
        print('REPLAY %s: %s' % (a.replay, 'property holds on this input' if ok else 'property FAILS on this input'))
        sys.exit(0 if ok else 1)

    t0 = time.time()
    fw.clear_replays(pid)
    ctx = fw.Ctx(pid, tier, seed)
    broken = []          # list of dicts {kind, name, detail}
    coq = {'obligations': 0, 'discharged': 0, 'checker_cmd': '', 'axioms': [], 'theorems': [], 'closed': 0}
    try:
        # 0. sync the generated part of the model with /repo
        if not a.no_build:
            with fw.BuildLock():
                errs = fw.translate()
                for e in errs:
                    target = e.split()[0]
                    if target in getattr(mod, 'TRANSLATE', []):
                        broken.append({'kind': 'translator', 'name': 'translator:' + target, 'detail': e})
                # 1. prove
                target = 'props/%s.vo' % mod.COQ_PROP
                # the executable model first (-k: it must be available for the correspondence and the
                # failing-input search even when a proof no longer compiles), then the property file
                models = sorted('model/' + f[:-2] + '.vo' for f in os.listdir(os.path.join(fw.COQ, 'model')) if f.endswith('.v'))
                fw.coq_make(['-k'] + models)
                rc, log, dt = fw.coq_make([target])
                coq['checker_cmd'] = 'coq/mk.sh -j16 %s  (coq_makefile full .vo build) + coqc Print Assumptions on every theorem of props/%s.v' % (target, mod.COQ_PROP)
                coq['build_s'] = round(dt, 1)
            theorems, lemmas = fw.count_obligations(mod.COQ_PROP)
            coq['theorems'] = theorems
            coq['obligations'] = len(theorems) + len(lemmas)
            if rc != 0:
                err = fw.first_coq_error(log) or {'file': '?', 'line': 0, 'error': log[-600:]}
                stmt = fw.enclosing_statement(err['file'], err['line'])
                broken.append({'kind': 'proof', 'name': '%s:%s' % (err['file'], stmt), 'detail': err['error']})
                coq['discharged'] = 0
            else:
                prc, closed, axioms, paout = fw.print_assumptions(mod.COQ_PROP, theorems)
                coq['closed'] = closed
                coq['axioms'] = axioms
                if prc != 0:
                    broken.append({'kind': 'proof', 'name': 'print-assumptions', 'detail': paout[-400:]})
                else:
                    coq['discharged'] = len(theorems) + len(lemmas)
                allowed = set(getattr(mod, 'ALLOWED_AXIOMS', []))
                for ax in axioms:
                    if ax not in allowed:
                        broken.append({'kind': 'proof', 'name': 'axiom:' + ax, 'detail': 'theorem depends on an axiom that is not in the declared trusted base'})
            if tier == 'thorough' and rc == 0:
                crc, cax, cdt = fw.coqchk(mod.COQ_PROP)
                coq['coqchk'] = {'rc': crc, 'axioms': cax, 'seconds': cdt}
                if crc != 0:
                    broken.append({'kind': 'proof', 'name': 'coqchk', 'detail': cax})
            bad = fw.hygiene_grep()
            if bad:
                broken.append({'kind': 'proof', 'name': 'hygiene', 'detail': '; '.join(bad[:5])})
        ctx.broken = broken
        # 2. correspondence + monitors
        try:
            res = mod.run(ctx)
        except Exception:
            res = fw.Result()
            broken.append({'kind': 'harness', 'name': 'harness:run', 'detail': traceback.format_exc()[-1500:]})
        for d in res.disagreements:
            broken.append({'kind': 'correspondence', 'name': 'correspondence:' + d.sig, 'detail': d.desc, 'case': d.case})
        # 3. on a break: search for a failing input with the monitors
        searched = None
        if broken and not [v for v in res.violations if v.sig not in fw.load_known(pid)[0]]:
            if hasattr(mod, 'search'):
                ctx.search_mode = True
                try:
                    searched = mod.search(ctx, broken)
                    res.violations += searched.violations
                    res.evaluations += searched.evaluations
                    res.nontrivial |= searched.nontrivial
                    res.witnessed.update(searched.witnessed)
                except Exception:
                    broken.append({'kind': 'harness', 'name': 'harness:search', 'detail': traceback.format_exc()[-1500:]})
        # 4. classify
        known, fixed = fw.load_known(pid)
        new_viol = []
        seen_sigs = set()
        for v in res.violations:
            if v.sig in known:
                res.witnessed[v.sig] = True
                continue
            if v.sig in seen_sigs:
                continue
            seen_sigs.add(v.sig)
            new_viol.append(v)
        lines = []
        nrep = 0
        for v in new_viol[:10]:
            nrep += 1
            path = fw.write_replay(pid, nrep, {'property': pid, 'kind': 'failing-input', 'sig': v.sig, 'what': v.desc,
                                               'seed': seed, 'tier': tier, 'case': v.case,
                                               'broken_obligations': [b['name'] for b in broken]})
            lines.append('VIOLATION property=%s replay=%s' % (pid, path))
        if broken and not new_viol:
            nrep += 1
            path = fw.write_replay(pid, nrep, {'property': pid, 'kind': 'broken-obligation',
                                               'obligations': broken, 'seed': seed, 'tier': tier,
                                               'note': 'the theorem/correspondence named here no longer checks; the monitor search found no failing input'})
            lines.append('VIOLATION property=%s replay=%s no-failing-input-found' % (pid, path))
        for sig, (fid, text) in sorted(known.items()):
            if res.witnessed.get(sig):
                print('KNOWN-FINDING: property=%s %s %s' % (pid, fid, text))
        for b in broken:
            print('BROKEN %s: %s' % (b['name'], ' '.join(str(b['detail']).split())[:300]))
        for l in lines:
            print(l)
        # 5. evidence
        trusted = list(fw.FIXED_TRUSTED_BASE) + list(getattr(mod, 'TRUSTED', []))
        trusted.append('Print Assumptions over %d theorems: %d closed under the global context; axioms: %s'
                       % (len(coq['theorems']), coq['closed'], ', '.join(coq['axioms']) or 'none'))
        cov = {
            'obligations': coq['obligations'], 'discharged': coq['discharged'],
            'checker_cmd': coq['checker_cmd'] or 'skipped (--no-build)', 'trusted_base': trusted,
            'theorems': coq['theorems'],
            'evaluations': res.evaluations, 'distinct_nontrivial': len(res.nontrivial), 'rule': res.rule,
            'samples': res.samples[:6] or [{'note': 'no sample recorded'}],
            'traces_validated_against_impl': res.traces_validated,
            'model_impl_disagreements': len(res.disagreements),
            'monitor_violations_known': sorted(s for s in res.witnessed if res.witnessed[s]),
            'monitor_violations_new': [v.sig for v in new_viol],
            'broken_obligations': [b['name'] for b in broken],
            'search_ran': searched is not None,
        }
        if 'coqchk' in coq:
            cov['coqchk'] = coq['coqchk']
            trusted.append('coqchk -o on props/%s.vo: axioms %s' % (mod.COQ_PROP, coq['coqchk']['axioms']))
            cov['trusted_base'] = trusted
        cov.update(res.extra)
        ev = {
            'property_id': pid, 'tier': tier, 'seed': seed, 'level': mod.LEVEL,
            'coverage': cov, 'assumptions': list(getattr(mod, 'ASSUMPTIONS', [])) + res.assumptions,
            'wall_s': round(time.time() - t0, 2), 'violations': len(lines),
        }
        fw.write_evidence(pid, ev)
        print('%s %s: theorems=%d obligations=%d/%d evaluations=%d distinct=%d disagreements=%d violations=%d (%.1fs)' % (
            pid, tier, len(coq['theorems']), coq['discharged'], coq['obligations'], res.evaluations,
            len(res.nontrivial), len(res.disagreements), len(lines), time.time() - t0))
        sys.exit(1 if lines else 0)
    finally:
        ctx.cleanup()


if __name__ == '__main__':
    main()
