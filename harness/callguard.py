"""A bound on the wall time of one API call (or one short run of calls) made by a monitor in the main thread.

A check must terminate whatever the code under verification does.  Some loops of the library have no exit when the stored state is
damaged (peek / pull / peekitem retry for ever on a row whose value file is gone: "key was deleted before we could retrieve result");
a change to the library that produces such a state would otherwise hang the check instead of being reported.

    with callguard.bounded(30, 'pull'):
        cache.pull()
    -> raises callguard.CallDidNotReturn('pull') from inside the spinning call after 30 s of wall time

SIGALRM based (like props/c10.py): effective in the main thread only, a no-op elsewhere and when a guard is already active.
The limit is generous (calls take milliseconds); it is wall time, never the virtual clock of harness/instr.py.
"""
import contextlib
import signal
import threading


class CallDidNotReturn(Exception):
    """the guarded call was still running when its time was up"""


_active = [False]


@contextlib.contextmanager
def bounded(seconds, what=''):
    if threading.current_thread() is not threading.main_thread() or _active[0]:
        yield
        return

    def on_alarm(signum, frame):
        raise CallDidNotReturn(what)
    old = signal.signal(signal.SIGALRM, on_alarm)
    _active[0] = True
    signal.setitimer(signal.ITIMER_REAL, seconds)
    try:
        yield
    finally:
        signal.setitimer(signal.ITIMER_REAL, 0)
        signal.signal(signal.SIGALRM, old)
        _active[0] = False
