"""History generators for the sequential driver (boundary-biased, mostly valid + a malformed stream)."""
import pickle

from val import Stream
import seqdrv

KEYS = [10 ** 15 + 1, float(10 ** 15 + 1), 'a', 'b', b'a', (1,), None, 2 ** 64, 0, -0.0, 'k3']
TAGS = [None, 't1', 't2']


def values(minf):
    big_s = 'x' * (minf + 3)
    return [0, 5, -7, 2 ** 62, 'v', 'w' * max(0, minf - 1), big_s, 'y' * minf + '\r\n', b'b', b'B' * (minf + 2),
            (1, 'two'), None, [1, 2, 3], {'k': 'v' * (minf + 5)}, Stream(b'stream-data' * 3), Stream(b'')]


class Gen:
    def __init__(self, rng, cfg, weights=None, keys=None, ttls=None, prefixes=None, steps=None):
        self.rng = rng
        self.cfg = cfg
        self.keys = keys or KEYS
        self.vals = values(cfg.min_file_size)
        self.ttls = ttls or [None, None, None, 0, 2 ** -10, 1, 2, -1, 2 ** 20]
        self.prefixes = prefixes or [None, None, 'a', 'a-5', 'b']
        self.steps = steps or [0, 0, 2 ** -10, 0.5, 1, 1, 2, 5]
        self.w = weights or {
            'set': 14, 'add': 6, 'get': 12, 'contains': 5, 'touch': 4, 'incr': 6, 'pop': 4, 'delete': 4, 'delitem': 2,
            'push': 6, 'pull': 4, 'peek': 3, 'peekitem': 2, 'evict': 1, 'expire': 2, 'cull': 1, 'clear': 1, 'len': 2,
            'iter': 2, 'reversed': 1, 'iterkeys': 2, 'stats': 1,
        }
        self.ops = [k for k, v in self.w.items() for _ in range(v)]
        self.objs = []
        self.index = {}
        self.now = 1000.0
        self.expiries = []       # absolute expiry times created so far (to land on them exactly)
        self.counter_keys = ['c1', 'c2']

    def ref(self, o):
        key = (type(o).__name__, repr(o) if not isinstance(o, Stream) else 'S%d' % len(o.data))
        if key not in self.index:
            self.index[key] = len(self.objs)
            self.objs.append(o)
        return self.index[key]

    def advance(self):
        r = self.rng
        if self.expiries and r.random() < 0.25:
            t = r.choice(self.expiries) + r.choice([-2 ** -10, 0, 0, 2 ** -10])
            if t >= self.now:
                self.now = t
                return
        self.now += r.choice(self.steps)

    def item(self):
        r = self.rng
        self.advance()
        op = r.choice(self.ops)
        a = {}
        if op in ('set', 'add'):
            a['k'] = self.ref(r.choice(self.keys))
            a['v'] = self.ref(r.choice(self.vals))
            a['expire'] = r.choice(self.ttls)
            a['tag'] = r.choice(TAGS)
        elif op in ('get', 'contains', 'pop', 'delete', 'delitem'):
            a['k'] = self.ref(r.choice(self.keys + self.counter_keys))
            if op == 'get':
                a['read'] = r.random() < 0.2
        elif op == 'touch':
            a['k'] = self.ref(r.choice(self.keys))
            a['expire'] = r.choice(self.ttls)
        elif op == 'incr':
            a['k'] = self.ref(r.choice(self.counter_keys + self.counter_keys + [r.choice(self.keys)]))
            a['delta'] = r.choice([1, 1, -1, 5, 2 ** 62])
            a['default'] = r.choice([0, 0, 0, None, 10])
        elif op == 'push':
            a['v'] = self.ref(r.choice(self.vals))
            a['prefix'] = r.choice(self.prefixes)
            a['side'] = r.choice(['back', 'back', 'front'])
            a['expire'] = r.choice(self.ttls)
            a['tag'] = r.choice(TAGS)
        elif op in ('pull', 'peek'):
            a['prefix'] = r.choice(self.prefixes)
            a['side'] = r.choice(['front', 'front', 'back'])
        elif op == 'peekitem':
            a['last'] = r.random() < 0.5
        elif op == 'evict':
            a['tag'] = r.choice(TAGS)
        elif op == 'iterkeys':
            a['reverse'] = r.random() < 0.5
        elif op == 'stats':
            a['enable'] = r.random() < 0.7
            a['reset'] = r.random() < 0.3
        if a.get('expire') is not None:
            self.expiries.append(self.now + a['expire'])
        return {'op': op, 'args': a, 'now': self.now}

    def history(self, n):
        return [self.item() for _ in range(n)]


def history_json(objs, history, cfg):
    return {'config': cfg.to_json(),
            'objs_pickle_hex': [None if isinstance(o, Stream) else pickle.dumps(o, protocol=4).hex() for o in objs],
            'objs_stream_hex': [o.data.hex() if isinstance(o, Stream) else None for o in objs],
            'objs_repr': [repr(o)[:60] for o in objs],
            'history': history}


def history_from_json(j):
    objs = []
    for p, s in zip(j['objs_pickle_hex'], j['objs_stream_hex']):
        objs.append(Stream(bytes.fromhex(s)) if s is not None else pickle.loads(bytes.fromhex(p)))
    cfg = seqdrv.Config(**j['config'])
    return objs, j['history'], cfg
