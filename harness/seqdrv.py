"""Sequential driver (DESIGN.md 4.2, driver 1): one client, a list of API calls with explicit `now`,
run on the implementation; after every call the table, Settings and directory are observed through the
harness's own connection.  The same history is rendered as a Coq `list call` and evaluated with
model/CacheRun.run_cmp.

History item (JSON-able): {'op': name, 'args': {...}, 'now': float}
Values/keys are Python objects kept in a side table (case['objs']) and referenced by index so that a
history can be written to a replay file (pickled hex).
"""
import io
import os
import pickle
import pickletools
import sqlite3

import fw
import instr
import val
from instr import core, diskcache
from val import Stream

SENT = core.Constant('VERIF_DEFAULT')
POLICY = {'none': 'PNone', 'least-recently-stored': 'PLRS', 'least-recently-used': 'PLRU', 'least-frequently-used': 'PLFU'}


class Config:
    def __init__(self, policy='least-recently-stored', statistics=False, tag_index=False, min_file_size=16,
                 size_limit=2 ** 30, cull_limit=10, protocol=pickle.HIGHEST_PROTOCOL):
        self.policy = policy
        self.statistics = statistics
        self.tag_index = tag_index
        self.min_file_size = min_file_size
        self.size_limit = size_limit
        self.cull_limit = cull_limit
        self.protocol = protocol

    def settings(self):
        return dict(eviction_policy=self.policy, statistics=int(self.statistics), tag_index=int(self.tag_index),
                    disk_min_file_size=self.min_file_size, size_limit=self.size_limit, cull_limit=self.cull_limit,
                    disk_pickle_protocol=self.protocol)

    def to_json(self):
        d = dict(self.__dict__)
        d.pop('size_limit_rel', None)
        return d


def observe(directory):
    """Rows, counters and files as seen by an independent read-only connection."""
    con = sqlite3.connect(os.path.join(directory, 'cache.db'))
    try:
        rows = con.execute('SELECT rowid, key, raw, store_time, expire_time, access_time, access_count, tag, size, mode,'
                           ' filename, value FROM Cache ORDER BY rowid').fetchall()
        sets = dict(con.execute('SELECT key, value FROM Settings').fetchall())
    finally:
        con.close()
    files = {}
    for dp, dn, fn in os.walk(directory):
        for f in fn:
            if f.endswith('.val'):
                rel = os.path.relpath(os.path.join(dp, f), directory)
                with open(os.path.join(dp, f), 'rb') as fh:
                    files[rel] = fh.read()
    return rows, sets, files


class Trace:
    """Result of running one history on the implementation."""

    def __init__(self):
        self.calls = []      # dicts: op,args,now,vols,result(py),result_term,obs(optional)
        self.error = None


def res_term_value(v):
    return '(FVal %s)' % val.py_term(v)


def tticks(t):
    if t is None:
        return None
    x = float(t) * 1024
    if x != int(x):
        raise ValueError('off-grid time %r' % t)
    return int(x)


def key_term(disk, k):
    dk, raw = disk.put(k)
    if isinstance(dk, (sqlite3.Binary, memoryview)):
        dk = bytes(dk)
    return val.sql_term(dk), bool(raw)


def tag_term(t):
    return val.sql_term(t)


class Runner:
    def __init__(self, ctx, cfg, observe_every=1):
        self.ctx = ctx
        self.cfg = cfg
        self.dir = ctx.scratch('seq')
        self.clock = instr.Clock(1000.0)
        self.observe_every = observe_every
        self.objs = []          # python objects referenced by the history
        self.keys_seen = []
        self.vals_seen = []

    def open(self):
        self.cache = diskcache.Cache(self.dir, **self.cfg.settings())
        if getattr(self.cfg, 'size_limit_rel', None) is not None:
            # size limit chosen relative to the volume of the empty cache, so that eviction is reachable
            self.cfg.size_limit = self.cache.volume() + self.cfg.size_limit_rel
            self.cache.reset('size_limit', self.cfg.size_limit)
        self.vols = []
        cache = self.cache
        vols = self.vols

        def volume():
            ((pc,),) = cache._sql('PRAGMA page_count').fetchall()
            pg = cache._page_size * pc
            vols.append(pg)
            return pg + cache.reset('size')
        cache.volume = volume
        return cache

    def close(self):
        try:
            self.cache.close()
        except Exception:
            pass

    # -- executing one call; returns (python result description, coq result term)
    def call(self, item):
        c = self.cache
        op = item['op']
        a = item['args']
        disk = c.disk
        g = lambda i: self.objs[i]  # noqa: E731

        def vget(i):
            v = g(i)
            return (v.open(), True) if isinstance(v, Stream) else (v, False)
        try:
            if op in ('set', 'add'):
                v, read = vget(a['v'])
                r = getattr(c, op)(g(a['k']), v, expire=a.get('expire'), read=read, tag=a.get('tag'))
                return r, 'RBool %s' % fw.cbool(r)
            if op == 'touch':
                r = c.touch(g(a['k']), expire=a.get('expire'))
                return r, 'RBool %s' % fw.cbool(r)
            if op == 'incr':
                r = c.incr(g(a['k']), a['delta'], a['default'])
                return r, 'RVal %s None SNull' % res_term_value(r)
            if op == 'get':
                r = c.get(g(a['k']), default=SENT, read=a.get('read', False), expire_time=True, tag=True)
                if r[0] is SENT:
                    return 'default', 'RDefault'
                v, e, t = r
                if a.get('read') and hasattr(v, 'read'):
                    data = v.read()
                    v.close()
                    return ('handle', data, e, t), 'RVal (FHandleOn %s) %s %s' % (fw.cbytes(data), fw.copt(tticks(e)), tag_term(t))
                return (v, e, t), 'RVal %s %s %s' % (res_term_value(v), fw.copt(tticks(e)), tag_term(t))
            if op == 'contains':
                r = g(a['k']) in c
                return r, 'RBool %s' % fw.cbool(r)
            if op == 'pop':
                r = c.pop(g(a['k']), default=SENT, expire_time=True, tag=True)
                if r[0] is SENT:
                    return 'default', 'RDefault'
                v, e, t = r
                return (v, e, t), 'RVal %s %s %s' % (res_term_value(v), fw.copt(tticks(e)), tag_term(t))
            if op == 'delete':
                r = c.delete(g(a['k']))
                return r, 'RBool %s' % fw.cbool(r)
            if op == 'delitem':
                del c[g(a['k'])]
                return True, 'RBool true'
            if op == 'push':
                v, read = vget(a['v'])
                r = c.push(v, prefix=a.get('prefix'), side=a.get('side', 'back'), expire=a.get('expire'), read=read, tag=a.get('tag'))
                return r, 'RKey %s' % val.sql_term(r)
            if op in ('pull', 'peek'):
                r = getattr(c, op)(prefix=a.get('prefix'), default=(SENT, SENT), side=a.get('side', 'front'), expire_time=True, tag=True)
                (k, v), e, t = r
                if k is SENT:
                    return 'default', 'RDefault'
                return ((k, v), e, t), 'RKV %s true %s %s %s' % (val.sql_term(k), res_term_value(v), fw.copt(tticks(e)), tag_term(t))
            if op == 'peekitem':
                (k, v), e, t = c.peekitem(last=a.get('last', True), expire_time=True, tag=True)
                kt, raw = key_term(disk, k)
                return ((k, v), e, t), 'RKV %s %s %s %s %s' % (kt, fw.cbool(raw), res_term_value(v), fw.copt(tticks(e)), tag_term(t))
            if op == 'evict':
                r = c.evict(a.get('tag'))
                return r, 'RInt %s' % fw.cz(r)
            if op == 'expire':
                r = c.expire()
                return r, 'RInt %s' % fw.cz(r)
            if op == 'cull':
                r = c.cull()
                return r, 'RInt %s' % fw.cz(r)
            if op == 'clear':
                r = c.clear()
                return r, 'RInt %s' % fw.cz(r)
            if op == 'len':
                r = len(c)
                return r, 'RInt %s' % fw.cz(r)
            if op in ('iter', 'reversed'):
                ks = list(c) if op == 'iter' else list(reversed(c))
                return ks, 'RKeys %s' % fw.clist(['(%s, %s)' % (lambda t: (t[0], fw.cbool(t[1])))(key_term(disk, k)) for k in ks])
            if op == 'iterkeys':
                ks = list(c.iterkeys(reverse=a.get('reverse', False)))
                return ks, 'RKeys %s' % fw.clist(['(%s, %s)' % (lambda t: (t[0], fw.cbool(t[1])))(key_term(disk, k)) for k in ks])
            if op == 'stats':
                r = c.stats(enable=a.get('enable', True), reset=a.get('reset', False))
                return r, 'RStats %s %s' % (fw.cz(r[0]), fw.cz(r[1]))
            raise ValueError('unknown op ' + op)
        except KeyError as e:
            if e.args and e.args[0] == 'dictionary is empty':
                return ('raise', 'KeyError-empty'), 'RRaise EEmpty'
            return ('raise', 'KeyError'), 'RRaise EKeyError'
        except TypeError:
            return ('raise', 'TypeError'), 'RRaise ETypeError'
        except OverflowError:
            return ('raise', 'OverflowError'), 'RRaise EOverflow'
        except UnicodeEncodeError:
            return ('raise', 'UnicodeEncodeError'), 'RRaise EStore'

    def run(self, history):
        tr = Trace()
        with instr.Installed(self.clock):
            self.open()
            for i, item in enumerate(history):
                self.clock.set(item['now'])
                del self.vols[:]
                res, term = self.call(item)
                rec = {'item': item, 'res': res, 'term': term, 'vols': list(self.vols)}
                if self.observe_every and (i % self.observe_every == 0 or i == len(history) - 1):
                    rec['obs'] = observe(self.dir)
                tr.calls.append(rec)
            self.close()
        return tr


# ---------------------------------------------------------------------------
# rendering to Coq


def op_term(r, item):
    a = item['args']
    op = item['op']
    o = r.objs

    def K(i):
        return val.py_term(o[i])

    def E(x):
        return fw.copt(tticks(x))

    def P(p):
        return 'None' if p is None else '(Some %s)' % fw.cstr(p)

    def S(s):
        return 'Back' if s == 'back' else 'Front'
    if op in ('set', 'add'):
        return '(%s %s %s %s %s %s)' % ('OSet' if op == 'set' else 'OAdd', K(a['k']), K(a['v']),
                                       fw.cbool(isinstance(o[a['v']], Stream)), E(a.get('expire')), tag_term(a.get('tag')))
    if op == 'touch':
        return '(OTouch %s %s)' % (K(a['k']), E(a.get('expire')))
    if op == 'incr':
        return '(OIncr %s %s %s)' % (K(a['k']), fw.cz(a['delta']), fw.copt(a['default']))
    if op == 'get':
        return '(OGet %s %s)' % (K(a['k']), fw.cbool(a.get('read', False)))
    if op == 'contains':
        return '(OContains %s)' % K(a['k'])
    if op == 'pop':
        return '(OPop %s)' % K(a['k'])
    if op == 'delete':
        return '(ODelete %s false)' % K(a['k'])
    if op == 'delitem':
        return '(ODelete %s true)' % K(a['k'])
    if op == 'push':
        return '(OPush %s %s %s %s %s %s)' % (K(a['v']), fw.cbool(isinstance(o[a['v']], Stream)), P(a.get('prefix')),
                                             S(a.get('side', 'back')), E(a.get('expire')), tag_term(a.get('tag')))
    if op in ('pull', 'peek'):
        return '(%s %s %s)' % ('OPull' if op == 'pull' else 'OPeek', P(a.get('prefix')), S(a.get('side', 'front')))
    if op == 'peekitem':
        return '(OPeekitem %s)' % fw.cbool(a.get('last', True))
    if op == 'evict':
        return '(OEvict %s)' % tag_term(a.get('tag'))
    if op == 'expire':
        return 'OExpire'
    if op == 'cull':
        return 'OCull'
    if op == 'clear':
        return 'OClear'
    if op == 'len':
        return 'OLen'
    if op == 'iter':
        return '(OIter true)'
    if op == 'reversed':
        return '(OIter false)'
    if op == 'iterkeys':
        return '(OIterkeys %s)' % fw.cbool(a.get('reverse', False))
    if op == 'stats':
        return '(OStats %s %s)' % (fw.cbool(a.get('enable', True)), fw.cbool(a.get('reset', False)))
    raise ValueError(op)


def obs_term(obs):
    rows, sets, files = obs
    out = []
    for (rowid, key, raw, st_, et, at, ac, tag, size, mode, filename, value) in rows:
        if isinstance(key, memoryview):
            key = bytes(key)
        fc = 'None'
        if filename is not None:
            data = files.get(filename)
            if data is not None:
                fc = ('(Some (FText %s))' % fw.cstr(data.decode('utf-8', 'surrogatepass'))) if mode == 3 else '(Some (FBytes %s))' % fw.cbytes(data)
        out.append('({| rowid := %s; rkey := %s; rraw := %s; store_time := %s; expire_time := %s; access_time := %s; '
                   'access_count := %s; rtag := %s; rsize := %s; rmode := %s; rfile := %s; rvalue := %s |}, %s)' % (
                       fw.cz(rowid), val.sql_term(key), fw.cbool(bool(raw)), fw.cz(tticks(st_)), fw.copt(tticks(et)), fw.cz(tticks(at)),
                       fw.cz(ac), val.sql_term(tag), fw.cz(size), fw.cz(mode), 'None' if filename is None else '(Some 0)',
                       val.sql_term(value), fc))
    return ('(Some {| o_rows := %s; o_count := %s; o_size := %s; o_hits := %s; o_misses := %s; o_nfiles := %s |})'
            % (fw.clist(out), fw.cz(sets['count']), fw.cz(sets['size']), fw.cz(sets['hits']), fw.cz(sets['misses']), fw.cz(len(files))))


def codec_tables(r, cfg):
    tk, tv = [], []
    seen = set()
    for o in r.objs:
        if isinstance(o, Stream):
            continue
        t = val.py_term(o)
        if t in seen:
            continue
        seen.add(t)
        try:
            pk = pickletools.optimize(pickle.dumps(o, protocol=cfg.protocol))
            pv = pickle.dumps(o, protocol=cfg.protocol)
        except Exception:
            continue
        tk.append('(%s, %s)' % (t, fw.cbytes(pk)))
        tv.append('(%s, %s)' % (t, fw.cbytes(pv)))
    return fw.clist(tk), fw.clist(tv)


def extra_codec_values(tr):
    """ints produced by incr are stored through Disk.store too; they are native so need no pickle."""
    return []


def history_check_term(r, tr, cfg):
    """Coq term: run_cmp cfg init_st 0 [calls] (evaluates to the index of the first mismatch or -1)."""
    tk, tv = codec_tables(r, cfg)
    calls = []
    for rec in tr.calls:
        obs = obs_term(rec['obs']) if 'obs' in rec else 'None'
        calls.append('{| c_op := %s; c_now := %s; c_vols := %s; c_res := %s; c_obs := %s |}' % (
            op_term(r, rec['item']), fw.cz(tticks(rec['item']['now'])), fw.czlist(rec['vols']), rec['term'], obs))
    cfgt = ('{| c_policy := %s; c_size_limit := %s; c_cull_limit := %s; c_min_file_size := %s; c_codec := mk_codec %s %s |}'
            % (POLICY[cfg.policy], fw.cz(cfg.size_limit), fw.cz(cfg.cull_limit), fw.cz(cfg.min_file_size), tk, tv))
    init = 'set_stats init_st 0 0 %s' % fw.cbool(cfg.statistics)
    return 'run_cmp %s (%s) 0 %s' % (cfgt, init, fw.clist(calls))


IMPORTS = ['DCPrelude', 'Val', 'DiskBase', 'SqlBase', 'Gen_Disk', 'Disk', 'Gen_Sql', 'Cache', 'CacheRun']


def model_first_mismatch(name, terms, chunk=8):
    """terms: list of `run_cmp ...` terms.  Returns (list of first-mismatch indices (-1 = agree), errors)."""
    from concurrent.futures import ThreadPoolExecutor

    def one(start):
        part = terms[start:start + chunk]
        body = 'Definition results : list Z := [\n' + ';\n'.join('  (%s)' % t for t in part) + '].\nEval vm_compute in results.\n'
        rc, out = fw.coq_eval('%s_%d' % (name, start), body, IMPORTS)
        if rc != 0:
            return start, None, out[-1500:]
        res = fw.parse_eval_lists(out)
        if not res:
            return start, None, 'no result: ' + out[-500:]
        return start, fw.parse_z_list(res[-1]), None
    out = [None] * len(terms)
    errors = []
    with ThreadPoolExecutor(max_workers=12) as ex:
        for start, vals, e in ex.map(one, list(range(0, len(terms), chunk))):
            if e:
                errors.append(e)
                continue
            for i, v in enumerate(vals):
                out[start + i] = v
    return out, errors
