"""Schedule correspondence (DESIGN.md 4.2, driver 1): the micro-step machine of coq/model/Conc.v, instantiated
with the real transaction bodies (coq/model/Txn.v), is run under the SAME schedule as the instrumented
implementation (coq/model/ConcRun.v: sched_check).

For one run of concdrv.run_program (n client threads under the deterministic scheduler, clock frozen) this
module builds the Coq term

    sched_check cfg init_st setup programs events outcomes final

where `events` is the merged scheduler log reduced to the visible tags of the machine (tracecorr.call_tags),
`outcomes` what every call returned and `final` the rows, counters and files found on disk afterwards.  The
term evaluates to -1 iff the machine can take exactly those visible steps in that order (so BEGIN finds the
lock free or busy exactly when SQLite did, files are created / removed at the same points), every client ends
with the same results, and the committed state is the one on disk.
"""
import fw
import seqdrv
import tracecorr
import val

IMPORTS = ['DCPrelude', 'Val', 'DiskBase', 'SqlBase', 'Gen_Disk', 'Disk', 'Gen_Sql', 'Cache', 'CacheRun', 'Conc', 'Txn', 'TxnQueue', 'TxnBlock', 'ConcRun']
OPS = ('set', 'add', 'incr', 'decr', 'get', 'pop', 'delete', 'touch', 'contains', 'setitem', 'delitem', 'push', 'pull', 'peek')
QUEUE_OPS = ('push', 'pull', 'peek')
MISS = '<miss>'
EXN = {'KeyError': 'EKeyError', 'TypeError': 'ETypeError', 'OverflowError': 'EOverflow'}


def plain(v):
    return isinstance(v, str) or (isinstance(v, int) and not isinstance(v, bool) and abs(v) < 2 ** 62)


def supported(programs, setup):
    for c in list(setup or []) + [c for p in programs for c in p]:
        if c['op'] not in OPS:
            return False
        if not plain(c.get('key', 'a')):
            return False
        if 'value' in c and not plain(c['value']):
            return False
        if c.get('tag') is not None or c.get('meta'):
            return False
        if c['op'] in QUEUE_OPS:
            if not (c.get('prefix') is None or isinstance(c.get('prefix'), str)):
                return False
            if c.get('side', 'back') not in ('back', 'front'):
                return False
            if c.get('expire') is not None:
                return False      # an expired head makes pull / peek open a second transaction: outside the instance (model/TxnQueue.v)
    return True


def stored_inline(v, settings):
    """Disk.store keeps ints (int64) and short strings in the row; everything else goes to a file."""
    if isinstance(v, int) and not isinstance(v, bool):
        return -2 ** 63 <= v < 2 ** 63
    if isinstance(v, str):
        return len(v) < dict(settings or {}).get('disk_min_file_size', 2 ** 15)
    return False


def peek_inline_only(programs, setup, settings):
    """The machine instance covers peek only when the head it finds is stored inline (a file-backed head is read after
    COMMIT without being removed: model/TxnQueue.v).  True iff every push to a prefix that some call peeks at stores
    its value inline."""
    calls = list(setup or []) + [c for p in programs for c in p]
    peeked = set(c.get('prefix') for c in calls if c['op'] == 'peek')
    return all(stored_inline(c['value'], settings) for c in calls if c['op'] == 'push' and c.get('prefix') in peeked)


def ticks(x):
    return None if x is None else seqdrv.tticks(x)


def op_term(c):
    op = c['op']
    K = val.py_term(c.get('key'))
    E = fw.copt(ticks(c.get('expire')))
    if op in ('set', 'add'):
        return '(%s %s %s false %s SNull)' % ('OSet' if op == 'set' else 'OAdd', K, val.py_term(c['value']), E)
    if op == 'setitem':
        return '(OSet %s %s false None SNull)' % (K, val.py_term(c['value']))
    if op == 'delitem':
        return '(ODelete %s true)' % K
    if op == 'touch':
        return '(OTouch %s %s)' % (K, E)
    if op in ('incr', 'decr'):
        d = c.get('delta', 1)
        return '(OIncr %s %s %s)' % (K, fw.cz(d if op == 'incr' else -d), fw.copt(c.get('default', 0)))
    if op == 'get':
        return '(OGet %s false)' % K
    if op == 'contains':
        return '(OContains %s)' % K
    if op == 'pop':
        return '(OPop %s)' % K
    if op == 'delete':
        return '(ODelete %s false)' % K
    if op in QUEUE_OPS:
        P = 'None' if c.get('prefix') is None else '(Some %s)' % fw.cstr(c['prefix'])
        if op == 'push':
            return '(OPush %s false %s %s %s SNull)' % (val.py_term(c['value']), P, 'Back' if c.get('side', 'back') == 'back' else 'Front', E)
        return '(%s %s %s)' % ('OPull' if op == 'pull' else 'OPeek', P, 'Front' if c.get('side', 'front') == 'front' else 'Back')
    raise ValueError(op)


def call_term(c, now):
    retry = True if c['op'] in ('setitem', 'delitem') else bool(c.get('retry', False))     # cache[k] = v and del cache[k] retry
    return '{| cc_op := %s; cc_retry := %s; cc_now := %s; cc_pg := 0 |}' % (op_term(c), fw.cbool(retry), fw.cz(ticks(now)))


def seen_term(rec):
    if 'exc' in rec:
        if rec['exc'] == 'Timeout':
            return 'XTimeout'
        return 'XRes (RRaise %s)' % EXN.get(rec['exc'], 'EStore')
    op = rec['op']
    r = rec.get('result')
    if op in ('setitem', 'delitem'):
        return 'XRes (RBool true)'
    if op in ('set', 'add', 'touch', 'delete', 'contains'):
        return 'XRes (RBool %s)' % fw.cbool(bool(r))
    if op == 'push':
        return 'XRes (RKey %s)' % val.sql_term(r)               # the key of the inserted row (int, or 'prefix-<15 digits>')
    if op in ('pull', 'peek'):
        if r == MISS or r == '<MISS>':
            return 'XRes RDefault'
        k, v = r
        return 'XRes (RKV %s true %s None SNull)' % (val.sql_term(k), seqdrv.res_term_value(v))
    if r == MISS or r == '<MISS>' or (isinstance(r, str) and r.startswith('<') and 'miss' in r.lower()):
        return 'XRes RDefault'
    return 'XRes (RVal %s None SNull)' % seqdrv.res_term_value(r)


def build(r, programs, setup, settings, now=1000.0):
    """r: result of concdrv.run_program(..., sleep_advances=False).  Returns (term, info) or (None, reason)."""
    if not supported(programs, setup):
        return None, 'unsupported-op'
    if not peek_inline_only(programs, setup, settings):
        return None, 'peek-file-backed'
    if r.get('overflow') or any(e is not None for e in r.get('errors', [])):
        return None, 'run-incomplete'
    n = len(programs)
    log = r['raw_log']
    positions = [[] for _ in range(n)]
    for step, (cid, what, _) in enumerate(log):
        positions[cid].append(step)
    merged = []
    seen = []
    for i in range(n):
        recs = r['calls'][i]
        if len(recs) != len(programs[i]):
            return None, 'run-incomplete'
        row = []
        for rec in recs:
            if rec.get('skipped') or rec.get('pending'):
                return None, 'run-incomplete'
            e0, e1 = rec.get('e0', 0), rec['e1']
            mine = positions[i][e0:e1]
            evs = [tuple(log[p][1].split(':', 1)) for p in mine]
            for seq, (tag, idx) in enumerate(tracecorr.call_tags(evs, timed_out=(rec.get('exc') == 'Timeout'), with_index=True)):
                merged.append((mine[idx], len(merged), i, tag))
            row.append(seen_term(rec))
        seen.append(row)
    merged.sort()
    events = fw.clist(['(%d%%nat, %s)' % (i, tag) for (_, _, i, tag) in merged])
    s = dict(settings or {})
    cfg = ('{| c_policy := %s; c_size_limit := %s; c_cull_limit := %s; c_min_file_size := %s; c_codec := mk_codec [] [] |}'
           % (seqdrv.POLICY[s.get('eviction_policy', 'least-recently-stored')], fw.cz(s.get('size_limit', 2 ** 30)),
              fw.cz(s.get('cull_limit', 10)), fw.cz(s.get('disk_min_file_size', 2 ** 15))))
    term = 'sched_check %s init_st %s %s %s %s %s' % (
        cfg,
        fw.clist([call_term(c, now) for c in (setup or [])]),
        fw.clist([fw.clist([call_term(c, now) for c in p]) for p in programs]),
        events,
        fw.clist([fw.clist(row) for row in seen]),
        seqdrv.obs_term(r['final'])[len('(Some '):-1])
    return term, {'events': [(i, tag) for (_, _, i, tag) in merged], 'seen': seen}


def cfg_term(settings):
    s = dict(settings or {})
    return ('{| c_policy := %s; c_size_limit := %s; c_cull_limit := %s; c_min_file_size := %s; c_codec := mk_codec [] [] |}'
            % (seqdrv.POLICY[s.get('eviction_policy', 'least-recently-stored')], fw.cz(s.get('size_limit', 2 ** 30)),
               fw.cz(s.get('cull_limit', 10)), fw.cz(s.get('disk_min_file_size', 2 ** 15))))


def build_crash(k, program, setup, settings, obs, now=1000.0, setup_now=900.0):
    """k: result of concdrv.kill_child (one client killed before one of its events); obs: seqdrv.observe of the
    directory right after the kill.  Returns (term, info) or (None, reason)."""
    if not supported([program], setup):
        return None, 'unsupported-op'
    if any(c.get('expire') is not None and c['op'] not in ('set', 'add', 'touch') for c in program):
        return None, 'unsupported-op'
    if not peek_inline_only([program], setup, settings):
        return None, 'peek-file-backed'
    events = list(k['events'])          # the events that executed (the one the kill landed before is k['kill_event'])
    recs = sorted(k['records'], key=lambda r: r['index'])
    merged, seen = [], []
    for rec in recs:
        if rec.get('skipped'):
            return None, 'run-incomplete'
        evs = [tuple(e.split(':', 1)) for e in events[rec.get('e0', 0):rec['e1']]]
        merged += tracecorr.call_tags(evs, timed_out=(rec.get('exc') == 'Timeout'))
        seen.append(seen_term(dict(rec, op=program[rec['index']]['op'])))
    inflight = False
    if k.get('started') is not None and k.get('started_e0') is not None and k['started'] not in [r['index'] for r in recs]:
        evs = [tuple(e.split(':', 1)) for e in events[k['started_e0']:]]
        merged += tracecorr.call_tags(evs)
        inflight = True
    term = 'crash_check %s init_st %s %s %s %s %s %s' % (
        cfg_term(settings), fw.clist([call_term(c, setup_now) for c in (setup or [])]), fw.clist([call_term(c, now) for c in program]),
        fw.clist(['(0%%nat, %s)' % t for t in merged]), fw.clist(seen), fw.cbool(inflight), seqdrv.obs_term(obs)[len('(Some '):-1])
    return term, {'events': [(0, t) for t in merged], 'seen': [seen]}


BLOCK_OPS = ('begin_block', 'end_block', 'raise_in_block')
WRITES = ('set', 'add', 'incr', 'decr', 'pop', 'delete', 'touch', 'setitem', 'delitem')


def build_block(r, program, setup, settings, now=1000.0):
    """One client whose program contains transact blocks (r: concdrv.run_program with ONE client, clock frozen).
    Returns (term for ConcRun.block_check, info) or (None, reason)."""
    flat = [c for c in program if c['op'] not in BLOCK_OPS]
    if not supported([flat], setup):
        return None, 'unsupported-op'
    if r.get('overflow') or any(e is not None for e in r.get('errors', [])):
        return None, 'run-incomplete'
    log = r['raw_log']
    recs = r['calls'][0]
    pos = [i for i, (cid, _, _) in enumerate(log) if cid == 0]
    items, tags, seen = [], [], []
    block = None
    for rec in recs:
        if rec.get('pending'):
            return None, 'run-incomplete'
        op = rec['op']
        evs = [tuple(log[p][1].split(':', 1)) for p in pos[rec.get('e0', 0):rec['e1']]] if not rec.get('skipped') else []
        if block is None and op == 'begin_block' and not rec.get('skipped'):
            if rec.get('exc'):
                return None, 'block-not-opened'
            block = {'retry': bool(rec['call'].get('retry', True)), 'inner': [], 'events': list(evs), 'depth': 1}
            continue
        if block is not None:
            if rec.get('skipped'):
                continue
            block['events'] += evs
            if op == 'begin_block':
                block['depth'] += 1
            elif op == 'end_block':
                block['depth'] -= 1
            elif op == 'raise_in_block' and rec.get('result') == 'raised-and-caught':
                block['depth'] -= 1
            elif op not in BLOCK_OPS:
                if op not in WRITES:
                    return None, 'lookup-inside-block'
                if 'value' in rec['call'] and not stored_inline(rec['call']['value'], settings):
                    return None, 'file-created-inside-block'
                block['inner'].append(rec)
            closed = (op == 'end_block' and block['depth'] == 0) or (op == 'raise_in_block' and rec.get('result') == 'raised')
            if closed:
                raises = op == 'raise_in_block'
                items.append('(BB %s %s %s)' % (fw.cbool(block['retry']), fw.clist([call_term(q['call'], now) for q in block['inner']]), fw.cbool(raises)))
                tags += tracecorr.call_tags(block['events'])
                seen.append(seen_term(block['inner'][-1]) if block['inner'] else 'XRes (RBool true)')
                block = None
            continue
        if rec.get('skipped') or op in BLOCK_OPS:
            continue
        items.append('(BI %s)' % call_term(rec['call'], now))
        tags += tracecorr.call_tags(evs, timed_out=(rec.get('exc') == 'Timeout'))
        seen.append(seen_term(rec))
    if block is not None:
        return None, 'block-not-closed'
    term = 'block_check %s init_st %s %s %s %s %s' % (
        cfg_term(settings), fw.clist([call_term(c, now) for c in (setup or [])]), fw.clist(items),
        fw.clist(['(0%%nat, %s)' % t for t in tags]), fw.clist(seen), seqdrv.obs_term(r['final'])[len('(Some '):-1])
    return term, {'events': [(0, t) for t in tags], 'seen': [seen]}


def evaluate(name, terms, chunk=40):
    """-> (codes, errors): sched_check result per term (-1 = agreement)"""
    from concurrent.futures import ThreadPoolExecutor

    def one(start):
        part = terms[start:start + chunk]
        body = 'Definition results : list Z := [\n' + ';\n'.join('  (%s)' % t for t in part) + '].\nEval vm_compute in results.\n'
        rc, out = fw.coq_eval('%s_%d' % (name, start), body, IMPORTS)
        if rc != 0:
            return start, None, out[-1500:]
        res = fw.parse_eval_lists(out)
        if not res:
            return start, None, 'no result: ' + out[-500:]
        return start, fw.parse_z_list(res[-1]), None
    out = [None] * len(terms)
    errors = []
    with ThreadPoolExecutor(max_workers=12) as ex:
        for start, vals, e in ex.map(one, list(range(0, len(terms), chunk))):
            if e:
                errors.append(e)
                continue
            for i, v in enumerate(vals):
                out[start + i] = v
    return out, errors


def explain(code, info):
    if code == -1:
        return 'agree'
    if code == -2:
        return 'a call is outside the instance of the machine'
    if code == -100:
        return 'the committed rows, counters or value files on disk differ from the machine state'
    if code is not None and code <= -3:
        return 'client %d did not finish with the results the implementation returned (%s)' % (-3 - code, info['seen'][-3 - code])
    if code is None:
        return 'evaluation failed'
    ev = info['events']
    return 'event %d (client %d, %s) is not the next visible step of the machine; preceding events: %s' % (
        code, ev[code][0], ev[code][1], ev[max(0, code - 6):code])
