"""Outside-in instrumentation of diskcache (no change to /repo): module globals of diskcache.core
(and recipes) are replaced from the harness.  DESIGN.md section 4.2."""
import os
import shutil
import sys
import tempfile
import types

import fw

if fw.REPO not in sys.path:
    sys.path.insert(0, fw.REPO)

import diskcache  # noqa: E402
import diskcache.core as core  # noqa: E402
import diskcache.recipes as recipes  # noqa: E402
import diskcache.fanout as fanout  # noqa: E402

assert os.path.realpath(os.path.dirname(os.path.dirname(core.__file__))) == os.path.realpath(fw.REPO), \
    'diskcache imported from %s, expected %s' % (core.__file__, fw.REPO)

import time as _real_time  # noqa: E402


class Clock:
    """Virtual clock: time() returns self.now; sleep() advances it (and calls on_sleep)."""

    def __init__(self, now=1000.0):
        self.now = float(now)
        self.on_sleep = None
        self.sleeps = 0

    def time(self):
        return self.now

    def sleep(self, d):
        self.sleeps += 1
        if self.on_sleep is not None:
            self.on_sleep(d)
        else:
            self.now += d

    def set(self, t):
        self.now = float(t)

    def advance(self, d):
        self.now += d

    # anything else (time.monotonic, ...) falls through to the real module
    def __getattr__(self, name):
        return getattr(_real_time, name)


class Installed:
    """Context manager installing a Clock into diskcache.core / recipes / fanout (FanoutCache.expire reads the clock itself and hands the
    reading to its shards) and optionally more."""

    def __init__(self, clock=None, extra_modules=()):
        self.clock = clock or Clock()
        self.mods = []
        for m in [core, recipes, fanout] + list(extra_modules):
            if not any(m is x for x in self.mods):
                self.mods.append(m)
        self.saved = []

    def __enter__(self):
        for m in self.mods:
            self.saved.append((m, m.time))
            m.time = self.clock
        return self.clock

    def __exit__(self, *a):
        for m, t in self.saved:
            m.time = t
        self.saved = []


def grid(t):
    """Clock/ttl values used by the harness are multiples of 2**-10 below 2**40 (exact in binary64)."""
    return float(t) * 1024 == int(float(t) * 1024) and abs(t) < 2 ** 40


def ticks(t):
    return None if t is None else int(round(float(t) * 1024))
