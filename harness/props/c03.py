"""C03 -- a single client sees an exact dictionary with expiry, tags and statistics."""
import itertools
import pickle

import callguard
import fw
import gen_hist
import instr
import seqdrv
import val
from instr import core, diskcache
from props.c02 import expected_same
from val import Stream

ID = 'C03'
COQ_PROP = 'C03'
LEVEL = 'proof'
TRANSLATE = ['sql', 'disk', 'fanout']
TRUSTED = [
    'coq/base/SqlBase.v + Val.v (relational reading of the SQL subset, SQLite value order) and the SQL-to-combinator compiler; the hand-written control skeleton of coq/model/Cache.v, pinned to core.py by the translator templates and compared with the table after every call',
    'reference dictionary of the monitor (harness/props/c03.py RefDict), written from the property text',
]
ASSUMPTIONS = ['one client; the clock is frozen during a call', 'iterators are consumed immediately (mutation between pages of an open iterator is out of scope)',
               'ordinary numeric keys inside (0, 999999999999999) are queue members by design and are kept out of histories that push with prefix None',
               'histories with integer values outside SQLite\'s signed 64-bit range contain no incr (such a counter is outside the row model, like float counters)',
               'get / pop / peekitem with fewer than both of their expire_time / tag flags: reference dictionary and table only (the row model returns value, expiry and tag)']


class RefDict:
    """A dictionary whose items carry an expiry time and a tag, with hit/miss statistics; insertion
    ordered.  Physical removal of expired items is lazy in the implementation, so the reference keeps
    expired items until told (by `sync`) that they are gone, after checking that their removal was legal."""

    def __init__(self, statistics):
        self.items = []          # [key, value, exp, tag] in insertion order
        self.hits = 0
        self.misses = 0
        self.stats_on = statistics

    def find(self, key):
        for it in self.items:
            if expected_same(it[0], key):
                return it
        return None

    def live(self, it, now):
        return it is not None and (it[2] is None or now < it[2])

    def set(self, key, value, exp, tag):
        it = self.find(key)
        if it is None:
            self.items.append([key, value, exp, tag])
        else:
            it[1], it[2], it[3] = value, exp, tag


class Malformed:
    """what a call handed back (or raised) when it is nothing a dictionary with expiry and tags can answer to that call"""

    def __init__(self, text):
        self.text = text

    def __repr__(self):
        return '<unexpected: %s>' % self.text


class _NotAsked:
    """the part of a result (expiry time / tag) the call did not ask for: equal to whatever the reference holds"""

    def __eq__(self, other):
        return True

    def __ne__(self, other):
        return False

    __hash__ = None

    def __repr__(self):
        return '<not asked>'


NA = _NotAsked()
SENT = seqdrv.SENT
CALL_SECONDS = 30          # wall time after which a single API call is taken not to return
_HANGS = [0]


def _flag_shape(r, et, tg, pair):
    """The documented shape of a lookup result for the flags: value | (value, expire_time) | (value, tag) | (value, expire_time, tag), where
    `value` is a (key, value) pair for peekitem.  -> (value, expire_time or NA, tag or NA), or Malformed"""
    n = 1 + int(bool(et)) + int(bool(tg))
    if n == 1:
        v, e, t = r, NA, NA
    else:
        if type(r) is not tuple or len(r) != n:
            return Malformed('%s where a %d-tuple (value%s%s) is documented' % ('the bare default' if r is SENT else repr(r), n,
                                                                                   ', expire_time' if et else '', ', tag' if tg else ''))
        v = r[0]
        e = r[1] if et else NA
        t = r[-1] if tg else NA
    if pair and (type(v) is not tuple or len(v) != 2):
        return Malformed('%r where a (key, value) pair is documented' % (v,))
    return v, e, t


class Runner(seqdrv.Runner):
    """the sequential driver; additionally (1) get / pop / peekitem items may carry 'et' / 'tg' (the expire_time / tag flags of the call;
    the shared driver always passes both), and (2) whatever a call does that the driver cannot read as a result of that call -- a result of
    an undocumented shape, an exception no dictionary raises -- is recorded as Malformed instead of ending the run."""

    def call(self, item):
        try:
            with callguard.bounded(CALL_SECONDS if _HANGS[0] < 2 else 2, item['op']):       # (after two such calls the limit drops: every one costs its limit)
                return self.call_unbounded(item)
        except callguard.CallDidNotReturn:
            _HANGS[0] += 1
            return Malformed('the call did not return within %d s of wall time' % CALL_SECONDS), 'RRaise EStore'

    def call_unbounded(self, item):
        a, op = item['args'], item['op']
        try:
            if op in ('get', 'pop', 'peekitem') and ('et' in a or 'tg' in a):
                return self.flag_call(item), 'RDefault'          # (monitor only: these histories are not rendered for the model)
            if op in ('get', 'pop', 'peekitem'):
                # the shared driver's call with both flags, its result read through the shape check; same result and model term as the shared driver
                r = self.flag_call({'op': op, 'args': dict(a, et=True, tg=True)})
                if isinstance(r, Malformed):
                    return r, 'RRaise EStore'
                if r == 'default':
                    return r, 'RDefault'
                if len(r) == 2 and r[0] == 'raise':
                    return r, {'KeyError-empty': 'RRaise EEmpty', 'KeyError': 'RRaise EKeyError'}[r[1]]
                if len(r) == 4 and r[0] == 'handle':
                    return r, 'RVal (FHandleOn %s) %s %s' % (fw.cbytes(r[1]), fw.copt(seqdrv.tticks(r[2])), seqdrv.tag_term(r[3]))
                v, e, t = r
                if op == 'peekitem':
                    kt, raw = seqdrv.key_term(self.cache.disk, v[0])
                    return r, 'RKV %s %s %s %s %s' % (kt, fw.cbool(raw), seqdrv.res_term_value(v[1]), fw.copt(seqdrv.tticks(e)), seqdrv.tag_term(t))
                return r, 'RVal %s %s %s' % (seqdrv.res_term_value(v), fw.copt(seqdrv.tticks(e)), seqdrv.tag_term(t))
            return seqdrv.Runner.call(self, item)
        except Exception as e:  # noqa
            return Malformed('%s: %s' % (type(e).__name__, str(e)[:200])), 'RRaise EStore'

    def flag_call(self, item):
        c, a, op = self.cache, item['args'], item['op']
        et, tg = bool(a.get('et')), bool(a.get('tg'))
        try:
            if op == 'peekitem':
                r = _flag_shape(c.peekitem(last=a.get('last', True), expire_time=et, tag=tg), et, tg, True)
                return r
            key = self.objs[a['k']]
            if op == 'get':
                r = c.get(key, default=SENT, read=a.get('read', False), expire_time=et, tag=tg)
            else:
                r = c.pop(key, default=SENT, expire_time=et, tag=tg)
            r = _flag_shape(r, et, tg, False)
            if isinstance(r, Malformed):
                return r
            v, e, t = r
            if v is SENT:
                if (et and e is not None) or (tg and t is not None):
                    return Malformed('default with expire_time %r, tag %r' % (e, t))
                return 'default'
            if a.get('read') and hasattr(v, 'read'):
                data = v.read()
                v.close()
                return ('handle', data, e, t)
            return (v, e, t)
        except KeyError as e:
            if e.args and e.args[0] == 'dictionary is empty':
                return ('raise', 'KeyError-empty')
            return ('raise', 'KeyError')


def value_of(runner, idx):
    v = runner.objs[idx]
    return v.data if isinstance(v, Stream) else v


def check_trace(runner, tr, cfg, stats, counting_get):
    """Three-way comparison, implementation side: every result against the reference dictionary, and the
    table after every call against the reference contents (every disappearance must be explained)."""
    ref = RefDict(cfg.statistics)
    disk = diskcache.Disk(runner.dir, min_file_size=cfg.min_file_size, pickle_protocol=cfg.protocol)
    viol = []
    at_limit_possible = cfg.policy != 'none'
    for i, rec in enumerate(tr.calls):
        item, r = rec['item'], rec['res']
        op, a, now = item['op'], item['args'], item['now']
        rows = rec['obs'][0]
        key = runner.objs[a['k']] if 'k' in a else None
        it = ref.find(key) if 'k' in a else None
        live = ref.live(it, now)
        exp = None
        if a.get('expire') is not None:
            exp = now + a['expire']
        bad = None
        explicit = set()        # reference items this call may remove explicitly
        if isinstance(r, Malformed):
            flags = ''.join(', %s=%r' % (nm, bool(a[fl])) for fl, nm in (('et', 'expire_time'), ('tg', 'tag')) if fl in a)
            viol.append(('unexpected_result:%s' % op, '%s(%s%s)%s: %s' % (
                op, repr(key) if 'k' in a else '', flags or (', expire_time=True, tag=True' if op in ('get', 'pop', 'peekitem') else ''),
                ' on %s key' % ('a live' if live else 'an expired' if it is not None else 'an absent') if 'k' in a else '', r.text), i))
            break
        if op == 'set':
            ref.set(key, value_of(runner, a['v']), exp, a.get('tag'))
            if r is not True:
                bad = 'set returned %r' % (r,)
        elif op == 'add':
            if live:
                if r is not False:
                    bad = 'add on a live key returned %r' % (r,)
            else:
                ref.set(key, value_of(runner, a['v']), exp, a.get('tag'))
                if r is not True:
                    bad = 'add on an absent/expired key returned %r' % (r,)
        elif op == 'get':
            if live:
                want = (it[1], it[2], it[3])
                if r == 'default':
                    bad = 'get missed a live item'
                elif r[0] == 'handle':
                    if not (isinstance(it[1], bytes) and r[1] == it[1] and r[2] == it[2] and r[3] == it[3]):
                        bad = 'get(read=True) returned %r, reference %r' % (r, want)
                elif not (val.same(r[0], it[1]) and r[1] == it[2] and r[2] == it[3]):
                    bad = 'get returned %r, reference %r' % (r, want)
            elif r != 'default':
                bad = 'get returned %r for an absent/expired key' % (r,)
            if counting_get and ref.stats_on:
                if live:
                    ref.hits += 1
                else:
                    ref.misses += 1
        elif op == 'contains':
            if r != live:
                bad = 'membership %r, reference %r' % (r, live)
        elif op == 'touch':
            if r != live:
                bad = 'touch returned %r, reference %r' % (r, live)
            if live:
                it[2] = exp
        elif op == 'incr':
            if live:
                if isinstance(it[1], int) and not isinstance(it[1], bool):
                    new = it[1] + a['delta']
                    if -2 ** 63 <= new <= 2 ** 63 - 1:
                        if r != new:
                            bad = 'incr returned %r, reference %r' % (r, new)
                        it[1] = new
                    elif r != ('raise', 'OverflowError'):
                        bad = 'incr overflow returned %r' % (r,)
                elif isinstance(it[1], float):
                    it[1] = it[1] + a['delta']
                elif r != ('raise', 'TypeError'):
                    bad = 'incr on a non-number returned %r' % (r,)
            else:
                if a['default'] is None:
                    if r != ('raise', 'KeyError'):
                        bad = 'incr on an absent key with default None returned %r' % (r,)
                else:
                    new = a['default'] + a['delta']
                    if r != new:
                        bad = 'incr on an absent key returned %r, reference %r' % (r, new)
                    ref.set(key, new, None, None)
        elif op == 'pop':
            if live:
                if r == 'default' or not (val.same(r[0], it[1]) and r[1] == it[2] and r[2] == it[3]):
                    bad = 'pop returned %r, reference %r' % (r, (it[1], it[2], it[3]))
                ref.items.remove(it)
            elif r != 'default':
                bad = 'pop returned %r for an absent/expired key' % (r,)
        elif op in ('delete', 'delitem'):
            want = live if op == 'delete' else (True if live else ('raise', 'KeyError'))
            if r != want:
                bad = '%s returned %r, reference %r' % (op, r, want)
            if live:
                ref.items.remove(it)
        elif op == 'clear':
            if r != len(ref.items):
                bad = 'clear returned %r, reference %d' % (r, len(ref.items))
            ref.items = []
        elif op == 'evict':
            tagged = [x for x in ref.items if a.get('tag') is not None and x[3] == a.get('tag')]
            if r != len(tagged):
                bad = 'evict returned %r, reference %d' % (r, len(tagged))
            ref.items = [x for x in ref.items if x not in tagged]
        elif op == 'expire':
            passed = [x for x in ref.items if x[2] is not None and x[2] < now and x[2] >= 0]
            if r != len(passed):
                bad = 'expire returned %r, reference %d' % (r, len(passed))
            ref.items = [x for x in ref.items if x not in passed]
        elif op == 'len':
            if r != len(ref.items):
                bad = 'len returned %r, reference %d' % (r, len(ref.items))
        elif op in ('iter', 'reversed'):
            want = [x[0] for x in ref.items]
            if op == 'reversed':
                want = want[::-1]
            if len(r) != len(want) or not all(val.same(x, y) for x, y in zip(r, want)):
                bad = '%s yielded %r, reference %r' % (op, r, want)
        elif op == 'iterkeys':
            if len(r) != len(ref.items) or not all(any(val.same(x, y[0]) for y in ref.items) for x in r):
                bad = 'iterkeys yielded %r, reference keys %r' % (r, [x[0] for x in ref.items])
        elif op == 'peekitem':
            # inspects one end: expired items found there are removed, the first live one is returned
            order = list(ref.items)[::-1] if a.get('last', True) else list(ref.items)
            found = None
            for x in order:
                if ref.live(x, now):
                    found = x
                    break
                ref.items.remove(x)
            if found is None:
                if r != ('raise', 'KeyError-empty'):
                    bad = 'peekitem returned %r although no live item is left' % (r,)
            elif isinstance(r, tuple) and r and r[0] == 'raise':
                bad = 'peekitem raised although %r is live' % (found[0],)
            else:
                (k_, v_), e_, t_ = r
                if not (val.same(k_, found[0]) and val.same(v_, found[1]) and e_ == found[2] and t_ == found[3]):
                    bad = 'peekitem returned %r, reference %r' % (r, tuple(found))
        elif op == 'stats':
            if r != (ref.hits, ref.misses):
                bad = 'stats returned %r, reference %r' % (r, (ref.hits, ref.misses))
            if a.get('reset'):
                ref.hits = ref.misses = 0
            ref.stats_on = a.get('enable', True)
        if bad:
            viol.append(('dict_mismatch:%s' % op, bad, i))
            break
        # physical contents: every reference item that disappeared from the table must have expired
        # (lazy removal by writes) or been evicted at the size limit; nothing else may be missing
        present = []
        for x in ref.items:
            found = any(expected_same(disk.get(row[1] if not isinstance(row[1], memoryview) else bytes(row[1]), row[2]), x[0]) for row in rows)
            if found:
                present.append(x)
            else:
                expired = x[2] is not None and x[2] <= now
                size_before = tr.calls[i - 1]['obs'][1]['size'] if i else 0
                vol_at_limit = any(pg + max(size_before, rec['obs'][1]['size']) + 70000 >= cfg.size_limit for pg in rec['vols']) if rec['vols'] else False
                if expired and op in ('set', 'add', 'incr', 'push', 'cull', 'pull', 'peek', 'peekitem'):
                    stats['lazy_expired'] += 1
                elif at_limit_possible and vol_at_limit and op in ('set', 'add', 'incr', 'push', 'cull'):
                    stats['evicted'] += 1
                else:
                    viol.append(('item_vanished:%s' % op, 'key %r disappeared during %s although it had not expired and no eviction was due' % (x[0], op), i))
        if len(present) != len(rows) and op not in ('push', 'pull', 'peek') and not any(c['item']['op'] == 'push' for c in tr.calls[:i + 1]):
            viol.append(('phantom_rows:%s' % op, 'table has %d rows, reference %d' % (len(rows), len(present)), i))
        ref.items = present
        if viol:
            break
    return viol


W = {'set': 16, 'add': 8, 'get': 14, 'contains': 6, 'touch': 5, 'incr': 7, 'pop': 5, 'delete': 5, 'delitem': 2,
     'push': 0, 'pull': 0, 'peek': 0, 'peekitem': 3, 'evict': 2, 'expire': 3, 'cull': 1, 'clear': 1, 'len': 4, 'iter': 3,
     'reversed': 1, 'iterkeys': 2, 'stats': 2}


def run_histories(ctx, res, nhist, length, stats, many_keys=False):
    terms, recs = [], []
    pols = ['least-recently-stored', 'least-recently-used', 'none', 'least-frequently-used']
    for h in range(nhist):
        cfg = seqdrv.Config(policy=pols[h % 4], statistics=(h % 3 == 0), tag_index=(h % 5 == 0), min_file_size=[16, 0, 64][h % 3],
                            cull_limit=[0, 10, 2, 0][(h // 2) % 4])
        if h % 6 == 5:
            cfg.size_limit_rel = 400
        keys = ['k%d' % i for i in range(260)] + gen_hist.KEYS if many_keys else gen_hist.KEYS
        w = dict(W)
        if many_keys:
            w.update({'set': 60, 'delete': 10, 'iter': 3, 'iterkeys': 3, 'evict': 1, 'clear': 0})
        boundary = not many_keys and h % 5 == 2
        if boundary:
            # integer keys and values on the representation boundaries in the random histories too; no incr in these (a counter whose value
            # is outside SQLite's integer range is outside the row model, like float counters)
            keys = keys + INT_BOUNDARIES[h % 3::3]
            w['incr'] = 0
        g = gen_hist.Gen(ctx.rng, cfg, weights=w, keys=keys)
        if boundary:
            g.vals = g.vals + INT_BOUNDARIES[(h + 1) % 3::3]
        hist = g.history(length)
        r = Runner(ctx, cfg, observe_every=1)
        r.objs = g.objs
        tr = r.run(hist)
        counting = not (cfg.policy in ('least-recently-stored', 'none') and not cfg.statistics) or True
        viol = check_trace(r, tr, cfg, stats, counting)
        for sig, what, idx in viol[:2]:
            res.violations.append(fw.Violation(sig, what, dict(gen_hist.history_json(g.objs, hist[:idx + 1], cfg), check='history', failing_call=idx)))
        for rec in tr.calls:
            res.count([rec['item']['op'], repr(sorted(rec['item']['args'].items())), rec['item']['now'], h], nontrivial=rec['res'] != 'default')
            stats['ops'][rec['item']['op']] = stats['ops'].get(rec['item']['op'], 0) + 1
        stats['max_rows'] = max(stats['max_rows'], max(len(c['obs'][0]) for c in tr.calls))
        if h < 2:
            res.sample({'config': cfg.to_json(), 'calls': [[c['item']['op'], c['item']['now'], str(c['res'])[:60]] for c in tr.calls[:8]]})
        terms.append(seqdrv.history_check_term(r, tr, cfg))
        recs.append((g, hist, cfg))
    return terms, recs


def exhaustive_short(ctx, res, stats, length):
    """all sequences up to `length` over a small alphabet (3 keys incl. the int/float pair, 2 values, ttl in
    {None, 0, 1}, clock steps {0, 1}) for each policy"""
    n = 0
    keys = [10 ** 15 + 1, float(10 ** 15 + 1), 'a']
    calls = []
    for k in range(3):
        for v in (0, 1):
            for ttl in (None, 0, 1):
                calls.append(('set', {'k': k, 'v': 3 + v, 'expire': ttl, 'tag': None}))
        calls.append(('add', {'k': k, 'v': 3, 'expire': 1, 'tag': 't1'}))
        calls.append(('get', {'k': k}))
        calls.append(('delete', {'k': k}))
        calls.append(('incr', {'k': k, 'delta': 1, 'default': 0}))
        calls.append(('touch', {'k': k, 'expire': 1}))
    calls.append(('len', {}))
    calls.append(('iter', {}))
    calls.append(('expire', {}))
    objs = keys + [5, 'x' * 40]
    terms, recs = [], []
    seqs = list(itertools.product(range(len(calls)), repeat=length))
    if len(seqs) > 400 and ctx.quick:
        seqs = ctx.rng.sample(seqs, 400)
    elif len(seqs) > 6000:
        seqs = ctx.rng.sample(seqs, 6000)
    for si, seq in enumerate(seqs):
        cfg = seqdrv.Config(policy=['least-recently-stored', 'least-recently-used', 'none', 'least-frequently-used'][si % 4],
                            statistics=(si % 2 == 0), min_file_size=16, cull_limit=[0, 10][si % 2])
        now = 1000.0
        hist = []
        for j, ci in enumerate(seq):
            now += [0, 1][(si + j) % 2]
            op, a = calls[ci]
            hist.append({'op': op, 'args': dict(a), 'now': now})
        r = Runner(ctx, cfg, observe_every=1)
        r.objs = objs
        tr = r.run(hist)
        viol = check_trace(r, tr, cfg, stats, True)
        n += 1
        res.count(['short', seq, si % 4], nontrivial=True)
        for sig, what, idx in viol[:1]:
            res.violations.append(fw.Violation(sig, what, dict(gen_hist.history_json(objs, hist[:idx + 1], cfg), check='history', failing_call=idx)))
        if si % 10 == 0:
            class G:
                pass
            g = G()
            g.objs = objs
            terms.append(seqdrv.history_check_term(r, tr, cfg))
            recs.append((g, hist, cfg))
    stats['short_sequences'] = n
    return terms, recs


def directed(ctx, res, stats):
    """bulk removal across the 100-row page size: evict of one tag, clear, expire, with more than one page
    of matching rows; peekitem when every item has expired"""
    terms, recs = [], []
    for n_tag, n_other in ((250, 50), (100, 3), (101, 0)):
        cfg = seqdrv.Config(policy='none', min_file_size=16, cull_limit=0, tag_index=(n_tag % 2 == 0))
        objs = ['k%d' % i for i in range(n_tag + n_other)] + [7]
        vi = len(objs) - 1
        hist = []
        now = 1000.0
        for i in range(n_tag + n_other):
            hist.append({'op': 'set', 'args': {'k': i, 'v': vi, 'expire': None, 'tag': 'red' if i < n_tag else 'blue'}, 'now': now})
        hist.append({'op': 'evict', 'args': {'tag': 'red'}, 'now': now + 1})
        hist.append({'op': 'len', 'args': {}, 'now': now + 1})
        hist.append({'op': 'iter', 'args': {}, 'now': now + 1})
        hist.append({'op': 'clear', 'args': {}, 'now': now + 2})
        hist.append({'op': 'len', 'args': {}, 'now': now + 2})
        r = Runner(ctx, cfg, observe_every=1)
        r.objs = objs
        tr = r.run(hist)
        viol = check_trace(r, tr, cfg, stats, True)
        res.count(['directed-evict', n_tag, n_other], nontrivial=True)
        for sig, what, idx in viol[:1]:
            res.violations.append(fw.Violation(sig, what, dict(gen_hist.history_json(objs, hist[:idx + 1], cfg), check='history', failing_call=idx)))
    # every item expired, then peekitem from either end
    for last in (True, False):
        cfg = seqdrv.Config(policy='none', min_file_size=16, cull_limit=0)
        objs = ['a', 'b', 'c', 5]
        hist = [{'op': 'set', 'args': {'k': 0, 'v': 3, 'expire': 1, 'tag': None}, 'now': 1000.0},
                {'op': 'set', 'args': {'k': 1, 'v': 3, 'expire': 2, 'tag': None}, 'now': 1000.0},
                {'op': 'set', 'args': {'k': 2, 'v': 3, 'expire': 1, 'tag': None}, 'now': 1000.0},
                {'op': 'peekitem', 'args': {'last': last}, 'now': 1010.0},
                {'op': 'len', 'args': {}, 'now': 1010.0},
                {'op': 'iter', 'args': {}, 'now': 1010.0}]
        r = Runner(ctx, cfg, observe_every=1)
        r.objs = objs
        tr = r.run(hist)
        viol = check_trace(r, tr, cfg, stats, True)
        res.count(['directed-peekitem', last], nontrivial=True)
        for sig, what, idx in viol[:1]:
            res.violations.append(fw.Violation(sig, what, dict(gen_hist.history_json(objs, hist[:idx + 1], cfg), check='history', failing_call=idx)))

        class G:
            pass
        g = G()
        g.objs = objs
        terms.append(seqdrv.history_check_term(r, tr, cfg))
        recs.append((g, hist, cfg))
    return terms, recs


def correspondence(ctx, res, terms, recs):
    out, errors = seqdrv.model_first_mismatch('c03', terms, chunk=2)
    for e in errors:
        res.disagreements.append(fw.Violation('model-eval', 'model evaluation failed: ' + e[-400:], {}, 'correspondence'))
    for m, (g, hist, cfg) in zip(out, recs):
        if m is None:
            continue
        if m < 0:
            res.traces_validated += 1
        else:
            res.disagreements.append(fw.Violation('row_model', 'model and implementation differ at call %d (%s)' % (m, hist[m]['op']),
                                                  dict(gen_hist.history_json(g.objs, hist[:m + 1], cfg), check='history', failing_call=m), 'correspondence'))


def run(ctx, big=False):
    res = fw.Result()
    res.rule = ('three-way: the implementation, a plain-Python reference dictionary with expiry/tags/statistics, and the Coq row-level model. '
                'Exhaustive short sequences (length 3 quick / 4 thorough, sampled beyond a cap) over 3 keys (incl. an int/float equal pair), 2 values '
                '(inline, file-backed), ttl {None,0,1}, clock steps {0,1} x 4 policies x statistics; random histories of 60-400 calls crossing the '
                '100-row page size of iteration and bulk removal; a pickled key and the bytes key equal to its pickle (same key column, other raw flag) on the '
                'first two, the last two and the two positions across a page break of key-ordered iteration; integer keys AND values on and next to '
                '+-2^31, +-2^53, +-2^63, +-2^64 (24 integers: each stored as a key with another one as its value, looked up, re-added, replaced, touched, iterated '
                'in insertion and key order both ways, popped, deleted; also mixed into every fifth random history, which then has no incr) carried by all '
                'three sides (the model\'s VInt is any Z); after every call: result vs reference, table contents vs reference (every disappearance '
                'must be explained by expiry or eviction), model vs table.  non-trivial = the call did not return the default.  Optional result flags: '
                'get / get(read=True) / pop / peekitem (both ends) with each of the 4 expire_time x tag combinations (result shape value | (value, expire_time) | '
                '(value, tag) | (value, expire_time, tag), the same shape around the default) on a key that was never stored / is live without and with ttl and '
                'tag / has expired but is still stored / was popped / was deleted, inline and file-backed, each removing lookup repeated on the then absent key, '
                'plus random histories with the flags drawn per call; reference dictionary and table only.  A result of any other shape, or an exception '
                'no dictionary raises, is a violation (unexpected_result:<op>), never the end of the run.')
    stats = {'ops': {}, 'lazy_expired': 0, 'evicted': 0, 'max_rows': 0, 'short_sequences': 0}
    thorough = not ctx.quick or big
    t0, r0 = exhaustive_short(ctx, res, stats, 3 if not thorough else 4)
    t1, r1 = run_histories(ctx, res, 20 if not thorough else 150, 60 if not thorough else 150, stats)
    t2, r2 = run_histories(ctx, res, 2 if not thorough else 10, 420, stats, many_keys=True)
    t3, r3 = directed(ctx, res, stats)
    t4, r4 = directed_nan_keys(ctx, res, stats)
    t5, r5 = directed_raw_twins(ctx, res, stats)
    t6, r6 = directed_int_boundaries(ctx, res, stats)
    flag_variants(ctx, res, stats, thorough)
    if not ctx.search_mode:
        correspondence(ctx, res, t0 + t1 + t2 + t3 + t4 + t5 + t6, r0 + r1 + r2 + r3 + r4 + r5 + r6)
    res.extra.update({'op_histogram': stats['ops'], 'items_removed_lazily_after_expiry': stats['lazy_expired'],
                      'items_evicted_at_limit': stats['evicted'], 'largest_table': stats['max_rows'],
                      'short_sequences': stats['short_sequences'], 'int_boundary_calls': stats.get('int_boundary_calls', 0),
                      'flag_variant_calls': stats.get('flag_variant_calls', 0)})
    return res


def directed_nan_keys(ctx, res, stats):
    """Regression input of the repaired finding C03-F1 (former Coq counterexample C03_iterkeys_null_key_refuted, now
    C03_iterkeys_nan_key_complete): c[nan] = 1; c[7] = 2; c[nan] = 3 used to hold three rows (the NaN key was bound as NULL and never
    matched) of which key-ordered iteration listed one in either direction.  The history runs through the three-way check like any other
    (reference dictionary: all NaNs are one key; table; Coq model), followed by every kind of iteration and the lookups and removals
    by key; a return of the defect is reported under the signatures of that check (item_vanished / phantom_rows / dict_mismatch)."""
    terms, recs = [], []
    for policy in ('none', 'least-recently-stored'):
        cfg = seqdrv.Config(policy=policy, min_file_size=16, cull_limit=0)
        objs = [float('nan'), 7, 1, 2, 3, float('nan'), 'x' * 40]
        S = lambda k, v, now: {'op': 'set', 'args': {'k': k, 'v': v, 'expire': None, 'tag': None}, 'now': now}
        hist = [S(0, 2, 1000.0), S(1, 3, 1001.0), S(5, 4, 1002.0),
                {'op': 'len', 'args': {}, 'now': 1003.0}, {'op': 'iter', 'args': {}, 'now': 1003.0}, {'op': 'reversed', 'args': {}, 'now': 1003.0},
                {'op': 'iterkeys', 'args': {'reverse': False}, 'now': 1003.0}, {'op': 'iterkeys', 'args': {'reverse': True}, 'now': 1003.0},
                {'op': 'get', 'args': {'k': 0, 'read': False}, 'now': 1003.0}, {'op': 'contains', 'args': {'k': 5}, 'now': 1003.0},
                {'op': 'add', 'args': {'k': 0, 'v': 2, 'expire': None, 'tag': None}, 'now': 1003.0},
                {'op': 'delete', 'args': {'k': 5}, 'now': 1004.0}, {'op': 'len', 'args': {}, 'now': 1004.0},
                {'op': 'iterkeys', 'args': {'reverse': False}, 'now': 1004.0},
                S(0, 6, 1005.0), {'op': 'pop', 'args': {'k': 5}, 'now': 1006.0}, {'op': 'len', 'args': {}, 'now': 1006.0},
                {'op': 'iter', 'args': {}, 'now': 1006.0}]
        r = Runner(ctx, cfg, observe_every=1)
        r.objs = objs
        tr = r.run(hist)
        viol = check_trace(r, tr, cfg, stats, True)
        res.count(['directed-nan-keys', policy], nontrivial=True)
        for sig, what, idx in viol[:1]:
            res.violations.append(fw.Violation(sig, 'float(nan) keys (regression input of the repaired finding C03-F1): ' + what,
                                               dict(gen_hist.history_json(objs, hist[:idx + 1], cfg), check='history', failing_call=idx)))

        class G:
            pass
        g = G()
        g.objs = objs
        terms.append(seqdrv.history_check_term(r, tr, cfg))
        recs.append((g, hist, cfg))
    return terms, recs


def directed_raw_twins(ctx, res, stats):
    """Two keys that share the database key column and differ only in `raw`: a pickled key (the tuple (1, 2), raw = 0) and the bytes key
    equal to its stored pickle (raw = 1).  Key-ordered iteration pages on (key, raw): the pair is placed on the first two positions, on the
    last two, and across the 100-row page break (the first row is fetched alone, then pages of 100), in both directions, beside integer
    keys (which sort before every blob).  Three-way check as for any history; iterkeys must list every key exactly once."""
    import pickle
    import pickletools
    terms, recs = [], []
    twin = pickletools.optimize(pickle.dumps((1, 2), protocol=pickle.HIGHEST_PROTOCOL))
    for n_fill in (0, 1, 99, 100):
        cfg = seqdrv.Config(policy='none', min_file_size=16, cull_limit=0)
        objs = list(range(n_fill)) + [(1, 2), twin, 7]
        ka, kb, vi = n_fill, n_fill + 1, n_fill + 2
        S = lambda k, now: {'op': 'set', 'args': {'k': k, 'v': vi, 'expire': None, 'tag': None}, 'now': now}
        hist = [S(i, 1000.0) for i in range(n_fill)] + [S(kb, 1001.0), S(ka, 1002.0),
                {'op': 'len', 'args': {}, 'now': 1003.0},
                {'op': 'iterkeys', 'args': {'reverse': False}, 'now': 1003.0}, {'op': 'iterkeys', 'args': {'reverse': True}, 'now': 1003.0},
                {'op': 'get', 'args': {'k': ka, 'read': False}, 'now': 1003.0}, {'op': 'get', 'args': {'k': kb, 'read': False}, 'now': 1003.0},
                {'op': 'delete', 'args': {'k': ka}, 'now': 1004.0},
                {'op': 'iterkeys', 'args': {'reverse': False}, 'now': 1004.0}, {'op': 'iterkeys', 'args': {'reverse': True}, 'now': 1004.0}]
        r = Runner(ctx, cfg, observe_every=1)
        r.objs = objs
        tr = r.run(hist)
        viol = check_trace(r, tr, cfg, stats, True)
        res.count(['directed-raw-twins', n_fill], nontrivial=True)
        for sig, what, idx in viol[:1]:
            res.violations.append(fw.Violation(sig, 'keys sharing the key column (tuple and the bytes equal to its pickle) beside %d integer keys: %s' % (n_fill, what),
                                               dict(gen_hist.history_json(objs, hist[:idx + 1], cfg), check='history', failing_call=idx)))

        class G:
            pass
        g = G()
        g.objs = objs
        terms.append(seqdrv.history_check_term(r, tr, cfg))
        recs.append((g, hist, cfg))
    return terms, recs


# Integers on and around the boundaries of the number representations involved: 32-bit, the 53-bit float mantissa, SQLite's signed 64-bit
# INTEGER (the last native key / value is 2**63 - 1 resp. -2**63; beyond that the storage layer must switch representation, a dictionary
# does not care) and 64-bit unsigned.
INT_BOUNDARIES = sorted({s * 2 ** b + d for b in (31, 53, 63, 64) for s in (1, -1) for d in (-1, 0, 1)})


def directed_int_boundaries(ctx, res, stats):
    """Integer KEYS and VALUES on and next to +-2^31, +-2^53, +-2^63, +-2^64 through the three-way check (implementation, reference dictionary,
    Coq row model: VInt carries any Z, the model's put / store decide native vs pickled).  Every boundary integer is stored as a key (with
    another boundary integer as its value), looked up, tested for membership, re-added, replaced, iterated in insertion and in key order in both
    directions, popped and deleted; a dictionary treats all of them alike."""
    terms, recs = [], []
    n = len(INT_BOUNDARIES)
    plans = [('none', 16, False, 0), ('least-recently-used', 0, True, 7), ('least-recently-stored', 64, False, 13)]
    if ctx.quick and not ctx.search_mode:
        plans = [plans[0], plans[1 + ctx.seed % 2]]
    for policy, m, statistics, shift in plans:
        cfg = seqdrv.Config(policy=policy, min_file_size=m, cull_limit=0, statistics=statistics)
        objs = list(INT_BOUNDARIES) + ['text', 'x' * 40]
        order = [(i * 5 + shift) % n for i in range(n)]              # 5 is coprime to 24: a permutation, neighbours apart
        hist = []
        now = [1000.0]

        def call(op, **a):
            now[0] += 0.5
            hist.append({'op': op, 'args': a, 'now': now[0]})
        for j, i in enumerate(order):
            call('set' if j % 3 else 'add', k=i, v=(i + shift + 1) % n, expire=None if j % 4 else 3600, tag=None if j % 2 else 't1')
        call('len')
        call('iter')
        call('reversed')
        call('iterkeys', reverse=False)
        call('iterkeys', reverse=True)
        for j, i in enumerate(order):
            call('get', k=i, read=False)
            if j % 2 == 0:
                call('contains', k=i)
            if j % 3 == 0:
                call('add', k=i, v=n, expire=None, tag=None)              # present: refused
            if j % 4 == 1:
                call('set', k=i, v=order[(j * 7 + 3) % n], expire=None, tag='t2')      # replace one boundary value by another
                call('get', k=i, read=False)
            if j % 4 == 3:
                call('touch', k=i, expire=7200)
        call('peekitem', last=True)
        call('peekitem', last=False)
        call('stats', enable=True, reset=False)
        for j, i in enumerate(order):
            if j % 3 == 0:
                call('pop', k=i)
                call('contains', k=i)
            elif j % 3 == 1:
                call('delete', k=i)
                call('get', k=i, read=False)
            elif j % 6 == 2:
                call('delitem', k=i)
        call('len')
        call('iterkeys', reverse=False)
        call('evict', tag='t2')
        call('iter')
        call('clear')
        call('len')
        r = Runner(ctx, cfg, observe_every=1)
        r.objs = objs
        tr = r.run(hist)
        viol = check_trace(r, tr, cfg, stats, True)
        res.count(['directed-int-boundaries', policy, m], nontrivial=True)
        for rec in tr.calls:
            res.count([rec['item']['op'], repr(sorted(rec['item']['args'].items())), rec['item']['now'], 'intb', policy], nontrivial=rec['res'] != 'default')
        stats['int_boundary_calls'] = stats.get('int_boundary_calls', 0) + len(tr.calls)
        for sig, what, idx in viol[:1]:
            a = hist[idx]['args']
            who = ', '.join('%s=%d' % (nm, objs[a[nm]]) for nm in ('k', 'v') if nm in a and isinstance(objs[a[nm]], int))
            res.violations.append(fw.Violation(sig, 'integer keys and values on the representation boundaries (%s): %s' % (who, what),
                                               dict(gen_hist.history_json(objs, hist[:idx + 1], cfg), check='history', failing_call=idx)))

        class G:
            pass
        g = G()
        g.objs = objs
        terms.append(seqdrv.history_check_term(r, tr, cfg))
        recs.append((g, hist, cfg))
    return terms, recs


FLAG_COMBOS = [(False, False), (True, False), (False, True), (True, True)]


def flag_variants(ctx, res, stats, thorough):
    """get / pop / peekitem with every combination of their expire_time / tag flags (the shared driver always passes both): the documented
    result is the value alone, (value, expire_time), (value, tag) or (value, expire_time, tag) -- for a key that is absent, was already
    popped or has expired the same shape around the default.  Directed: every key state {never stored, live without / with ttl and tag,
    expired but still stored, popped, deleted} x inline / file-backed value x {get, get(read=True), pop, peekitem at both ends} x 4 flag
    combinations, each lookup twice in a row; random: the histories of run_histories with the flags drawn per call.  Reference dictionary
    and table check only (the Coq row model returns all three parts: these calls are not rendered for it)."""
    n = 0
    states = ['absent', 'live', 'live_meta', 'expired', 'popped', 'deleted']
    for si, state in enumerate(states):
        for big in (False, True):
            for pi, policy in enumerate(['none', 'least-recently-used'] if thorough else [['none', 'least-recently-used'][(si + int(big) + ctx.seed) % 2]]):
                cfg = seqdrv.Config(policy=policy, statistics=bool((si + pi) % 2), min_file_size=16, cull_limit=0)
                objs = ['other', 'k', 'v' * 40 if big else 7, 'o' * 30, 'never']
                hist = []
                now = [1000.0]

                def call(op, step=0.0, **a):
                    now[0] += step
                    hist.append({'op': op, 'args': a, 'now': now[0]})
                call('set', k=0, v=3, expire=None, tag='t0')
                if state in ('live', 'popped', 'deleted'):
                    call('set', k=1, v=2, expire=None, tag=None)
                elif state == 'live_meta':
                    call('set', k=1, v=2, expire=3600, tag='t1')
                elif state == 'expired':
                    call('set', k=1, v=2, expire=1, tag='t1')
                    now[0] += 5
                if state == 'popped':
                    call('pop', k=1, et=True, tg=False)
                elif state == 'deleted':
                    call('delete', k=1)
                for et, tg in FLAG_COMBOS:
                    call('get', k=1, read=False, et=et, tg=tg)
                    call('get', k=1, read=True, et=et, tg=tg)
                    call('get', k=4, read=False, et=et, tg=tg)
                    call('peekitem', last=True, et=et, tg=tg)
                    call('peekitem', last=False, et=et, tg=tg)
                for et, tg in FLAG_COMBOS:
                    # the removing lookup: on the key as it is, again on the now absent key, then after storing it anew
                    call('pop', k=1, et=et, tg=tg)
                    call('pop', k=1, et=et, tg=tg)
                    call('pop', k=4, et=et, tg=tg)
                    call('len')
                    if state in ('live', 'live_meta', 'expired'):
                        call('set', step=1.0, k=1, v=2, expire={'live': None, 'live_meta': 3600, 'expired': 1}[state], tag=None if state == 'live' else 't1')
                        if state == 'expired':
                            now[0] += 5
                call('pop', k=0, et=True, tg=True)
                for et, tg in FLAG_COMBOS:
                    call('peekitem', step=10.0, last=True, et=et, tg=tg)          # nothing live is left
                call('iter')
                n += run_flag_history(ctx, res, stats, objs, hist, cfg, 'directed: key %s, %s value' % (state, 'file-backed' if big else 'inline'))
    nhist = 40 if thorough else 8
    pols = ['least-recently-stored', 'least-recently-used', 'none', 'least-frequently-used']
    for h in range(nhist):
        cfg = seqdrv.Config(policy=pols[h % 4], statistics=(h % 3 == 0), tag_index=(h % 5 == 0), min_file_size=[16, 0, 64][h % 3], cull_limit=[0, 10, 2, 0][(h // 2) % 4])
        w = dict(W)
        w.update({'get': 20, 'pop': 12, 'peekitem': 6})
        g = gen_hist.Gen(ctx.rng, cfg, weights=w, keys=gen_hist.KEYS)
        hist = g.history(80)
        for item in hist:
            if item['op'] in ('get', 'pop', 'peekitem'):
                item['args']['et'], item['args']['tg'] = FLAG_COMBOS[ctx.rng.randrange(4)]
        n += run_flag_history(ctx, res, stats, g.objs, hist, cfg, 'random')
    stats['flag_variant_calls'] = n


def run_flag_history(ctx, res, stats, objs, hist, cfg, what):
    r = Runner(ctx, cfg, observe_every=1)
    r.objs = objs
    tr = r.run(hist)
    viol = check_trace(r, tr, cfg, stats, True)
    for rec in tr.calls:
        res.count([rec['item']['op'], repr(sorted(rec['item']['args'].items())), rec['item']['now'], 'flags', what, cfg.policy], nontrivial=rec['res'] != 'default')
    for sig, desc, idx in viol[:1]:
        res.violations.append(fw.Violation(sig, 'optional result flags (%s): %s' % (what, desc),
                                           dict(gen_hist.history_json(objs, hist[:idx + 1], cfg), check='history', failing_call=idx)))
    return len(tr.calls)


def search(ctx, broken):
    return run(ctx, big=True)


def replay(payload):
    case = payload.get('case', {})
    if case.get('check') != 'history':
        print(payload)
        return True
    objs, hist, cfg = gen_hist.history_from_json(case)
    ctx = fw.Ctx('C03', 'quick', 1)
    try:
        r = Runner(ctx, cfg, observe_every=1)
        r.objs = objs
        tr = r.run(hist)
        stats = {'ops': {}, 'lazy_expired': 0, 'evicted': 0, 'max_rows': 0, 'short_sequences': 0}
        viol = check_trace(r, tr, cfg, stats, True)
        for c in tr.calls[-5:]:
            print(c['item']['op'], c['item']['args'], c['item']['now'], '->', str(c['res'])[:100])
        print('monitor:', viol)
        return not viol
    finally:
        ctx.cleanup()
