"""C10 -- push/pull/peek form exactly-once double-ended queues per prefix.

(a) MONITOR, written from the property text (independent of the Coq model): a ledger of pushed items per prefix
    against what pull/peek hand out, over generated histories on the real Cache under a virtual clock.
(b) CORRESPONDENCE: the same histories through model/Cache.v (seqdrv.run_cmp: result and table after every call).
(c) CONCURRENCY: producers/consumers with their own Cache objects under the deterministic scheduler (random and
    systematically enumerated schedules); thorough: free-running processes.  Monitor only.
"""
import itertools
import os
import shutil
import signal
import tempfile
import threading
import time as _time

import fw
import gen_hist
import instr
import sched
import seqdrv
import val
from instr import core, diskcache
from val import Stream

ID = 'C10'
COQ_PROP = 'C10'
LEVEL = 'proof'
TRANSLATE = ['sql', 'disk', 'persistent']
TRUSTED = [
    'coq/base/SqlBase.v + Val.v: WHERE / ORDER BY (stable sort, DESC = reversed) / LIMIT and the SQLite value order; coq/model/Cache.v: '
    'hand-written control skeleton of push/pull/peek/_cull over the generated selects, guards and constants; both are compared with the '
    'implementation (result, every row, counters, files) after every call of every generated history of this check',
    'proofs/QueueBridge.v pins the generated push/pull/peek selects (range, raw = 1, ORDER BY key ASC/DESC, LIMIT 1), the expiry guards, '
    'the DELETEs and the key constants (0, 999999999999999, 500000000000000, 15 digits, "-000000000000000"/"-999999999999999")',
    'model/QueueConc.v: the atomic producer/consumer machine is the specification of the concurrent clause; its link to Cache is '
    'C10_deque_refines (push appends / pull removes the head of the view) plus atomicity of single calls (C05)',
]
ASSUMPTIONS = [
    'each push and each successful pull is one atomic step (one write transaction; property C05) -- used by C10_exactly_once',
    'fewer than 5*10^14 extensions per side of a queue (C10_range): beyond it a pushed key leaves the range and is invisible to pull',
    'push: _cull does not interfere (cull_limit = 0, or nothing expired before now and policy none / volume below size_limit); what _cull '
    'removes is the subject of C09',
    'no foreign key sits inside the range of the prefix (prefix_clean): ordinary numeric keys in (0, 999999999999999) and text keys inside '
    '(p-000000000000000, p-999999999999999) are queue members by design',
    'value files of queue rows are present and pairwise distinct (qinv); file bookkeeping is the subject of C08',
    'blocks that do not commit, kind fanout.shard: the queue calls go to one shard object of a FanoutCache (FanoutCache offers no push / pull of its own) '
    'inside FanoutCache.transact(), which opens a transaction on every shard',
    'blocks that do not commit: all-or-nothing of a transact block is property C06; here it is what "pushed" and "delivered" mean for calls made inside a '
    'block (a rolled-back block has pushed and delivered nothing); an exception raised in a nested block is caught by nobody in between (it rolls the '
    'outermost block back); a block that ends with the death of its process runs in a forked child with its own handle and its calls are not compared',
    'expired-run family: the two twin queues of one history have unrelated prefixes (neither extends the other by "-"), so "same content" is '
    'decided from the pushes alone; the family is checked by the monitors only (the model is compared on the random and fixed histories)',
]

SENT = seqdrv.SENT
PREFIXES = [None, 'a', 'b', 'a-5', 'a-', '', 'a-500000000000000']
MIN_KEY, MAX_KEY, START = 0, 999999999999999, 500000000000000
ORDINARY = ['x', 'a', 'a-', 'k3', 0, -3, 10 ** 15 + 1, MAX_KEY, b'a-1', (1,), None, 'a-000000000000000', 'a-999999999999999',
            'b-', 2 ** 64, 5, 7.5, 'a-5', 'a-1x', 'b-3-1', '-5']
WEIGHTS = {'push': 12, 'pull': 7, 'peek': 5, 'set': 3, 'get': 3, 'delete': 1}


def in_range(prefix, k):
    """documented key range of the queue with this prefix (ordinary keys inside it are queue members by design)"""
    if prefix is None:
        return type(k) in (int, float) and MIN_KEY < k < MAX_KEY
    return type(k) is str and prefix + '-000000000000000' < k < prefix + '-999999999999999'


def related(p, q):
    """q's keys can fall into p's range: q starts with p + '-' (finding D11)"""
    return p is not None and q is not None and p != q and q.startswith(p + '-')


def expected_value(o):
    return o.data if isinstance(o, Stream) else o


def key_number(prefix, key):
    try:
        if prefix is None:
            return key if type(key) is int else None
        if type(key) is str and key.startswith(prefix + '-') and len(key) == len(prefix) + 16:
            return int(key[len(prefix) + 1:])
    except ValueError:
        pass
    return None


HANG_SECONDS = 6


class Hang(Exception):
    pass


def _on_alarm(signum, frame):
    raise Hang()


class Entry:
    __slots__ = ('key', 'val', 'exp', 'tag', 'prefix', 'seq')

    def __init__(self, key, v, exp, tag, prefix, seq):
        self.key, self.val, self.exp, self.tag, self.prefix, self.seq = key, v, exp, tag, prefix, seq

    def live(self, now):
        return self.exp is None or now < self.exp


class Monitor:
    """Decides the sequential clauses of C10 from the implementation's behaviour alone."""

    def __init__(self, objs):
        self.objs = objs
        self.q = {}            # prefix -> list of Entry, front first (push order)
        self.ord = {}          # ordinary key repr -> (value, exp)
        self.seq = 0
        self.tainted = set()   # prefixes whose key assignment / physical rows were disturbed by a prefix-extension interference (D11)
        self.viol = []         # (sig, desc, call index)
        self.stats = {'expired_heads_dropped': 0, 'expiry_instant_hits': 0, 'deliveries': 0, 'defaults': 0, 'leaks': 0,
                      'push_get_checked': 0, 'neighbour_checked': 0, 'start_checked': 0, 'ordinary_checked': 0}

    def flag(self, sig, desc, i):
        self.viol.append((sig, desc, i))

    def owner(self, key, now=None):
        """the queued entry identified by this key (a live one first: an expired entry may have been culled and its key reused)"""
        found = None
        for p, l in self.q.items():
            for e in l:
                if e.key == key and type(e.key) is type(key):
                    if now is None or e.live(now):
                        return e
                    found = found or e
        return found

    def next_live(self, prefix, side, now, drop):
        l = self.q.setdefault(prefix, [])
        while l:
            e = l[0] if side == 'front' else l[-1]
            if e.exp is not None and e.exp == now:
                self.stats['expiry_instant_hits'] += 1
            if e.live(now):
                return e
            if not drop:
                # look past it without changing the ledger
                rest = l[1:] if side == 'front' else l[:-1]
                for x in (rest if side == 'front' else reversed(rest)):
                    if x.live(now):
                        return x
                return None
            l.remove(e)
            self.stats['expired_heads_dropped'] += 1
        return None

    def step(self, i, item, res, push_get):
        op, a, now = item['op'], item['args'], item['now']
        if isinstance(res, tuple) and len(res) == 2 and res[0] == 'raise':
            self.flag('op_raised', '%s raised %s' % (op, res[1]), i)
            return
        if op == 'push':
            self.push(i, a, now, res, push_get)
        elif op in ('pull', 'peek'):
            self.take(i, op, a, now, res)
        elif op == 'set':
            k = self.objs[a['k']]
            self.ord[repr(k)] = (expected_value(self.objs[a['v']]), None if a.get('expire') is None else now + a['expire'], a.get('tag'))
        elif op == 'delete':
            k = self.objs[a['k']]
            cur = self.ord.get(repr(k))
            livek = cur is not None and (cur[1] is None or now < cur[1])
            if bool(res) != livek:
                self.flag('ordinary_key_interference', 'delete(%r) returned %r, expected %r' % (k, res, livek), i)
            if res:
                self.ord.pop(repr(k), None)
        elif op == 'get':
            k = self.objs[a['k']]
            cur = self.ord.get(repr(k))
            livek = cur is not None and (cur[1] is None or now < cur[1])
            self.stats['ordinary_checked'] += 1
            if res == 'default':
                if livek:
                    self.flag('ordinary_key_interference', 'ordinary key %r lost: get returned the default' % (k,), i)
            else:
                if not livek:
                    self.flag('ordinary_key_interference', 'get(%r) returned %r although the key is absent/expired' % (k, res), i)
                else:
                    v = res[1] if res[0] == 'handle' else res[0]
                    if not val.same(v, cur[0]):
                        self.flag('ordinary_key_interference', 'get(%r) returned %r, expected %r' % (k, v, cur[0]), i)

    def push(self, i, a, now, key, push_get):
        prefix, side = a.get('prefix'), a.get('side', 'back')
        v = expected_value(self.objs[a['v']])
        exp = None if a.get('expire') is None else now + a['expire']
        l = self.q.setdefault(prefix, [])
        n = key_number(prefix, key)
        if n is None or (prefix is None and type(key) is not int):
            self.flag('push_key_format', 'push(prefix=%r) returned key %r, not of the documented form' % (prefix, key), i)
        prev = self.owner(key, now)
        if prev is not None and not prev.live(now):
            self.q[prev.prefix].remove(prev)      # expired, removed by _cull; its key may be given out again
            prev = None
        if prev is not None and prefix not in self.tainted:
            self.flag('push_key_reused', 'push(prefix=%r) returned key %r which still identifies another queued item' % (prefix, key), i)
        quiet = not any(self.q.get(q) for q in self.q if related(prefix, q))
        if not quiet:
            self.tainted.add(prefix)
        if n is not None and quiet and prefix not in self.tainted:
            if not l:
                if not any(self.q.values()):
                    self.stats['start_checked'] += 1
                    if n != START:
                        self.flag('push_start_key', 'first push into an empty cache returned %r, documented start is %d' % (key, START), i)
            else:
                ext = l[-1] if side == 'back' else l[0]
                en = key_number(prefix, ext.key)
                if ext.exp is None and en is not None:
                    self.stats['neighbour_checked'] += 1
                    want = en + 1 if side == 'back' else en - 1
                    if n != want:
                        self.flag('push_key_not_neighbour', 'push(%s) next to key %r returned %r (documented: the neighbouring number %d)'
                                  % (side, ext.key, key, want), i)
        e = Entry(key, v, exp, a.get('tag'), prefix, self.seq)
        self.seq += 1
        if side == 'back':
            l.append(e)
        else:
            l.insert(0, e)
        # the returned key identifies the item
        if push_get is not None:
            self.stats['push_get_checked'] += 1
            if e.live(now):
                if push_get is SENT or not val.same(push_get, v):
                    self.flag('push_key_identity', 'cache.get(%r) after push returned %r, pushed %r' % (key, push_get, v), i)
            elif push_get is not SENT:
                self.flag('expired_delivered', 'cache.get(%r) returned an item whose expire time has passed' % (key,), i)

    def take(self, i, op, a, now, res):
        prefix, side = a.get('prefix'), a.get('side', 'front')
        exp_e = self.next_live(prefix, side, now, drop=True)
        if res == 'default':
            self.stats['defaults'] += 1
            if exp_e is not None and prefix not in self.tainted:
                self.flag('item_lost', '%s(prefix=%r, side=%s) returned the default although %r is queued' % (op, prefix, side, exp_e.key), i)
            return
        (k, v), et, tag = res
        self.stats['deliveries'] += 1
        got = self.owner(k, now)
        if got is None:
            okey = self.ord.get(repr(k))
            if okey is not None:
                self.flag('ordinary_key_pulled', '%s(prefix=%r) returned the ordinary key %r' % (op, prefix, k), i)
                if op == 'pull':
                    self.ord.pop(repr(k), None)
            else:
                self.flag('duplicate_or_phantom_delivery', '%s(prefix=%r) returned %r which is not queued (already delivered or never pushed)'
                          % (op, prefix, k), i)
            return
        if not got.live(now):
            self.flag('expired_delivered', '%s(prefix=%r) delivered %r at now=%r, expire_time=%r' % (op, prefix, k, now, got.exp), i)
        if got.prefix != prefix:
            self.tainted.add(prefix)
            if related(prefix, got.prefix):
                self.stats['leaks'] += 1
                self.flag('prefix_extension_leak', '%s(prefix=%r) returned %r, an item pushed under prefix %r' % (op, prefix, k, got.prefix), i)
            else:
                self.flag('prefix_interference', '%s(prefix=%r) returned %r, an item pushed under prefix %r' % (op, prefix, k, got.prefix), i)
            if op == 'pull':
                self.q[got.prefix].remove(got)
            return
        if got is not exp_e and prefix not in self.tainted:
            self.flag('queue_order', '%s(prefix=%r, side=%s) returned %r, the next item of that side is %r'
                      % (op, prefix, side, k, None if exp_e is None else exp_e.key), i)
        if not val.same(v, got.val) or et != got.exp or tag != got.tag:
            self.flag('queue_item_value', '%s returned (%r, %r, %r) for key %r, pushed (%r, %r, %r)' % (op, v, et, tag, k, got.val, got.exp, got.tag), i)
        if op == 'pull':
            self.q[prefix].remove(got)


class QRunner(seqdrv.Runner):
    """seqdrv.Runner that additionally looks the pushed key up (read-only: fast path of get) for the monitor."""

    def __init__(self, *a, **kw):
        super().__init__(*a, **kw)
        self.push_gets = []

    def call(self, item):
        out = super().call(item)
        g = None
        if item['op'] == 'push' and not (isinstance(out[0], tuple) and out[0] and out[0][0] == 'raise'):
            try:
                g = self.cache.get(out[0], default=SENT)
            except Exception as e:  # noqa
                g = ('raise', repr(e))
        self.push_gets.append(g)
        return out


def gen_history(ctx, rng, n, cull_limit, policy, prefixes=None, drain=True):
    cfg = seqdrv.Config(policy=policy, min_file_size=8, cull_limit=cull_limit)
    if prefixes is None:
        k = rng.choice([1, 2, 2, 3, 3, 4])
        prefixes = rng.sample(PREFIXES, k)
        if rng.random() < 0.25 and 'a' not in prefixes:
            prefixes.append('a')
    keys = [k for k in ORDINARY if not any(in_range(p, k) for p in prefixes)]
    g = gen_hist.Gen(rng, cfg, weights=WEIGHTS, keys=keys, prefixes=list(prefixes) + [prefixes[0]],
                     ttls=[None] * 8 + [1, 2, 0.5, 2 ** -10, 0, -1, 3],
                     steps=[0, 0, 0, 2 ** -10, 0.5, 1, 1, 2])
    g.counter_keys = ['c1', 'x']
    hist = g.history(n)
    if drain:
        now = g.now + 2 ** -10
        for p in prefixes:
            npush = sum(1 for it in hist if it['op'] == 'push' and it['args'].get('prefix') == p)
            side = rng.choice(['front', 'back'])
            for _ in range(npush + 1):
                hist.append({'op': 'pull', 'args': {'prefix': p, 'side': side}, 'now': now})
    return cfg, g.objs, hist, prefixes


def run_history(ctx, cfg, objs, hist, observe=1):
    """Returns (runner, trace or None, monitor, error)."""
    r = QRunner(ctx, cfg, observe_every=observe)
    r.objs = objs
    mon = Monitor(objs)
    main = threading.current_thread() is threading.main_thread()
    if main:
        old = signal.signal(signal.SIGALRM, _on_alarm)
        signal.alarm(HANG_SECONDS)
    try:
        tr = r.run(hist)
    except Hang as e:  # a queue operation that never returns (e.g. pull spinning on a head it cannot remove)
        r.close()
        n = len(r.push_gets)
        mon.flag('op_hang', 'call %d (%s %r) did not return within %d s' % (n, hist[n]['op'] if n < len(hist) else '?',
                                                                           hist[n]['args'] if n < len(hist) else '', HANG_SECONDS), n)
        return r, None, mon, e
    except Exception as e:  # an ordinary queue operation must not raise
        r.close()
        n = len(r.push_gets)
        # replay the calls that completed through the ledger to see what was queued when the call raised
        sig = 'op_raised'
        it = hist[n] if n < len(hist) else None
        if it is not None and it['op'] == 'push' and 'UNIQUE constraint' in repr(e):
            pushed_before = set(h['args'].get('prefix') for h in hist[:n] if h['op'] == 'push')
            if any(related(it['args'].get('prefix'), q) for q in pushed_before):
                sig = 'prefix_extension_collision'
        mon.flag(sig, 'call %d (%s %r) raised %r' % (n, it['op'] if it else '?', it['args'] if it else '', e), n)
        return r, None, mon, e
    finally:
        if main:
            signal.alarm(0)
            signal.signal(signal.SIGALRM, old)
    for i, rec in enumerate(tr.calls):
        mon.step(i, rec['item'], rec['res'], r.push_gets[i] if i < len(r.push_gets) else None)
    return r, tr, mon, None


def shrink(ctx, cfg, objs, hist, sig, viol_of=None, budget=50):
    """delete calls while the same signature is still flagged; viol_of(history) -> [(sig, desc, call index)]"""
    cur = list(hist)
    if viol_of is None:
        def viol_of(h):
            return run_history(ctx, cfg, objs, h)[2].viol
    if sig == 'op_hang':
        hits = [i for s, _, i in viol_of(cur) if s == sig]
        return cur[:hits[0] + 1] if hits else cur

    def bad(h):
        return any(s == sig for s, _, _ in viol_of(h))
    # cut after the first hit
    hits = [i for s, _, i in viol_of(cur) if s == sig]
    if hits:
        cur = cur[:hits[0] + 1]
    if len(cur) > 40:       # first halve
        for _ in range(6):
            half = cur[len(cur) // 2:]
            budget -= 1
            if len(half) >= 1 and bad(half):
                cur = half
            else:
                break
    i = len(cur) - 2
    while i >= 0 and budget > 0:
        cand = cur[:i] + cur[i + 1:]
        budget -= 1
        if bad(cand):
            cur = cand
        i -= 1
    return cur


def sequential(ctx, res, nhist, length, correspond=True, stats=None):
    stats = stats if stats is not None else {}
    ops, prefs, agg = stats.setdefault('ops', {}), stats.setdefault('prefixes', {}), stats.setdefault('monitor', {})
    terms, recs = [], []
    seen = set()
    hangs = 0
    for h in range(nhist):
        if hangs >= 2:
            break           # every further history would wait for the watchdog as well
        cull_limit = [0, 10][h % 2]
        policy = ['none', 'least-recently-stored'][(h // 2) % 2]
        cfg, objs, hist, prefixes = gen_history(ctx, ctx.rng, length, cull_limit, policy)
        r, tr, mon, err = run_history(ctx, cfg, objs, hist)
        for it in hist:
            ops[it['op']] = ops.get(it['op'], 0) + 1
            if it['op'] in ('push', 'pull', 'peek'):
                p = repr(it['args'].get('prefix'))
                prefs[p] = prefs.get(p, 0) + 1
            res.count(['seq', cfg.cull_limit, cfg.policy, it['op'], sorted(it['args'].items(), key=repr), it['now']], nontrivial=True)
        for k, v in mon.stats.items():
            agg[k] = agg.get(k, 0) + v
        hangs += int(isinstance(err, Hang))
        for sig in sorted(set(s for s, _, _ in mon.viol)):
            if sig in seen:
                continue
            seen.add(sig)
            desc = [d for s, d, _ in mon.viol if s == sig][0]
            small = shrink(ctx, cfg, objs, hist, sig)
            case = gen_hist.history_json(objs, small, cfg)
            case['check'] = 'seq'
            case['sig'] = sig
            case['prefixes'] = [repr(p) for p in prefixes]
            res.violations.append(fw.Violation(sig, desc, case))
        if tr is not None and correspond:
            terms.append(seqdrv.history_check_term(r, tr, cfg))
            recs.append((r, tr, cfg, objs, hist))
        if h == 0 and tr is not None:
            res.sample({'config': cfg.to_json(), 'prefixes': [repr(p) for p in prefixes], 'calls': len(hist),
                        'first_calls': [{'op': c['item']['op'], 'args': {k: (repr(objs[v])[:30] if k in ('k', 'v') else v) for k, v in c['item']['args'].items()},
                                         'now': c['item']['now'], 'result': repr(c['res'])[:80]} for c in tr.calls[:8]]})
    if terms:
        out, errs = seqdrv.model_first_mismatch('c10', terms, chunk=6)
        for e in errs:
            res.disagreements.append(fw.Violation('model-eval', 'model evaluation failed: ' + e[-600:], {}, 'correspondence'))
        nd = 0
        for (r, tr, cfg, objs, hist), m in zip(recs, out):
            if m is None:
                continue
            if m < 0:
                res.traces_validated += 1
                continue
            nd += 1
            if nd > 3:
                continue
            rec = tr.calls[m]
            case = gen_hist.history_json(objs, hist[:m + 1], cfg)
            case['check'] = 'correspondence'
            case['first_mismatch'] = m
            case['impl_result'] = repr(rec['res'])[:300]
            res.disagreements.append(fw.Violation(
                'cache_model:%s' % rec['item']['op'],
                'model/Cache.v and the implementation differ at call %d (%s %r): implementation returned %s'
                % (m, rec['item']['op'], rec['item']['args'], repr(rec['res'])[:200]), case, 'correspondence'))
    return stats


# ---------------------------------------------------------------------------
# (a') runs of expired heads: a consumer that was away longer than the items' time to live finds n expired, not yet removed
# items at the side it pulls from, and live items behind them.  The property text makes no exception for them: items are
# delivered in queue order and every pushed (live) item is delivered, so pull must hand out the first live item however many
# expired ones precede it; the empty-queue default is allowed only when no live item is queued under that prefix; and peek
# returns what the next pull from that side would return, so peek and pull applied to the same content must agree.


class RunMonitor:
    """Ledger written from the property text alone: what push returned, what pull removed, who is live at `now`."""

    def __init__(self, objs):
        self.objs = objs
        self.q = {}             # prefix -> list of dicts, front first
        self.npush = {}
        self.prev = None        # the previous call, if it was a peek: (index, prefix, side, now, res, live content, position)
        self.viol = []
        self.stats = {'takes': 0, 'takes_behind_expired_run': 0, 'longest_expired_run_passed': 0, 'defaults_on_empty': 0,
                      'peek_pull_pairs_same_queue': 0, 'peek_pull_pairs_twin_queue': 0}

    def flag(self, sig, desc, i):
        self.viol.append((sig, desc, i))

    @staticmethod
    def alive(e, now):
        return e['exp'] is None or now < e['exp']

    def view(self, prefix, side, now):
        """(live items in delivery order of that side, number of expired items queued before the first live one)"""
        l = self.q.get(prefix, [])
        seq = l if side == 'front' else l[::-1]
        live = [e for e in seq if self.alive(e, now)]
        ahead = 0
        for e in seq:
            if self.alive(e, now):
                break
            ahead += 1
        return live, (ahead if live else len(seq))

    def step(self, i, item, res):
        op, a, now = item['op'], item['args'], item['now']
        prev, self.prev = self.prev, None
        if isinstance(res, tuple) and len(res) == 2 and res[0] == 'raise':
            return
        if op == 'push':
            prefix, side = a.get('prefix'), a.get('side', 'back')
            l = self.q.setdefault(prefix, [])
            # an expired item may have been removed meanwhile and its key given out again
            l[:] = [e for e in l if not (e['key'] == res and type(e['key']) is type(res) and not self.alive(e, now))]
            e = {'key': res, 'val': expected_value(self.objs[a['v']]), 'exp': None if a.get('expire') is None else now + a['expire'],
                 'tag': a.get('tag'), 'ord': self.npush.get(prefix, 0)}
            self.npush[prefix] = e['ord'] + 1
            if side == 'back':
                l.append(e)
            else:
                l.insert(0, e)
        elif op in ('pull', 'peek'):
            self.take(i, op, a.get('prefix'), a.get('side', 'front'), now, res, prev)

    def find(self, prefix, key, now):
        hit = None
        for e in self.q.get(prefix, []):
            if e['key'] == key and type(e['key']) is type(key):
                if self.alive(e, now):
                    return e
                hit = hit or e
        return hit

    def take(self, i, op, prefix, side, now, res, prev):
        live, ahead = self.view(prefix, side, now)
        self.stats['takes'] += 1
        content = [(e['val'], e['exp'], e['tag']) for e in live]
        pos = None
        if res == 'default':
            if live:
                self.flag('%s_empty_with_live_items' % op,
                          '%s(prefix=%r, side=%s) at now=%r returned the empty-queue default although %d live item(s) are queued under that '
                          'prefix (next from that side: key %r, value %r) behind %d expired, not yet removed item(s)'
                          % (op, prefix, side, now, len(live), live[0]['key'], live[0]['val'], ahead), i)
            else:
                self.stats['defaults_on_empty'] += 1
        else:
            (k, v), et, tag = res
            e = self.find(prefix, k, now)
            if e is not None:
                if e in live:
                    pos = live.index(e)
                if pos == 0 and ahead:
                    self.stats['takes_behind_expired_run'] += 1
                    self.stats['longest_expired_run_passed'] = max(self.stats['longest_expired_run_passed'], ahead)
                if op == 'pull':
                    self.q[prefix].remove(e)
        if op == 'peek':
            self.prev = (i, prefix, side, now, res, content, pos)
            return
        # pull right after a peek from the same side at the same instant, on the same queue or on a queue with the same content
        if prev is None or prev[0] != i - 1 or prev[2] != side or prev[3] != now:
            return
        _, pprefix, _, _, pres, pcontent, ppos = prev
        same_queue = pprefix == prefix and type(pprefix) is type(prefix)
        if not same_queue:
            if len(pcontent) != len(content) or not all(val.same(x[0], y[0]) and x[1:] == y[1:] for x, y in zip(pcontent, content)):
                return
        self.stats['peek_pull_pairs_same_queue' if same_queue else 'peek_pull_pairs_twin_queue'] += 1
        where = 'the same queue' if same_queue else 'a queue with the same content (prefix %r)' % (prefix,)
        shown = lambda r: 'the empty-queue default' if r == 'default' else 'key %r, value %r, expire_time %r, tag %r' % (r[0][0], r[0][1], r[1], r[2])  # noqa: E731
        if (pres == 'default') != (res == 'default'):
            ok = False
        elif res == 'default':
            ok = True
        else:
            (pk, pv), pet, ptag = pres
            (k, v), et, tag = res
            ok = val.same(pv, v) and pet == et and ptag == tag
            if same_queue:
                ok = ok and pk == k and type(pk) is type(k)
            elif ppos is not None and pos is not None:
                ok = ok and ppos == pos
        if not ok:
            self.flag('pull_disagrees_with_peek',
                      'peek(prefix=%r, side=%s) at now=%r returned %s; the pull(side=%s) that follows at the same instant on %s returned %s '
                      '(%d live item(s) queued behind %d expired one(s))'
                      % (pprefix, side, now, shown(pres), side, where, shown(res), len(content), ahead), i)


RUN_T = 1000.0
TICK = 2 ** -10
RUN_LENGTHS = [0, 1, 2, 9, 10, 11, 12, 20, 21, 25, 50, 100, 101, 128, 250]
RUN_PAIRS = [(None, 'a'), ('a', None), ('a', 'b-1'), ('b-1', 'a'), ('', 'b'), ('b', '')]      # (twin peeked first, twin pulled first); unrelated
RUN_DIMS = {
    'side': ['front', 'back'],
    'kind': ['inline', 'file', 'mixed'],
    'push_mode': ['far', 'near', 'split'],
    'interleave': [True, False],
    'cull_limit': [0, 10],
    'policy': ['none', 'least-recently-stored'],
    'late': [0, 0, 1, 2],
    'protocol': ['twin', 'twin', 'pull_only', 'peek_same'],
    'offset': [0, 0, TICK, 5, 990],
}


def run_shape(shape, n, m, n2, offset):
    """blocks (count, ttl) in the order seen from the pulled side, and phases (ttl whose last expiry instant is taken, offset, steps)"""
    if shape == 'EL':         # n expired, m live
        return [[n, 10], [m, None]], [[10, offset, m + 1]]
    if shape == 'ELEL':       # a second run shows up once the first live item is gone
        return [[n, 10], [1, None], [n2, 10], [m, None]], [[10, offset, m + 2]]
    if shape == 'stagger':    # the n2 + 1 items in the middle are live in the first phase, an expired run in the second
        return [[n, 10], [n2 + 1, 20], [m, None]], [[10, min(offset, 5), 1], [20, offset, m + 1]]
    if shape == 'ELE':        # expired runs at both ends, pulled from both sides in turn
        return [[n, 10], [m, None], [n2, 10]], [[10, offset, m + 2]]
    raise ValueError(shape)


def run_params(seed, quick):
    """the family: run length x side x prefix pair x value kind x live items behind x the remaining dimensions"""
    import random
    rng = random.Random('C10-expired-runs-%d' % seed)
    out = []

    def rest(j, **fixed):
        p = {k: v[(j // (1 + ix)) % len(v)] for ix, (k, v) in enumerate(sorted(RUN_DIMS.items()))}
        p.update(fixed)
        return p
    j = 0
    for n in (10, 11, 25):                          # full cross of the dimensions named in the property's quantifier
        for side in ('front', 'back'):
            for pair in RUN_PAIRS[:3]:
                for kind in ('inline', 'file'):
                    for m in (1, 3):
                        out.append(rest(j, shape='EL', n=n, m=m, n2=0, side=side, pair=list(pair), kind=kind))
                        j += 1
    for n in RUN_LENGTHS:                           # every run length with the other dimensions drawn at random
        for _ in range(2 if quick else 5):
            p = {k: rng.choice(v) for k, v in RUN_DIMS.items()}
            p.update(shape='EL', n=n, m=rng.choice([0, 1, 1, 2, 3, 5]), n2=0, pair=list(rng.choice(RUN_PAIRS)))
            out.append(p)
    for shape in ('ELEL', 'stagger', 'ELE'):
        for n in (3, 10, 11, 25, 100):
            for _ in range(1 if quick else 3):
                p = {k: rng.choice(v) for k, v in RUN_DIMS.items()}
                p.update(shape=shape, n=n, m=rng.choice([1, 2, 3]), n2=rng.choice([n, 10, 11, 12, 30]), pair=list(rng.choice(RUN_PAIRS)))
                out.append(p)
    for _ in range(16 if quick else 120):           # everything at random
        p = {k: rng.choice(v) for k, v in RUN_DIMS.items()}
        p.update(shape=rng.choice(['EL', 'ELEL', 'stagger', 'ELE']), n=rng.choice(RUN_LENGTHS[:12] + [rng.randint(0, 60)]),
                 m=rng.choice([0, 1, 2, 3, 4]), n2=rng.choice(RUN_LENGTHS[:11]), pair=list(rng.choice(RUN_PAIRS)))
        out.append(p)
    for p in out:
        if p['shape'] == 'ELE':
            p['side'], p['late'] = 'both', 0
    return out


def build_run_history(p):
    """(cfg, objs, history) of one member of the family; deterministic in p"""
    cfg = seqdrv.Config(policy=p['policy'], min_file_size=8, cull_limit=p['cull_limit'])
    objs, index = [], {}

    def ref(o):
        k = (type(o).__name__, repr(o))
        if k not in index:
            index[k] = len(objs)
            objs.append(o)
        return index[k]

    def value(j, dead):
        kind = p['kind'] if p['kind'] != 'mixed' else ('inline', 'file', 'bytes')[j % 3]
        if kind == 'inline':
            return (-j - 1 if dead else j) if j % 2 == 0 else ('x%d' if dead else 'i%d') % j
        if kind == 'file':
            return ('expired-value-%05d' if dead else 'queued-value-%05d') % j
        return (b'E' if dead else b'L') * 9 + str(j).encode()
    A, B = p['pair']
    queues = [A, B] if p['protocol'] != 'peek_same' else [A]
    blocks, phases = run_shape(p['shape'], p['n'], p['m'], p['n2'], p['offset'])
    near = 'back' if p['side'] == 'back' else 'front'
    far = 'front' if near == 'back' else 'back'
    items = []
    for count, ttl in blocks:
        for _ in range(count):
            j = len(items)
            items.append({'v': ref(value(j, ttl is not None)), 'expire': ttl, 'tag': 't1' if j % 4 == 3 else None})
    if p['push_mode'] == 'far':
        plan = [(it, far) for it in items]
    elif p['push_mode'] == 'near':
        plan = [(it, near) for it in reversed(items)]
    else:                       # outwards from the middle, extending the queue on both sides in turn
        plan, lo, hi = [], len(items) // 2 - 1, len(items) // 2
        while lo >= 0 or hi < len(items):
            if hi < len(items):
                plan.append((items[hi], far))
                hi += 1
            if lo >= 0:
                plan.append((items[lo], near))
                lo -= 1
    hist, last_exp = [], {}

    def push(q, it, side, now):
        hist.append({'op': 'push', 'args': {'v': it['v'], 'prefix': q, 'side': side, 'expire': it['expire'], 'tag': it['tag']}, 'now': now})
        if it['expire'] is not None:
            last_exp[it['expire']] = max(last_exp.get(it['expire'], 0), now + it['expire'])

    def take(op, q, side, now):
        hist.append({'op': op, 'args': {'prefix': q, 'side': side}, 'now': now})
    now = RUN_T
    if p['interleave']:
        for it, side in plan:
            for q in queues:
                push(q, it, side, now)
            now += TICK
    else:
        for q in queues:
            for it, side in plan:
                push(q, it, side, now)
    nlive = sum(c for c, ttl in blocks if ttl is None)
    k = 0
    for pi, (ttl, offset, steps) in enumerate(phases):
        now = max(now, last_exp.get(ttl, RUN_T + ttl) + offset)
        if pi == 0:
            for j in range(p['late']):      # the producer went on while the consumer was away
                it = {'v': ref(value(len(items) + j, False)), 'expire': None, 'tag': None}
                for q in queues:
                    push(q, it, far, now)
            nlive += p['late']
        for _ in range(steps):
            side = near if p['side'] != 'both' else ('front', 'back')[k % 2]
            P, Q = (A, B) if (k // 2) % 2 == 0 or len(queues) == 1 else (B, A)
            if p['protocol'] == 'twin':
                take('peek', P, side, now)
                take('pull', Q, side, now)
                take('pull', P, side, now)
            elif p['protocol'] == 'pull_only':
                take('pull', P, side, now)
                take('pull', Q, side, now)
            else:
                take('peek', A, side, now)
                take('pull', A, side, now)
            k += 1
    for q in queues:                        # whatever is left is delivered, then the queue is empty
        for _ in range(nlive + 1):
            take('pull', q, near, now)
    return cfg, objs, hist


def run_viol(ctx, cfg, objs, hist):
    """both ledgers over one execution -> (trace, [(sig, desc, call index)], monitors, error)"""
    r, tr, mon, err = run_history(ctx, cfg, objs, hist, observe=0)
    rm = RunMonitor(objs)
    if tr is not None:
        for i, rec in enumerate(tr.calls):
            rm.step(i, rec['item'], rec['res'])
    return tr, rm.viol + mon.viol, (mon, rm), err


def expired_runs(ctx, res, stats):
    params = run_params(ctx.seed, ctx.quick)
    agg = stats.setdefault('expired_runs', {'histories': 0, 'calls': 0, 'run_lengths': sorted(set(p['n'] for p in params))})
    seen = set(v.sig for v in res.violations)
    hangs = 0
    for p in params:
        if hangs >= 2:
            break
        cfg, objs, hist = build_run_history(p)
        tr, viol, (mon, rm), err = run_viol(ctx, cfg, objs, hist)
        hangs += int(isinstance(err, Hang))
        agg['histories'] += 1
        agg['calls'] += len(hist)
        for it in hist:
            res.count(['run', cfg.cull_limit, cfg.policy, it['op'], sorted(it['args'].items(), key=repr), it['now']], nontrivial=True)
        for k, v in rm.stats.items():
            agg[k] = max(agg.get(k, 0), v) if k.startswith('longest') else agg.get(k, 0) + v
        for k, v in mon.stats.items():
            stats.setdefault('monitor', {})[k] = stats.setdefault('monitor', {}).get(k, 0) + v
        for sig in sorted(set(s for s, _, _ in viol)):
            if sig in seen:
                continue
            seen.add(sig)
            small = shrink(ctx, cfg, objs, hist, sig, viol_of=lambda h: run_viol(ctx, cfg, objs, h)[1], budget=70)
            desc = ([d for s, d, _ in run_viol(ctx, cfg, objs, small)[1] if s == sig] or [d for s, d, _ in viol if s == sig])[0]
            case = gen_hist.history_json(objs, small, cfg)
            case.update({'check': 'expired_run', 'sig': sig, 'family_member': p, 'calls_before_shrinking': len(hist)})
            res.violations.append(fw.Violation(sig, desc, case))
        if agg['histories'] == 1 and tr is not None:
            res.sample({'expired_run_member': p, 'calls': len(hist), 'last_calls': [
                {'op': c['item']['op'], 'args': {k: (repr(objs[v])[:30] if k == 'v' else v) for k, v in c['item']['args'].items()},
                 'now': c['item']['now'], 'result': repr(c['res'])[:80]} for c in tr.calls[-6:]]})


# ---------------------------------------------------------------------------
# (a'') prefixes with characters that mean something to SQL pattern matching (GLOB: * ? [ ]; LIKE: % _ and the escape \), quotes,
# blanks and non-ASCII text.  A prefix is any string: the property quantifies over prefixes, so a queue named 'jobs[eu]' is a queue
# like any other.  Same generator, same ledger (Monitor) as the sequential histories; monitor only.

META_PREFIXES = ['jobs[eu]', 'a[1]', '[', ']', '[]', 'a]', '[a-z]', 'x[^y]', 'a-[0-9]', 'q[0-9][0-9]', 'a*', '*', '*-*', 'q?', '?', '??????', 'a%', '%', '%-%',
                 'a_b', '_', '__', 'back\\slash', '\\', 'a\\%', "o'brien", "'", 'say "hi"', '"', 'two words', ' lead', 'trail ', ' ', 'tab\there',
                 'line\nbreak', 'café', '日本語', 'ü-ß', '\U0001f600', 'a.b', '(a|b)', '{a,b}', '^a$', 'a+', '~', '#1', 'NULL', '0',
                 'jobs[eu]-5', 'a*-', '%-500000000000000']


def meta_directed(p, ref):
    """The documented discipline on one queue, whatever its name: three items, looked at and taken from both sides, then empty."""
    T = 1000.0

    def it(op, **a):
        a['prefix'] = p
        return {'op': op, 'args': a, 'now': T}
    return [it('push', v=ref('first-queued-value'), side='back', expire=None, tag=None), it('peek', side='front'), it('peek', side='back'),
            it('push', v=ref(2), side='back', expire=None, tag='t1'), it('push', v=ref(b'third-' * 3), side='front', expire=None, tag=None),
            it('peek', side='front'), it('peek', side='back'), it('pull', side='front'), it('pull', side='back'), it('peek', side='front'),
            it('pull', side='front'), it('pull', side='front'), it('peek', side='back')]


def metachar_prefixes(ctx, res, stats, nrandom, length):
    import random
    rng = random.Random('C10-metachar-%d' % ctx.seed)
    agg = stats.setdefault('metachar_prefixes', {'histories': 0, 'calls': 0, 'prefixes': len(META_PREFIXES)})
    seen = set(v.sig for v in res.violations)
    hangs = 0
    plans = [('directed', [p]) for p in META_PREFIXES]
    for h in range(nrandom):
        ps = rng.sample(META_PREFIXES, rng.choice([1, 2, 2, 3]))
        if rng.random() < 0.35:
            ps.append(rng.choice(PREFIXES))
        plans.append(('random', ps))
    for h, (how, ps) in enumerate(plans):
        if hangs >= 2:
            break
        cull_limit = [0, 10][h % 2]
        policy = ['none', 'least-recently-stored'][(h // 2) % 2]
        if how == 'directed':
            cfg = seqdrv.Config(policy=policy, min_file_size=8, cull_limit=cull_limit)
            objs, index = [], {}

            def ref(o):
                k = (type(o).__name__, repr(o))
                if k not in index:
                    index[k] = len(objs)
                    objs.append(o)
                return index[k]
            hist = meta_directed(ps[0], ref)
        else:
            cfg, objs, hist, ps = gen_history(ctx, rng, length, cull_limit, policy, prefixes=ps)
        r, tr, mon, err = run_history(ctx, cfg, objs, hist, observe=0)
        shutil.rmtree(r.dir, ignore_errors=True)
        if tr is None and not isinstance(err, Hang) and len(r.push_gets) > 0:
            # a call raised: what the calls before it returned is judged all the same (they are run once more, alone)
            r2, tr2, mon2, err2 = run_history(ctx, cfg, objs, hist[:len(r.push_gets)], observe=0)
            shutil.rmtree(r2.dir, ignore_errors=True)
            mon.viol += [x for x in mon2.viol if x[0] not in set(s_ for s_, _, _ in mon.viol)]
        hangs += int(isinstance(err, Hang))
        agg['histories'] += 1
        agg['calls'] += len(hist)
        for it in hist:
            res.count(['meta', cfg.cull_limit, cfg.policy, it['op'], sorted(it['args'].items(), key=repr), it['now']], nontrivial=True)
        for k, v in mon.stats.items():
            stats.setdefault('monitor', {})[k] = stats.setdefault('monitor', {}).get(k, 0) + v
        for sig in sorted(set(s for s, _, _ in mon.viol)):
            if sig in seen:
                continue
            seen.add(sig)
            desc = [d for s, d, _ in mon.viol if s == sig][0]
            small = shrink(ctx, cfg, objs, hist, sig)
            case = gen_hist.history_json(objs, small, cfg)
            case.update({'check': 'seq', 'sig': sig, 'prefixes': [repr(p) for p in ps], 'family': 'metachar_prefixes'})
            res.violations.append(fw.Violation(sig, desc + ' [queue prefixes %r]' % (ps,), case))


# ---------------------------------------------------------------------------
# (a''') queue calls inside transaction blocks that do not commit.  `with cache.transact(): ...` is all-or-nothing (C06): a block that
# ends in an exception -- or whose process dies before the COMMIT -- has pushed and delivered nothing.  For the queue this means: an
# item pulled inside such a block is still queued afterwards and must be delivered, exactly once and in its place, by the pulls that
# follow; an item pushed inside it is never delivered.  Inside a block the calls see the block's own effects.  Values are file-backed
# (at or above disk_min_file_size) and inline.  The ledger (Monitor) is saved when the outermost block opens and restored when the
# block is rolled back.


class BlockAbort(Exception):
    pass


class BlockAbortBase(BaseException):
    pass


BLOCK_KINDS = ('cache', 'fanout.cache', 'fanout.shard', 'index')


class BlockRunner(QRunner):
    """QRunner over one queue-carrying cache of the given kind, with the extra history items
        {'op': 'begin', 'args': {'end': 'commit' | 'abort' | 'abort_base' | 'die'}}      `with <object>.transact():`
        {'op': 'end', 'args': {}}                                                        the block ends the way its begin says
    kind: 'cache' = Cache(dir), blocks of cache.transact(); 'fanout.cache' = FanoutCache(dir).cache(name), blocks of that cache;
    'fanout.shard' = a shard of FanoutCache(dir, shards=2), blocks of FanoutCache.transact() (every shard); 'index' = Index.fromcache
    (push / pull of the Index, blocks of Index.transact()).  A block that ends with 'die' runs in a forked process with its own handle,
    which exits (os._exit) inside the block; its calls are recorded as 'skipped'."""

    def __init__(self, ctx, cfg, kind):
        super().__init__(ctx, cfg, observe_every=0)
        self.kind = kind
        self.stack = []         # (context manager, end) of the open blocks, outermost first

    def open_objects(self):
        """-> (cache that carries the queues, object whose transact() makes the blocks, closers)"""
        kind, st = self.kind, self.cfg.settings()
        if kind == 'cache':
            c = diskcache.Cache(self.dir, **st)
            return c, c, [c]
        if kind == 'fanout.cache':
            fc = diskcache.FanoutCache(self.dir, shards=2)
            c = fc.cache('queues/jobs', **st)
            return c, c, [c, fc]
        if kind == 'fanout.shard':
            fc = diskcache.FanoutCache(self.dir, shards=2, **{k: v for k, v in st.items() if k != 'size_limit'})
            return fc._shards[1], fc, [fc]
        if kind == 'index':
            c = diskcache.Cache(self.dir, **st)
            return c, diskcache.Index.fromcache(c), [c]
        raise ValueError(kind)

    def open(self):
        self.cache, self.blocker, self.closers = self.open_objects()
        self.vols = []
        return self.cache

    def close(self):
        while self.stack:
            cm, _ = self.stack.pop()
            try:
                cm.__exit__(None, None, None)
            except Exception:  # noqa
                pass
        for c in getattr(self, 'closers', []):
            try:
                c.close()
            except Exception:  # noqa
                pass

    def queue_call(self, item):
        if self.kind != 'index' or item['op'] not in ('push', 'pull'):
            return super().call(item)
        # the Index spelling of the same calls (no expiry, no tag)
        a, idx = item['args'], self.blocker
        if item['op'] == 'push':
            out = (idx.push(self.objs[a['v']], prefix=a.get('prefix'), side=a.get('side', 'back')), '')
            try:
                g = self.cache.get(out[0], default=SENT)
            except Exception as e:  # noqa
                g = ('raise', repr(e))
            self.push_gets.append(g)
            return out
        k, v = idx.pull(prefix=a.get('prefix'), default=(SENT, SENT), side=a.get('side', 'front'))
        self.push_gets.append(None)
        return ('default' if k is SENT else ((k, v), None, None)), ''

    def die_block(self, items):
        """the block runs in another process that dies before the COMMIT"""
        import sys
        sys.stdout.flush()
        sys.stderr.flush()
        pid = os.fork()
        if pid == 0:
            try:
                self.cache, self.blocker, self.closers = self.open_objects()
                self.stack = []
                cm = self.blocker.transact()
                cm.__enter__()
                for it in items:
                    if it['op'] in ('begin', 'end'):
                        continue
                    try:
                        self.queue_call(it)
                    except Exception:  # noqa
                        pass
            finally:
                os._exit(0)
        os.waitpid(pid, 0)

    def run(self, history):
        tr = seqdrv.Trace()
        with instr.Installed(self.clock):
            self.open()
            i = 0
            while i < len(history):
                item = history[i]
                self.clock.set(item['now'])
                op = item['op']
                if op == 'begin' and item['args'].get('end') == 'die' and not self.stack:
                    depth, j = 1, i
                    while depth and j + 1 < len(history):
                        j += 1
                        depth += {'begin': 1, 'end': -1}.get(history[j]['op'], 0)
                    inner = history[i + 1:j] if depth == 0 else history[i + 1:]
                    self.die_block(inner)
                    last = j if depth == 0 else len(history) - 1
                    for x in range(i, last + 1):
                        self.push_gets.append(None)
                        res = ('block', 'opened', 0) if x == i else (('block', 'died', 0) if (x == last and depth == 0) else 'skipped')
                        tr.calls.append({'item': history[x], 'res': res, 'term': '', 'vols': []})
                    i = last + 1
                    continue
                if op == 'begin':
                    cm = self.blocker.transact()
                    cm.__enter__()
                    self.stack.append((cm, item['args'].get('end', 'commit')))
                    self.push_gets.append(None)
                    res = ('block', 'opened', len(self.stack) - 1)
                elif op == 'end':
                    self.push_gets.append(None)
                    if not self.stack:
                        res = ('block', 'noop', 0)
                    else:
                        cm, end = self.stack.pop()
                        if end in ('abort', 'abort_base', 'die'):
                            # the exception leaves every enclosing block as well (nobody catches it in between)
                            exc = BlockAbortBase('block ends') if end == 'abort_base' else BlockAbort('block ends')
                            cm.__exit__(type(exc), exc, None)
                            while self.stack:
                                cm, _ = self.stack.pop()
                                cm.__exit__(type(exc), exc, None)
                            res = ('block', 'aborted', 0)
                        else:
                            cm.__exit__(None, None, None)
                            res = ('block', 'committed' if not self.stack else 'inner-closed', len(self.stack))
                else:
                    res, _ = self.queue_call(item)
                tr.calls.append({'item': item, 'res': res, 'term': '', 'vols': []})
                i += 1
            self.close()
        return tr


class BlockMonitor:
    """The ledger of Monitor, saved when the outermost block opens and restored when that block is rolled back (exception or death)."""

    def __init__(self, objs):
        self.mon = Monitor(objs)
        self.saved = None
        self.stats = {'blocks': 0, 'blocks_rolled_back': 0, 'blocks_died': 0, 'takes_in_rolled_back_blocks': 0, 'filebacked_takes_in_rolled_back_blocks': 0}
        self.inblock = []

    @property
    def viol(self):
        return self.mon.viol

    def snapshot(self):
        m = self.mon
        return ({p: list(l) for p, l in m.q.items()}, dict(m.ord), m.seq, set(m.tainted))

    def step(self, i, item, res, push_get):
        m = self.mon
        if isinstance(res, tuple) and res and res[0] == 'block':
            what, depth = res[1], res[2]
            if what == 'opened' and depth == 0:
                self.saved = self.snapshot()
                self.inblock = []
                self.stats['blocks'] += 1
            elif what in ('aborted', 'died'):
                if self.saved is not None:
                    m.q, m.ord, m.seq, m.tainted = self.saved
                self.saved = None
                self.stats['blocks_rolled_back'] += 1
                self.stats['blocks_died'] += int(what == 'died')
                self.stats['takes_in_rolled_back_blocks'] += len(self.inblock)
                self.stats['filebacked_takes_in_rolled_back_blocks'] += sum(1 for x in self.inblock if x)
            elif what == 'committed':
                self.saved = None
            return
        if res == 'skipped':
            if item['op'] == 'pull':
                self.inblock.append(True)
            return
        if self.saved is not None and item['op'] == 'pull' and res != 'default' and not (isinstance(res, tuple) and res and res[0] == 'raise'):
            v = res[0][1]
            self.inblock.append(isinstance(v, (str, bytes)) and len(v) >= 8)
        m.step(i, item, res, push_get)


def gen_block_history(rng, kind):
    """(cfg, objs, history, prefixes): queues filled outside any block, then rounds of blocks (ending in commit / an exception / an
    exception that is not an Exception / process death) holding pulls, peeks and pushes, plain calls between the blocks, and at the
    end every queue is drained."""
    mfs = rng.choice([8, 8, 8, 32768])
    cfg = seqdrv.Config(policy=rng.choice(['none', 'least-recently-stored']), min_file_size=mfs, cull_limit=rng.choice([0, 10]))
    prefixes = rng.sample([None, 'a', 'b', 'jobs', 'q-1'], rng.choice([1, 1, 2]))
    objs, index = [], {}

    def ref(o):
        k = (type(o).__name__, repr(o)[:80], len(repr(o)))
        if k not in index:
            index[k] = len(objs)
            objs.append(o)
        return index[k]
    counter = [0]

    def value():
        counter[0] += 1
        n = counter[0]
        r = rng.random()
        if r < 0.55:
            return ('queued-value-%05d-' % n) + 'x' * max(0, mfs - 16)         # text, in a file
        if r < 0.8:
            return (b'Q%05d' % n) + b'y' * max(3, mfs - 4)                       # bytes, in a file
        if r < 0.9:
            return ('job', n, 'z' * mfs)                                        # a pickle, in a file
        return n                                                                # inline
    now = [1000.0]
    hist = []
    sides_take = ['front', 'front', 'back'] if kind != 'index' else ['front', 'front', 'back']

    def it(op, **a):
        if rng.random() < 0.2:
            now[0] += rng.choice([2 ** -10, 0.5, 1])
        hist.append({'op': op, 'args': a, 'now': now[0]})

    def push(p):
        it('push', v=ref(value()), prefix=p, side=rng.choice(['back', 'back', 'front']), expire=None, tag=(rng.choice([None, 't1']) if kind != 'index' else None))

    def take(p):
        op = rng.choice(['pull', 'pull', 'peek']) if kind != 'index' else 'pull'
        it(op, prefix=p, side=rng.choice(sides_take))
    for p in prefixes:
        for _ in range(rng.randint(3, 7)):
            push(p)
    for rnd in range(rng.randint(2, 5)):
        end = rng.choice(['abort', 'abort', 'abort_base', 'die', 'commit'])
        it('begin', end=end)
        nested = end != 'die' and rng.random() < 0.25
        for _ in range(rng.randint(1, 4)):
            p = rng.choice(prefixes)
            if rng.random() < 0.75:
                take(p)
            else:
                push(p)
        if nested:
            it('begin', end=rng.choice(['commit', 'abort']))
            take(rng.choice(prefixes))
            it('end')
            if rng.random() < 0.5:
                take(rng.choice(prefixes))
        it('end')
        for _ in range(rng.randint(0, 3)):
            p = rng.choice(prefixes)
            if rng.random() < 0.6:
                take(p)
            else:
                push(p)
    now[0] += 1
    for p in prefixes:
        npush = sum(1 for h in hist if h['op'] == 'push' and h['args'].get('prefix') == p)
        side = rng.choice(['front', 'back'])
        for _ in range(npush + 1):
            hist.append({'op': 'pull', 'args': {'prefix': p, 'side': side}, 'now': now[0]})
    return cfg, objs, hist, prefixes


def run_block_history(ctx, kind, cfg, objs, hist):
    """-> (trace or None, BlockMonitor, error)"""
    r = BlockRunner(ctx, cfg, kind)
    r.objs = objs
    bm = BlockMonitor(objs)
    main = threading.current_thread() is threading.main_thread()
    if main:
        old = signal.signal(signal.SIGALRM, _on_alarm)
        signal.alarm(HANG_SECONDS)
    tr = err = None
    try:
        tr = r.run(hist)
    except Hang as e:
        err = e
        n = len(r.push_gets)
        bm.mon.flag('op_hang', 'call %d (%s %r) did not return within %d s' % (n, hist[n]['op'] if n < len(hist) else '?',
                                                                             hist[n]['args'] if n < len(hist) else '', HANG_SECONDS), n)
    except BaseException as e:  # noqa  (BlockAbortBase must not leave the harness either)
        if isinstance(e, (KeyboardInterrupt, SystemExit)):
            raise
        err = e
        n = len(r.push_gets)
        it = hist[n] if n < len(hist) else None
        bm.mon.flag('op_raised', 'call %d (%s %r) raised %r' % (n, it['op'] if it else '?', it['args'] if it else '', e), n)
    finally:
        if main:
            signal.alarm(0)
            signal.signal(signal.SIGALRM, old)
        try:
            r.close()
        except Exception:  # noqa
            pass
        shutil.rmtree(r.dir, ignore_errors=True)
    if tr is not None:
        for i, rec in enumerate(tr.calls):
            bm.step(i, rec['item'], rec['res'], r.push_gets[i] if i < len(r.push_gets) else None)
    return tr, bm, err


def aborted_blocks(ctx, res, stats, nhist):
    import random
    rng = random.Random('C10-blocks-%d' % ctx.seed)
    agg = stats.setdefault('aborted_blocks', {'histories': 0, 'calls': 0, 'by_kind': {}})
    seen = set(v.sig for v in res.violations)
    hangs = 0
    for h in range(nhist):
        if hangs >= 2:
            break
        kind = BLOCK_KINDS[h % len(BLOCK_KINDS)]
        cfg, objs, hist, prefixes = gen_block_history(rng, kind)
        tr, bm, err = run_block_history(ctx, kind, cfg, objs, hist)
        hangs += int(isinstance(err, Hang))
        agg['histories'] += 1
        agg['calls'] += len(hist)
        agg['by_kind'][kind] = agg['by_kind'].get(kind, 0) + 1
        for k, v in bm.stats.items():
            agg[k] = agg.get(k, 0) + v
        for it in hist:
            res.count(['block', kind, cfg.cull_limit, cfg.policy, cfg.min_file_size, it['op'], sorted(it['args'].items(), key=repr), it['now']], nontrivial=True)
        for sig in sorted(set(s for s, _, _ in bm.viol)):
            if sig in seen:
                continue
            seen.add(sig)
            small = shrink(ctx, cfg, objs, hist, sig, viol_of=lambda hh: run_block_history(ctx, kind, cfg, objs, hh)[1].viol, budget=60)
            desc = ([d for s, d, _ in run_block_history(ctx, kind, cfg, objs, small)[1].viol if s == sig] or [d for s, d, _ in bm.viol if s == sig])[0]
            used = sorted(set(h_['args']['v'] for h_ in small if 'v' in h_['args']))
            remap = {old_i: new_i for new_i, old_i in enumerate(used)}
            small = [dict(h_, args=dict(h_['args'], v=remap[h_['args']['v']])) if 'v' in h_['args'] else h_ for h_ in small]
            case = gen_hist.history_json([objs[i_] for i_ in used], small, cfg)
            case['objs_repr'] = [x[:40] for x in case['objs_repr']]
            case.update({'check': 'abort_block', 'kind': kind, 'sig': sig, 'prefixes': [repr(p) for p in prefixes], 'calls_before_shrinking': len(hist)})
            res.violations.append(fw.Violation(sig, '%s [%s; queue calls inside transact blocks that end in an exception / the death of the process; '
                                                    'disk_min_file_size %d]' % (desc, kind, cfg.min_file_size), case))


# ---------------------------------------------------------------------------
# finding D11: minimal witness, replayed on every run


def witness_leak():
    d = tempfile.mkdtemp(prefix='c10wit-')
    try:
        c = diskcache.Cache(d)
        k = c.push(7, prefix='a-5')
        got = c.pull(prefix='a')
        c.close()
        return got == (k, 7) and k == 'a-5-500000000000000'
    finally:
        shutil.rmtree(d, ignore_errors=True)


def witness_collision():
    """same root cause, seen from push: the extreme row in the range of 'a' is a row of queue 'a-500000000000000' whose trailing
    number + 1 gives a key that queue 'a' already holds -> IntegrityError"""
    d = tempfile.mkdtemp(prefix='c10wit-')
    try:
        c = diskcache.Cache(d)
        q = 'a-500000000000000'
        c.push(1, prefix='a')
        c.push(2, prefix=q)
        c.push(3, prefix=q, side='front')
        c.pull(prefix=q, side='back')
        try:
            c.push(4, prefix='a')
            hit = False
        except Exception as e:
            hit = 'UNIQUE constraint' in repr(e)
        c.close()
        return hit
    finally:
        shutil.rmtree(d, ignore_errors=True)


# ---------------------------------------------------------------------------
# (c) concurrency

SCENARIOS = {
    # name: (style, [prefix of each producer], [prefix of each consumer])
    'fifo_2p1c': ('fifo', ['q', 'q'], ['q']),
    'fifo_1p2c': ('fifo', ['q'], ['q', 'q']),
    'fifo_2p2c_int': ('fifo', [None, None], [None]),
    'mirror_2p1c': ('mirror', ['q', 'q'], ['q']),
    'two_prefixes': ('fifo', ['a', 'b'], ['a', 'b']),
    'fifo_1p1c': ('fifo', ['q'], ['q']),
    # consumers that, between pulls, make calls whose transaction ends in ROLLBACK (delete of a missing key, incr of a missing
    # key without default): ordinary use of the same handle that must not change how the next pull is protected
    'fifo_1p2c_rollbacks': ('fifo', ['q'], ['q', 'q'], 'rollbacks'),
    'fifo_2p2c_rollbacks': ('fifo', [None, None], [None, None], 'rollbacks'),
}


def conc_run(scenario, items, attempts, schedule, mkdir, max_steps=30000):
    style, pp, cp = SCENARIOS[scenario][:3]
    noise = SCENARIOS[scenario][3] if len(SCENARIOS[scenario]) > 3 else None
    nprod, ncons = len(pp), len(cp)
    n = nprod + ncons
    directory = mkdir()
    diskcache.Cache(directory).close()
    caches = [None] * n
    wlock = threading.Lock()
    pushed = [[] for _ in range(nprod)]
    got = [[] for _ in range(ncons)]
    push_side, pull_side = ('back', 'front') if style == 'fifo' else ('front', 'back')
    total = {}
    for p in range(nprod):
        total[pp[p]] = total.get(pp[p], 0) + items[p]

    def warm(i):
        def w():
            with wlock:
                caches[i] = diskcache.Cache(directory, timeout=0)
                len(caches[i])
        return w

    def producer(p):
        def prog():
            c = caches[p]
            try:
                for s in range(items[p]):
                    k = c.push((p, s), prefix=pp[p], side=push_side, retry=True)
                    pushed[p].append((k, (p, s)))
            finally:
                c.close()
            return len(pushed[p])
        return prog

    def consumer(ci):
        def prog():
            c = caches[nprod + ci]
            try:
                for a in range(attempts[ci]):
                    if noise == 'rollbacks':
                        if a % 2 == 0:
                            c.delete(('no-such-key', ci), retry=True)
                        else:
                            try:
                                c.incr(('no-such-counter', ci), default=None, retry=True)
                            except KeyError:
                                pass
                    k, v = c.pull(prefix=cp[ci], side=pull_side, retry=True)
                    if k is not None:
                        got[ci].append((k, v))
            finally:
                c.close()
            return len(got[ci])
        return prog

    programs = [producer(p) for p in range(nprod)] + [consumer(c) for c in range(ncons)]
    s = sched.Scheduler(max_steps=max_steps)
    out = s.run(programs, list(schedule), warmups=[warm(i) for i in range(n)])
    result = {'overflow': bool(out['overflow']), 'steps': out['steps'], 'schedule_used': list(out['schedule_used']), 'problems': []}
    if out['overflow']:
        shutil.rmtree(directory, ignore_errors=True)
        return result
    problems = result['problems']
    for cid, e in enumerate(out['errors']):
        if e is not None:
            problems.append(('conc_error', 'client %d raised %r' % (cid, e)))
    remaining = {}
    try:
        own = diskcache.Cache(directory)
        for pref in sorted(set(pp), key=repr):
            l = []
            while True:
                k, v = own.pull(prefix=pref, side=pull_side)
                if k is None:
                    break
                l.append((k, v))
                if len(l) > 10000:
                    break
            remaining[pref] = l
        leftover = len(own)
        own.close()
        if leftover:
            problems.append(('conc_leftover_rows', '%d rows remain after draining every queue' % leftover))
    except Exception as e:
        problems.append(('conc_error', 'draining raised %r' % (e,)))
    shutil.rmtree(directory, ignore_errors=True)
    # global delivery order = order of the consumers' DELETE statements
    order, idx, usable = [], [0] * ncons, True
    for cid, what, _d in out['log']:
        if cid >= nprod and what == 'sql:DELETE':
            c = cid - nprod
            if idx[c] < len(got[c]):
                order.append((cp[c], got[c][idx[c]]))
                idx[c] += 1
            else:
                usable = False
    if any(idx[c] != len(got[c]) for c in range(ncons)):
        usable = False
    problems += conc_monitor(pp, cp, pushed, got, remaining, order if usable else None)
    result.update({'pushed': pushed, 'got': got, 'remaining': remaining, 'global_order': usable,
                   'delivered': sum(len(g) for g in got)})
    return result


def conc_monitor(pp, cp, pushed, got, remaining, order):
    """Pure accounting; holds under every interleaving."""
    out = []
    for pref in sorted(set(pp), key=repr):
        P = [it for p in range(len(pp)) if pp[p] == pref for it in pushed[p]]
        D = [it for c in range(len(cp)) if cp[c] == pref for it in got[c]]
        R = remaining.get(pref, [])
        pk = sorted(repr(x) for x in P)
        dk = sorted(repr(x) for x in D + R)
        if len(set(repr(x) for x in D)) != len(D) or any(repr(x) in set(repr(y) for y in D) for x in R):
            out.append(('conc_duplicate_delivery', 'prefix %r: an item was delivered twice: delivered %r remaining %r' % (pref, D, R)))
        elif pk != dk:
            lost = [x for x in P if repr(x) not in set(dk)]
            extra = [x for x in D + R if repr(x) not in set(pk)]
            out.append(('conc_lost_or_phantom', 'prefix %r: pushed != delivered + remaining; lost %r, not pushed %r' % (pref, lost, extra)))
        # per producer order within each consumer's own sequence, in the global delivery order, and in what remains
        seqs = [[it for it in got[c]] for c in range(len(cp)) if cp[c] == pref]
        if order is not None:
            seqs.append([it for (q, it) in order if q == pref] + R)
        else:
            seqs.append(R)
        for sq in seqs:
            last = {}
            for k, v in sq:
                if isinstance(v, tuple) and len(v) == 2:
                    p, s = v
                    if p in last and s < last[p]:
                        out.append(('conc_producer_order', 'prefix %r: item %r of producer %d delivered after its item %d' % (pref, v, p, last[p])))
                    last[p] = max(s, last.get(p, -1))
    for c in range(len(cp)):
        for k, v in got[c]:
            if not any(pp[p] == cp[c] and (k, v) in pushed[p] for p in range(len(pp))):
                out.append(('conc_wrong_queue', 'consumer of prefix %r received %r which was not pushed to that prefix' % (cp[c], (k, v))))
    return out


def conc_case(scenario, items, attempts, schedule_used, sig, desc):
    return {'check': 'conc', 'scenario': scenario, 'items': list(items), 'attempts': list(attempts),
            'schedule_used': list(schedule_used), 'sig': sig, 'observed': desc}


def concurrent(ctx, res, nrandom, enum_len, stats):
    mkdir = lambda: ctx.scratch('c10c')  # noqa: E731
    runs = overflow = delivered = 0
    seen = set()

    def one(scenario, items, attempts, schedule):
        nonlocal runs, overflow, delivered
        r = conc_run(scenario, items, attempts, schedule, mkdir)
        runs += 1
        if r['overflow']:
            overflow += 1
            return
        delivered += r.get('delivered', 0)
        res.count(['conc', scenario, items, attempts, ''.join(map(str, r['schedule_used']))[:400]], nontrivial=True)
        for sig, desc in r['problems']:
            if sig not in seen:
                seen.add(sig)
                res.violations.append(fw.Violation(sig, desc, conc_case(scenario, items, attempts, r['schedule_used'], sig, desc)))
        return r
    names = list(SCENARIOS)
    for i in range(nrandom):
        scenario = names[i % len(names)]
        style, pp, cp = SCENARIOS[scenario][:3]
        n = len(pp) + len(cp)
        items = [ctx.rng.randint(1, 4) for _ in pp]
        attempts = [ctx.rng.randint(2, 8) for _ in cp]
        length = ctx.rng.randint(20, 400)
        if i % 3 == 0:
            schedule = []
            while len(schedule) < length:
                schedule += [ctx.rng.randrange(n)] * ctx.rng.randint(1, 12)
        else:
            schedule = [ctx.rng.randrange(n) for _ in range(length)]
        r = one(scenario, items, attempts, schedule[:length])
        if i == 0 and r is not None and not r['overflow']:
            res.sample({'conc_scenario': scenario, 'items': items, 'attempts': attempts, 'steps': r['steps'],
                        'delivered': r.get('delivered'), 'remaining': {repr(k): len(v) for k, v in r.get('remaining', {}).items()}})
    # systematic: every schedule prefix of the given length over two clients (round-robin afterwards)
    nenum = 0
    for bits in itertools.product([0, 1], repeat=enum_len):
        one('fifo_1p1c', [2], [3], list(bits))
        nenum += 1
    stats['conc'] = {'scheduled_runs': runs, 'enumerated_schedules': nenum, 'enumeration_length': enum_len,
                     'step_bound_exceeded': overflow, 'items_delivered': delivered}


# ---------------------------------------------------------------------------
# thorough: free-running processes (monitor only)


def _proc_producer(directory, p, n, prefix, q):
    c = diskcache.Cache(directory)
    out = []
    for s in range(n):
        out.append((c.push((p, s), prefix=prefix, retry=True), (p, s)))
    c.close()
    q.put(('P', p, out))


def _proc_consumer(directory, ci, prefix, total, counter, deadline, q):
    c = diskcache.Cache(directory)
    out = []
    while _time.time() < deadline:
        with counter.get_lock():
            if counter.value >= total:
                break
        k, v = c.pull(prefix=prefix, retry=True)
        if k is None:
            _time.sleep(0.001)
            continue
        out.append((k, v))
        with counter.get_lock():
            counter.value += 1
    c.close()
    q.put(('C', ci, out))


def soak(ctx, res, rounds, stats):
    import multiprocessing as mp
    m = mp.get_context('fork')
    tot = 0
    for rd in range(rounds):
        directory = ctx.scratch('c10soak')
        diskcache.Cache(directory).close()
        nprod, ncons, per = 3, 2 + rd % 2, 60
        prefix = [None, 'q'][rd % 2]
        q = m.Queue()
        counter = m.Value('i', 0)
        deadline = _time.time() + 60
        procs = [m.Process(target=_proc_producer, args=(directory, p, per, prefix, q)) for p in range(nprod)]
        procs += [m.Process(target=_proc_consumer, args=(directory, c, prefix, nprod * per, counter, deadline, q)) for c in range(ncons)]
        for p in procs:
            p.start()
        msgs = [q.get(timeout=120) for _ in procs]
        for p in procs:
            p.join(timeout=30)
        pushed = [[] for _ in range(nprod)]
        got = [[] for _ in range(ncons)]
        for kind, i, out in msgs:
            (pushed if kind == 'P' else got)[i] = out
        own = diskcache.Cache(directory)
        rem = []
        while True:
            k, v = own.pull(prefix=prefix)
            if k is None:
                break
            rem.append((k, v))
        own.close()
        probs = conc_monitor([prefix] * nprod, [prefix] * ncons, pushed, got, {prefix: rem}, None)
        tot += sum(len(g) for g in got)
        res.count(['soak', rd, nprod, ncons, per], nontrivial=True)
        for sig, desc in probs:
            res.violations.append(fw.Violation(sig, desc, {'check': 'soak', 'producers': nprod, 'consumers': ncons, 'items_each': per,
                                                           'prefix': repr(prefix), 'observed': desc}))
    stats['soak'] = {'rounds': rounds, 'items_delivered': tot}


# ---------------------------------------------------------------------------


def fixed_histories(ctx, res, stats):
    """boundary histories run every time: range bounds as ordinary keys, exact expiry instants, both leaking prefixes"""
    cases = []
    objs = [0, 'v', MAX_KEY, 'lo', 'a-000000000000000', 'a-999999999999999', 'x' * 20, 'w']
    T = 1000.0

    def it(op, now=T, **a):
        return {'op': op, 'args': a, 'now': now}
    # bounds of the ranges are ordinary keys, never delivered
    cases.append(([None, 'a'], [it('set', k=0, v=1), it('set', k=2, v=3), it('set', k=4, v=3), it('set', k=5, v=3),
                                it('pull', prefix=None, side='front'), it('pull', prefix=None, side='back'),
                                it('peek', prefix='a', side='front'), it('pull', prefix='a', side='back'),
                                it('push', v=1, prefix=None, side='back'), it('push', v=6, prefix='a', side='front'),
                                it('pull', prefix=None, side='back'), it('pull', prefix='a', side='front'),
                                it('get', k=0), it('get', k=2), it('get', k=4), it('get', k=5)]))
    # exact expiry instant: an item pushed with ttl 1 at T is gone at T+1, still there one tick before
    cases.append(([None], [it('push', v=1, prefix=None, side='back', expire=1), it('push', v=7, prefix=None, side='back'),
                           it('peek', now=T + 1 - 2 ** -10, prefix=None, side='front'),
                           it('peek', now=T + 1, prefix=None, side='front'), it('pull', now=T + 1, prefix=None, side='front'),
                           it('pull', now=T + 1, prefix=None, side='front')]))
    # deque discipline on a string prefix with file-backed values
    cases.append((['b'], [it('push', v=6, prefix='b', side='back'), it('push', v=1, prefix='b', side='back'), it('push', v=7, prefix='b', side='front'),
                          it('peek', prefix='b', side='front'), it('pull', prefix='b', side='front'), it('peek', prefix='b', side='back'),
                          it('pull', prefix='b', side='back'), it('pull', prefix='b', side='front'), it('pull', prefix='b', side='front')]))
    terms, recs = [], []
    for prefixes, hist in cases:
        cfg = seqdrv.Config(policy='none', min_file_size=8, cull_limit=0)
        r, tr, mon, err = run_history(ctx, cfg, objs, hist)
        for itm in hist:
            res.count(['fixed', itm['op'], sorted(itm['args'].items(), key=repr), itm['now']], nontrivial=True)
        for k, v in mon.stats.items():
            stats.setdefault('monitor', {})[k] = stats.setdefault('monitor', {}).get(k, 0) + v
        for sig in sorted(set(s for s, _, _ in mon.viol)):
            desc = [d for s, d, _ in mon.viol if s == sig][0]
            case = gen_hist.history_json(objs, hist, cfg)
            case.update({'check': 'seq', 'sig': sig})
            res.violations.append(fw.Violation(sig, desc, case))
        if tr is not None and not ctx.search_mode:
            terms.append(seqdrv.history_check_term(r, tr, cfg))
            recs.append((objs, hist, cfg, tr))
    if terms:
        out, errs = seqdrv.model_first_mismatch('c10f', terms, chunk=3)
        for e in errs:
            res.disagreements.append(fw.Violation('model-eval', 'model evaluation failed: ' + e[-600:], {}, 'correspondence'))
        for (objs_, hist, cfg, tr), m in zip(recs, out):
            if m is not None and m >= 0:
                case = gen_hist.history_json(objs_, hist[:m + 1], cfg)
                case.update({'check': 'correspondence', 'first_mismatch': m})
                res.disagreements.append(fw.Violation('cache_model:%s' % hist[m]['op'], 'model and implementation differ at call %d of a fixed history' % m,
                                                      case, 'correspondence'))
            elif m is not None:
                res.traces_validated += 1


def run(ctx):
    res = fw.Result()
    res.rule = ('histories of push/pull/peek on both sides over 1-4 prefixes drawn from {None, a, b, a-5, a-, "", a-500000000000000} mixed with '
                'set/get/delete on ordinary keys outside the ranges of the prefixes in use (incl. the range bounds 0, 999999999999999, '
                '"a-000000000000000", "a-999999999999999"), ttls incl. 0, negative and exact expiry instants under a virtual clock, file-backed '
                'values (min_file_size 8), cull_limit in {0, 10}, policies none / least-recently-stored; every history ends by draining each queue. '
                'Monitor: per-prefix ledger (order, returned key identifies the item via cache.get, key = neighbouring number, peek = next pull, no '
                'delivery at/after the expiry instant, no interference).  Every history is also run through model/Cache.v (result + table after '
                'every call).  Runs of expired heads (monitor only, own random stream): a parameterised family of histories in which n expired, '
                'not yet removed items (n in {0, 1, 2, 9, 10, 11, 12, 20, 21, 25, 50, 100, 101, 128, 250} and random n <= 60) sit at the pulled '
                'side in front of 0-5 live items, x side front / back / both in turn x twin queues with the same content under the prefix pairs '
                '(None, a), (a, None), (a, b-1), (b-1, a), ("", b), (b, "") x inline / file-backed / mixed values x pushed from the far side, the '
                'near side or outwards from the middle x shapes (one run; a second run behind the first live item; a run that expires later; '
                'runs at both ends) x clock at the exact expiry instant or later x pushes arriving after the expiry x cull_limit 0 / 10; each '
                'step is peek on one twin, pull on the other, pull on the first (or pulls only, or peek+pull on one queue), then both are '
                'drained.  A second ledger decides: pull / peek return the empty-queue default only if no live item is queued under the prefix '
                '(pull_empty_with_live_items, peek_empty_with_live_items), and a pull that directly follows a peek from the same side at the '
                'same instant on the same queue or on a queue with the same live content returns the same item (pull_disagrees_with_peek); the '
                'first ledger checks the same histories (order, values, expiry, phantom deliveries).  '
                'Prefixes with pattern and quoting characters (monitor only): for each of the prefixes of META_PREFIXES (containing [ ] * ? % _ \\ quotes, blanks, '
                'control and non-ASCII characters, and their "-" extensions) a directed history (push back / front, peek and pull on both sides, empty again) and random histories '
                'mixing 1-3 of them with the prefixes above, decided by the first ledger.  Blocks that do not commit (monitor only): queues carried by a Cache, '
                'by FanoutCache.cache(name), by a shard of a FanoutCache inside FanoutCache.transact(), and by an Index (push / pull, Index.transact()); '
                'file-backed text / bytes / pickles at disk_min_file_size 8 or 32768 and inline values; rounds of `with transact():` blocks holding 1-5 '
                'pulls, peeks and pushes (sometimes a nested block) that end in COMMIT, in an exception, in an exception that is not an Exception, or in the '
                'death of the process that opened the block (forked, os._exit before COMMIT), plain calls between the blocks, every queue drained at the end; '
                'the first ledger is saved when the outermost block opens and restored when it is rolled back, so every item pulled inside a rolled-back '
                'block must still be delivered, once and in its place.  '
                'Concurrency: 2-4 clients with own Cache objects under the deterministic scheduler, random + all schedule prefixes '
                'of a fixed length; thorough adds free-running processes.  evaluation = one executed call or one scheduled run.')
    stats = {}
    t0 = _time.time()
    fixed_histories(ctx, res, stats)
    expired_runs(ctx, res, stats)
    stats['runs_s'] = round(_time.time() - t0, 1)
    metachar_prefixes(ctx, res, stats, 10 if ctx.quick else 120, 40)
    aborted_blocks(ctx, res, stats, 48 if ctx.quick else 600)
    stats['families_s'] = round(_time.time() - t0, 1)
    if ctx.quick:
        sequential(ctx, res, 110, 60, stats=stats)
        stats['seq_s'] = round(_time.time() - t0, 1)
        concurrent(ctx, res, 60, 7, stats)
    else:
        sequential(ctx, res, 400, 80, stats=stats)
        stats['seq_s'] = round(_time.time() - t0, 1)
        concurrent(ctx, res, 400, 10, stats)
        soak(ctx, res, 4, stats)
    if not ctx.search_mode:
        # schedule correspondence: the micro-step machine with the real push / pull / peek bodies (coq/model/TxnQueue.v) driven
        # by the schedule the implementation ran under (harness/queuecorr.py, coq/model/ConcRun.v sched_check)
        import queuecorr
        queuecorr.run(ctx, res, 300 if ctx.quick else 3000)
    res.extra.update({'op_histogram': stats.get('ops', {}), 'prefix_histogram': stats.get('prefixes', {}),
                      'monitor_counters': stats.get('monitor', {}), 'concurrency': stats.get('conc', {}), 'soak': stats.get('soak', {}),
                      'sequential_seconds': stats.get('seq_s'), 'expired_runs': stats.get('expired_runs', {}),
                      'expired_runs_seconds': stats.get('runs_s'), 'metachar_prefixes': stats.get('metachar_prefixes', {}),
                      'aborted_blocks': stats.get('aborted_blocks', {}),
                      'metachar_and_block_families_seconds': round(stats.get('families_s', 0) - stats.get('runs_s', 0), 1)})
    res.witnessed['prefix_extension_leak'] = witness_leak()
    res.witnessed['prefix_extension_collision'] = witness_collision()
    return res


def search(ctx, broken):
    """monitor only, bigger budget, boundary-biased (prefix extension, range bounds, expiry instants)"""
    res = fw.Result()
    stats = {}
    fixed_histories(ctx, res, stats)
    expired_runs(ctx, res, stats)
    metachar_prefixes(ctx, res, stats, 20 if ctx.quick else 120, 40)
    aborted_blocks(ctx, res, stats, 80 if ctx.quick else 600)
    sequential(ctx, res, 60 if ctx.quick else 200, 60, correspond=False, stats=stats)
    concurrent(ctx, res, 24 if ctx.quick else 120, 6, stats)
    res.witnessed['prefix_extension_leak'] = witness_leak()
    res.witnessed['prefix_extension_collision'] = witness_collision()
    return res


def replay(payload):
    case = payload.get('case', payload)
    ctx = fw.Ctx('C10', 'quick', 1)
    try:
        kind = case.get('check')
        if kind in ('seq', 'correspondence', 'expired_run'):
            objs, hist, cfg = gen_hist.history_from_json(case)
            r, tr, mon, err = run_history(ctx, cfg, objs, hist, observe=1 if kind == 'correspondence' else 0)
            if kind == 'expired_run' and tr is not None:
                rm = RunMonitor(objs)
                for i, rec in enumerate(tr.calls):
                    rm.step(i, rec['item'], rec['res'])
                mon.viol = rm.viol + mon.viol
            if tr is not None:
                for c in tr.calls:
                    print('  now=%-10r %-6s %-60s -> %s' % (c['item']['now'], c['item']['op'],
                          {k: (repr(objs[v])[:24] if k in ('k', 'v') else v) for k, v in c['item']['args'].items()}, repr(c['res'])[:90]))
            for sig, desc, i in mon.viol:
                print('MONITOR call %d: [%s] %s' % (i, sig, desc))
            ok = not mon.viol
            if kind == 'correspondence' and tr is not None:
                out, errs = seqdrv.model_first_mismatch('c10r', [seqdrv.history_check_term(r, tr, cfg)])
                print('model vs implementation: first mismatch at call', out[0], errs[:1])
                ok = ok and out[0] == -1
            return ok
        if kind == 'abort_block':
            objs, hist, cfg = gen_hist.history_from_json(case)
            tr, bm, err = run_block_history(ctx, case['kind'], cfg, objs, hist)
            print('queues carried by: %s; disk_min_file_size %d' % (case['kind'], cfg.min_file_size))
            for c in (tr.calls if tr is not None else []):
                print('  now=%-10r %-6s %-60s -> %s' % (c['item']['now'], c['item']['op'],
                      {k: (repr(objs[v])[:24] if k in ('k', 'v') else v) for k, v in c['item']['args'].items()}, repr(c['res'])[:90]))
            for sig, desc, i in bm.viol:
                print('MONITOR call %d: [%s] %s' % (i, sig, desc))
            return not bm.viol
        if kind == 'conc':
            r = conc_run(case['scenario'], case['items'], case['attempts'], case['schedule_used'], lambda: ctx.scratch('c10r'))
            for sig, desc in r['problems']:
                print('MONITOR [%s] %s' % (sig, desc))
            return not r['problems']
        if case.get('sig') == 'prefix_extension_collision' and kind not in ('seq', 'correspondence'):
            w = witness_collision()
            print("push(1,'a'); push(2,Q); push(3,Q,front); pull(Q,back); push(4,'a') with Q='a-500000000000000' ->", 'IntegrityError' if w else 'ok')
            return not w
        if kind == 'witness' or case.get('sig') == 'prefix_extension_leak':
            w = witness_leak()
            print("push(7, prefix='a-5'); pull(prefix='a') ->", 'returns the item of queue a-5' if w else 'default')
            return not w
        print('replay payload:', payload)
        return True
    finally:
        ctx.cleanup()
