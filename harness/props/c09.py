"""C09 -- eviction starts only at the size limit and follows the configured policy order.

(a) MONITOR, written from the property text and evaluated on every implementation trace (independent of the Coq
    model): after every call the set of rows that disappeared is computed from the table before/after.  A row that
    disappears across a write must be expired, or -- with policy != none, cull_limit != 0 and the volume() value the
    call itself read >= size_limit -- precede every survivor in policy order up to ties, where the policy keys come
    from a ledger the monitor keeps from the history alone (time of last set/add/incr, time of last
    set/add/incr/get-hit, number of get-hits and incrs since the last set/add).  The observed store_time /
    access_time / access_count columns are checked against the same ledger.  At most cull_limit rows disappear per
    write, none when it is zero; nothing but the addressed item disappears across the other calls.  cull():
    expired rows are gone, afterwards volume() <= size_limit or the cache is empty, pages are removed only after a
    volume() reading > size_limit, policy order, return value = number of rows removed.  FanoutCache: every shard's
    size_limit is size_limit / shards, and the same monitor runs per shard.  The size recorded for a row kept in a file is the size of that
    file (so volume() is what the cache occupies); FanoutCache.cull() / DjangoCache.cull() with writes skewed to one shard: each shard against
    its own share, expired rows of every shard gone, count = rows that disappeared.
(b) CORRESPONDENCE: the same histories through model/CacheRun.run_cmp (rows, counters, files, results after every call).
"""
import os
import shutil
import sqlite3
import tempfile

import fw
import instr
import seqdrv
import gen_hist
from instr import core, diskcache  # noqa: F401  (import diskcache only through instr: it honours VERIF_REPO)
from val import Stream

ID = 'C09'
TITLE = 'Eviction starts only at the size limit and follows the configured policy order'
COQ_PROP = 'C09'
LEVEL = 'proof'
TRANSLATE = ['sql', 'fanout', 'format', 'persistent', 'disk']
TRUSTED = [
    'coq/base/SqlBase.v: ORDER BY as a stable sort of the table (ties in ascending rowid), LIMIT as a prefix, DELETE ... WHERE rowid IN '
    '(SELECT ...) as removal of the selected rowids; validated by the row-level correspondence of this check after every call',
    'hand-written control skeleton of _cull / cull / set / add / incr / push / get in coq/model/Cache.v (which statement after which); '
    'tied to /repo by the same correspondence',
    'the page part of volume() (page_size * page_count) is SQLite-internal: an oracle input recorded from the implementation; every '
    'theorem quantifies over all its values',
    'FanoutCache: size_limit / shards is the exact rational in the model; Python rounds it to binary64 (checked per shard by the monitor)',
    'bulk removals under contention: a raw sqlite3 connection executing BEGIN IMMEDIATE on every shard database stands for another client holding the '
    'write lock; it is taken and released from a sched.Tracer hook on the BEGIN statements of the calling thread (timeout 0, so a busy BEGIN fails at once)',
]
ASSUMPTIONS = [
    'single client (C05/C06 cover concurrent writers); clock frozen within one call; clock and ttl values on the 2^-10 s grid',
    'rowids are distinct (INTEGER PRIMARY KEY): stated as wf and proved invariant for every reachable model state',
    'an item whose expire_time equals the clock is treated as expired by the monitor (get does); _cull itself removes only expire_time < now',
    'cull_limit >= 0 in generated configurations (a negative LIMIT means no limit in SQLite; C09_bound is stated for >= 0)',
    'persistent containers: Deque.fromcache / Index.fromcache are exercised over a Cache the caller opened with eviction_policy="none" (the policy of a cache '
    'handed to fromcache is the caller\'s choice); size_limit, cull_limit and disk_min_file_size of the container\'s cache are lowered with Cache.reset',
    'boundary limits: "eviction starts at the size limit" is read as: a set whose own volume() reading is at or above the limit, with a policy other than '
    'none and cull_limit > 0, removes at least one row (possibly the one it stored); checked only in the boundary-limit cases, where the limit is at or below '
    'the volume of the empty cache; the expected per-shard limit is size_limit / shards as Python computes it',
    'single client except for the bulk-removal contention cases, where the second client only holds locks (it writes nothing)',
    'the size of a value kept in a file is the size of that file (os.path.getsize): the monitor adds the difference between a row\'s recorded size and '
    'its file to the volume it judges by, and reports the difference itself (recorded_size_differs_from_file)',
    'second handles: the handles of one case are used one after the other (never at the same time); copy.copy of a DjangoCache shares its FanoutCache '
    'and is not generated; the ledgers of the monitor are started afresh after another process wrote (its rows are judged by the limit clauses only)',
]

POLICIES = ['least-recently-stored', 'least-recently-used', 'least-frequently-used', 'none']
CULL_LIMITS = [0, 1, 2, 10]
TICK = 2.0 ** -10
REGRESSION_SIG = 'cull_none_returns_zero'      # former finding D10 (fixed in /repo): kept so the defect is recognised by name
WRITES = ('set', 'add', 'incr', 'push')
TARGETED = ('delete', 'delitem', 'pop')
READS = ('get', 'contains', 'touch', 'len', 'iter', 'reversed', 'iterkeys', 'stats')


# ---------------------------------------------------------------------------
# driver: sequential runner that also records what volume() returned and an independent volume after each call


def occupied(directory):
    """What one cache directory occupies, read through one connection of the harness and WITHOUT trusting the size counter:
    pages: bytes of the database pages; counter: the `size` entry of the Settings table (what volume() adds to the pages);
    recorded: the sum of the sizes recorded in the rows; on_disk: the same sum with, for every row kept in a file that exists,
    the size that file really has; hits: [(sig, text)] -- the size limit is about what the cache occupies, so the size recorded for
    an item kept in a file is the size of that file, and the size counter volume() reports is the sum over the rows that are there."""
    con = sqlite3.connect(os.path.join(directory, 'cache.db'))
    try:
        ((pc,),) = con.execute('PRAGMA page_count').fetchall()
        ((ps,),) = con.execute('PRAGMA page_size').fetchall()
        ((sz,),) = con.execute('SELECT value FROM Settings WHERE key = "size"').fetchall()
        ((recorded, nrows),) = con.execute('SELECT COALESCE(SUM(size), 0), COUNT(*) FROM Cache').fetchall()
        rows = con.execute('SELECT key, filename, size FROM Cache WHERE filename IS NOT NULL ORDER BY rowid').fetchall()
    finally:
        con.close()
    on_disk, hits = recorded, []
    for key, filename, size in rows:
        try:
            real = os.path.getsize(os.path.join(directory, filename))
        except OSError:
            continue            # no such file: C08 / C17
        if size != real:
            on_disk += real - (size or 0)
            if not hits:
                key = bytes(key) if isinstance(key, memoryview) else key
                hits.append(('recorded_size_differs_from_file', 'the row of key %r records size %r, its value file %s holds %d bytes (volume() counts the recorded sizes, '
                             'so the size limit is compared with a volume that is off by the difference)' % (
                                 key if not isinstance(key, bytes) else '<%d bytes>' % len(key), size, filename, real)))
    if sz != recorded:
        hits.append(('volume_differs_from_occupied', 'volume() reports %d bytes (%d of database pages + a size counter of %d) but the %d row(s) that are there record '
                     '%d bytes of values (%d on disk): the size limit is compared with a volume that is off by %d bytes' % (
                         pc * ps + sz, pc * ps, sz, nrows, recorded, on_disk, sz - recorded)))
    return {'pages': pc * ps, 'counter': sz, 'recorded': recorded, 'on_disk': on_disk, 'hits': hits}


def volume_and_sizes(directory):
    """(volume, size hits) of one cache directory.  volume: what the cache occupies, seen from outside: the pages of the database plus
    the bytes the stored values take (see occupied: rows and files, not the size counter)."""
    o = occupied(directory)
    return o['pages'] + o['on_disk'], o['hits']


def independent_volume(directory):
    return volume_and_sizes(directory)[0]


def size_hits(directory):
    return volume_and_sizes(directory)[1]


class Runner9(seqdrv.Runner):
    def open(self):
        cache = super().open()
        inner = cache.volume
        self.readings = []
        self.readings_per_call = []
        self.post_per_call = []
        self.size_hits_per_call = []
        self.drift_per_call = []        # size counter minus the sizes recorded in the rows, after every call
        self.vol0 = independent_volume(self.dir)
        readings = self.readings

        def volume():
            v = inner()
            readings.append(v)
            return v
        cache.volume = volume
        return cache

    def call(self, item):
        del self.readings[:]
        out = super().call(item)
        self.readings_per_call.append(list(self.readings))
        o = occupied(self.dir)
        self.post_per_call.append(o['pages'] + o['on_disk'])
        self.size_hits_per_call.append(o['hits'])
        self.drift_per_call.append(o['counter'] - o['recorded'])
        return out


def rowdict(rows):
    """rowid -> dict of the columns the monitor looks at."""
    out = {}
    for (rowid, key, raw, st_, et, at, ac, tag, size, mode, filename, value) in rows:
        if isinstance(key, memoryview):
            key = bytes(key)
        out[rowid] = {'rowid': rowid, 'k': (key, int(raw)), 'store': st_, 'exp': et, 'access': at, 'count': ac, 'size': size}
    return out


def dbkey(disk, k):
    dk, raw = disk.put(k)
    if isinstance(dk, (sqlite3.Binary, memoryview)):
        dk = bytes(dk)
    return (dk, int(bool(raw)))


# ---------------------------------------------------------------------------
# the monitor


class Monitor:
    """Decides C09 from what one cache (or one shard) did.  step() returns a list of (sig, description)."""

    def __init__(self, policy, cull_limit, size_limit, stats):
        self.policy = policy
        self.cull_limit = cull_limit
        self.size_limit = size_limit
        self.ledger = {}            # (dbkey, raw) -> {'store', 'used', 'hits'}
        self.stats = stats

    # policy key of a ledger entry
    def pkey(self, e):
        if self.policy == 'least-recently-stored':
            return e['store']
        if self.policy == 'least-recently-used':
            return e['used']
        if self.policy == 'least-frequently-used':
            return e['hits']
        return 0

    def expired(self, row, now):
        return row['exp'] is not None and row['exp'] <= now

    def step(self, op, target, now, result, before, after, readings, post_vol, stored_key=None, written_size_upper=None, drift=None):
        """op: API name; target: (dbkey, raw) the call addresses (or None); result: python result of the call;
        before/after: rowdict; readings: values returned by volume() during the call; post_vol: volume seen by an
        independent connection after the call; stored_key: for push the key returned; written_size_upper: an upper bound
        on the size of the value the call stores (only used when a call evicts without consulting volume());
        drift: (before, after) the call: size counter minus the sizes recorded in the rows -- when the call itself left it unchanged, every
        volume() it read was off by exactly that much, so the eviction is judged by what the cache really occupied."""
        out = []
        corrected = ''
        if drift is not None and drift[0] == drift[1] and drift[0] != 0 and readings:
            corrected = ' (occupied: volume() returned %r, its size counter was off by %r)' % (readings[-1], drift[0])
            readings = [v - drift[0] for v in readings]
        st = self.stats
        st['calls'] += 1
        L = self.ledger
        limit = self.size_limit
        prev_row = None
        if target is not None:
            for r in before.values():
                if r['k'] == target:
                    prev_row = r
        # ---- 1. what the call did to the policy keys, from the history alone
        stored = False
        if op == 'set' and result is True:
            stored = True
        elif op == 'add' and result is True:
            stored = True
        elif op == 'push' and not (isinstance(result, tuple) and result and result[0] == 'raise'):
            stored = True
            target = stored_key
        elif op == 'incr' and not (isinstance(result, tuple) and result and result[0] == 'raise'):
            live = prev_row is not None and (prev_row['exp'] is None or prev_row['exp'] > now)
            if prev_row is not None and prev_row['exp'] is not None and prev_row['exp'] == now:
                # the expiry instant itself is C04's business: take what the implementation did
                cur = [r for r in after.values() if r['k'] == target]
                live = bool(cur) and cur[0]['exp'] is not None
            if live and target in L:
                L[target]['store'] = now
                L[target]['used'] = now
                L[target]['hits'] += 1
                st['incr_live'] += 1
            else:
                stored = True
        elif op == 'get' and result != 'default' and not (isinstance(result, tuple) and result and result[0] == 'raise'):
            if target in L:
                L[target]['used'] = now
                L[target]['hits'] += 1
                st['get_hits'] += 1
        if stored:
            L[target] = {'store': now, 'used': now, 'hits': 0}
        # ---- 2. rows that disappeared
        gone = [before[i] for i in before if i not in after]
        survivors = list(after.values())
        pseudo = None
        if stored and not any(r['k'] == target for r in survivors) and not any(r['k'] == target for r in gone):
            # inserted and evicted by the very same call
            pseudo = {'rowid': None, 'k': target, 'store': now, 'exp': None, 'access': now, 'count': 0, 'size': written_size_upper,
                      'pseudo': True}
            gone.append(pseudo)
        exp_gone = [r for r in gone if self.expired(r, now) and not r.get('pseudo')]
        pol_gone = [r for r in gone if r not in exp_gone]

        def order_check(sigprefix):
            for d in pol_gone:
                ed = L.get(d['k'])
                if ed is None:
                    continue
                for s_ in survivors:
                    es = L.get(s_['k'])
                    if es is None:
                        continue
                    if self.pkey(ed) > self.pkey(es):
                        out.append((sigprefix + 'policy_order',
                                    '%s evicted row key=%r (policy key %r) although row key=%r with smaller policy key %r survived'
                                    % (self.policy, d['k'][0], self.pkey(ed), s_['k'][0], self.pkey(es))))
                        return
                    if self.pkey(ed) == self.pkey(es):
                        st['ties_present'] += 1

        if op in WRITES:
            st['writes'] += 1
            if readings:
                st['writes_volume_read'] += 1
                if readings[-1] == limit:
                    st['writes_vol_eq_limit'] += 1
                if readings[-1] >= limit:
                    st['writes_vol_ge_limit'] += 1
            if exp_gone:
                st['writes_evicted_expired'] += 1
            if pol_gone:
                st['writes_evicted_policy'] += 1
                if readings and readings[-1] == limit:
                    st['evictions_at_exact_limit'] += 1
                if pseudo is not None:
                    st['written_row_evicted_at_once'] += 1
            if self.cull_limit == 0 and gone:
                out.append(('cull_limit_zero_removed', 'cull_limit = 0 but %s removed %d row(s): %r' % (op, len(gone), [r['k'][0] for r in gone])))
            elif self.cull_limit > 0 and len(gone) > self.cull_limit:
                out.append(('more_than_cull_limit', 'one %s removed %d rows, cull_limit = %d: %r' % (op, len(gone), self.cull_limit, [r['k'][0] for r in gone])))
            if pol_gone:
                if self.policy == 'none':
                    out.append(('none_evicted', 'policy none: %s removed the unexpired row key=%r (expire_time %r, now %r)'
                                % (op, pol_gone[0]['k'][0], pol_gone[0]['exp'], now)))
                else:
                    if readings:
                        if readings[-1] < limit:
                            out.append(('evicted_below_limit', '%s evicted unexpired row key=%r at volume %r < size_limit %r%s'
                                        % (op, pol_gone[0]['k'][0], readings[-1], limit, corrected)))
                    else:
                        # the call never read volume(): bound the volume at the time of the eviction from outside
                        known = [r['size'] for r in pol_gone if r['size'] is not None]
                        if len(known) == len(pol_gone):
                            upper = post_vol + sum(known) + 4096
                            if upper < limit:
                                out.append(('evicted_below_limit', '%s evicted unexpired row key=%r; volume was at most %r < size_limit %r '
                                            '(volume() not consulted)' % (op, pol_gone[0]['k'][0], upper, limit)))
                    order_check('')
        elif op == 'cull':
            st['cull_calls'] += 1
            over = [v for v in readings if v > limit]
            if len(over) > 1 or len(pol_gone) > 10:
                st['cull_calls_multi_page'] += 1
            if any(v == limit for v in readings):
                st['cull_vol_eq_limit'] += 1
            if pol_gone:
                st['cull_evicted_policy'] += 1
            if exp_gone:
                st['cull_removed_expired'] += 1
            if isinstance(result, int) and result != len(gone):
                if self.policy == 'none' and result == 0:
                    out.append((REGRESSION_SIG, 'policy none: cull() returned 0 although it removed %d expired row(s)' % len(gone)))
                else:
                    out.append(('cull_count', 'cull() returned %r but %d row(s) disappeared' % (result, len(gone))))
            if self.policy == 'none':
                if pol_gone:
                    out.append(('none_evicted', 'policy none: cull() removed the unexpired row key=%r' % (pol_gone[0]['k'][0],)))
            else:
                if post_vol > limit and survivors:
                    out.append(('cull_stopped_above_limit', 'after cull(): volume %r > size_limit %r and %d row(s) left'
                                % (post_vol, limit, len(survivors))))
                if len(pol_gone) > 10 * len(over):
                    out.append(('cull_removed_at_or_below_limit',
                                'cull() removed %d unexpired row(s) but only %d of its volume() readings %r exceeded size_limit %r'
                                % (len(pol_gone), len(over), readings, limit)))
                order_check('cull_')
            left = [r for r in survivors if r['exp'] is not None and 0 <= r['exp'] < now]
            if left:
                out.append(('cull_left_expired', 'after cull() the expired row key=%r (expire_time %r < now %r) is still there'
                            % (left[0]['k'][0], left[0]['exp'], now)))
        elif op == 'expire':
            if pol_gone:
                out.append(('expire_removed_unexpired', 'expire() removed the unexpired row key=%r' % (pol_gone[0]['k'][0],)))
        elif op in TARGETED:
            bad = [r for r in gone if r['k'] != target]
            if bad:
                out.append(('unexpected_removal', '%s removed another row: key=%r' % (op, bad[0]['k'][0])))
        elif op in READS:
            if gone:
                out.append(('read_removed', '%s removed row key=%r' % (op, gone[0]['k'][0])))
        # ---- 3. forget removed keys; observed policy columns against the ledger (C09_keys)
        present = set(r['k'] for r in survivors)
        for k in [k for k in L if k not in present]:
            del L[k]
        for r in survivors:
            e = L.get(r['k'])
            if e is None:
                continue
            if r['store'] != e['store']:
                out.append(('keys_store_time', 'row key=%r has store_time %r, last set/add/incr was at %r' % (r['k'][0], r['store'], e['store'])))
                e['store'] = r['store']
            if self.policy == 'least-recently-used' and r['access'] != e['used']:
                out.append(('keys_access_time', 'LRU: row key=%r has access_time %r, last set/add/incr/get-hit was at %r'
                            % (r['k'][0], r['access'], e['used'])))
                e['used'] = r['access']
            if self.policy == 'least-frequently-used' and r['count'] != e['hits']:
                out.append(('keys_access_count', 'LFU: row key=%r has access_count %r, %r get-hits/incrs since its last set/add'
                            % (r['k'][0], r['count'], e['hits'])))
                e['hits'] = r['count']
        return out


def new_stats():
    keys = ['calls', 'writes', 'writes_volume_read', 'writes_vol_eq_limit', 'writes_vol_ge_limit', 'writes_evicted_expired',
            'writes_evicted_policy', 'evictions_at_exact_limit', 'written_row_evicted_at_once', 'ties_present', 'cull_calls',
            'cull_calls_multi_page', 'cull_vol_eq_limit', 'cull_evicted_policy', 'cull_removed_expired', 'incr_live', 'get_hits',
            'histories', 'histories_with_eviction', 'fanout_histories', 'fanout_shards_checked', 'model_histories']
    st = {k: 0 for k in keys}
    st['ops'] = {}
    st['configs'] = {}
    return st


# ---------------------------------------------------------------------------
# generators


def small_values():
    """file-backed (>= min_file_size = 8) values whose sizes are multiples of 10, plus a few inline ones (size 0)."""
    return ['a' * 10, 'b' * 20, 'c' * 30, 'd' * 50, 'e' * 80, b'F' * 20, b'G' * 40, Stream(b's' * 30), 3, 7, 'ab']


def big_values():
    return ['A' * 1000, 'B' * 2500, 'C' * 4000, b'D' * 6000, 'E' * 1500, 5]


def text_values(big=False):
    """text whose UTF-8 form is longer than its length: code points of 2, 3 and 4 bytes and a mix; like the other values their sizes on disk
    are multiples of 10 bytes (20, 30, 20, 50, 80, 60), all file-backed under min_file_size = 8"""
    if big:
        return ['\xc9' * 1500, '\u20ac' * 1000, 'a\xe9\u20ac\U0001F600' * 250]
    return ['\xe9' * 10, '\u20ac' * 10, '\U0001F600' * 5, 'a\xe9\u20ac\U0001F600' * 5, '\xfc' * 40, '\u4e2d' * 20]


STREAMS = {
    # name: (clock steps, description)
    'increasing': ([TICK, 0.5, 1, 1, 2], 'strictly increasing clock'),
    'ties': ([0, 0, 0, 0, 1], 'tie-heavy clock (most calls at the same instant)'),
}


def make_history(rng, cfg, stream, n, nkeys, big=False, cull_weight=3, nonascii=False, overwrite=False):
    """overwrite: few keys, mostly stores, as many inline values as file-backed ones and short ttls -- the same key goes from a value kept in a
    file to one kept in the database and back, by set, by add / incr on an expired item, over and over"""
    steps, _ = STREAMS[stream]
    # integer keys are kept outside (0, 999999999999999): inside it they would be members of the default push queue
    keys = [10 ** 15 + i for i in range(1, nkeys // 2 + 1)] + ['k%d' % i for i in range(nkeys - nkeys // 2)]
    weights = {'set': 34, 'add': 8, 'get': 18, 'incr': 9, 'push': 5, 'touch': 2, 'delete': 2, 'pop': 2, 'contains': 2,
               'cull': cull_weight, 'expire': 1, 'len': 1}
    g = gen_hist.Gen(rng, cfg, weights=weights, keys=keys, ttls=[None, None, None, None, None, 1, 2, 5, TICK],
                     prefixes=[None, None, 'q'], steps=steps)
    g.vals = big_values() if big else small_values()
    if overwrite:
        g = gen_hist.Gen(rng, cfg, weights={'set': 46, 'add': 12, 'incr': 10, 'get': 10, 'touch': 2, 'delete': 2, 'pop': 1, 'contains': 1, 'cull': cull_weight,
                                            'expire': 1, 'len': 1},
                         keys=keys, ttls=[None, None, None, TICK, TICK, 1, 2], prefixes=[None], steps=steps)
        g.counter_keys = list(keys[:2])          # incr goes to the keys that also hold file-backed values (an expired one is replaced by the counter)
        filed = [v for v in (big_values() if big else small_values()) if not isinstance(v, int) and v != 'ab']
        g.vals = filed + [3, 7, 'ab', 0, 'x', 12][:max(3, len(filed) - 1)]
    if nonascii:
        g.vals = g.vals + text_values(big)
    hist = g.history(n)
    if stream == 'increasing':
        prev = None
        for it in hist:
            if prev is not None and it['now'] <= prev:
                it['now'] = prev + TICK
            prev = it['now']
    return g, hist


def config_for(rng, policy, cull_limit, big=False):
    cfg = seqdrv.Config(policy=policy, min_file_size=8, cull_limit=cull_limit, statistics=rng.random() < 0.25)
    if big:
        cfg.size_limit_rel = rng.choice([8000, 12000, 20000])
    else:
        cfg.size_limit_rel = rng.choice([60, 100, 150, 200, 300])
    return cfg


# ---------------------------------------------------------------------------
# running one history under the monitor


def size_upper(v, protocol):
    """Upper bound on the `size` a stored value can be accounted with: nothing larger than its serialised form is written."""
    import pickle
    if isinstance(v, Stream):
        return len(v.data)
    n = len(pickle.dumps(v, protocol=protocol))
    if isinstance(v, str):
        n = max(n, len(v.encode('utf-8', 'surrogatepass')))
    if isinstance(v, bytes):
        n = max(n, len(v))
    return n


def target_of(r, disk, item):
    a = item['args']
    if 'k' in a:
        try:
            return dbkey(disk, r.objs[a['k']])
        except Exception:
            return None
    return None


def monitor_trace(r, tr, cfg, stats):
    """Evaluates the monitor over a trace.  Returns list of (index, sig, desc)."""
    mon = Monitor(cfg.policy, cfg.cull_limit, cfg.size_limit, stats)
    disk = diskcache.Disk(r.dir, min_file_size=cfg.min_file_size, pickle_protocol=cfg.protocol)
    before = {}
    hits = []
    evicted = False
    for i, rec in enumerate(tr.calls):
        item = rec['item']
        op = item['op']
        stats['ops'][op] = stats['ops'].get(op, 0) + 1
        after = rowdict(rec['obs'][0])
        target = target_of(r, disk, item)
        stored_key = None
        if op == 'push' and not (isinstance(rec['res'], tuple) and rec['res'] and rec['res'][0] == 'raise'):
            stored_key = (rec['res'], 1)
        p0 = stats['writes_evicted_policy'] + stats['cull_evicted_policy']
        wsu = size_upper(r.objs[item['args']['v']], cfg.protocol) if 'v' in item['args'] else 64
        dpc = getattr(r, 'drift_per_call', [])
        drift = (dpc[i - 1] if i > 0 else 0, dpc[i]) if i < len(dpc) else None
        for sig, desc in mon.step(op, target, item['now'], rec['res'], before, after, r.readings_per_call[i],
                                  r.post_per_call[i], stored_key, wsu, drift=drift):
            hits.append((i, sig, desc))
        if stats['writes_evicted_policy'] + stats['cull_evicted_policy'] > p0:
            evicted = True
        for sig, desc in (r.size_hits_per_call[i] if i < len(getattr(r, 'size_hits_per_call', [])) else []):
            hits.append((i, sig, desc))
        before = after
    stats['histories'] += 1
    if evicted:
        stats['histories_with_eviction'] += 1
    return hits


def run_history(ctx, cfg, objs, hist):
    r = Runner9(ctx, cfg, observe_every=1)
    r.objs = objs
    tr = r.run(hist)
    return r, tr


def clone_cfg(cfg):
    c = seqdrv.Config(**cfg.to_json())
    if getattr(cfg, 'size_limit_rel', None) is not None:
        c.size_limit_rel = cfg.size_limit_rel
    return c


def case_json(cfg, objs, hist, index, sig, desc, stream):
    j = gen_hist.history_json(objs, hist[:index + 1], cfg)
    j.update({'check': 'history', 'index': index, 'sig': sig, 'what': desc, 'stream': stream,
              'size_limit_rel': getattr(cfg, 'size_limit_rel', None)})
    return j


def shrink(ctx, cfg, objs, hist, index, sig, budget=40):
    """Greedy: drop earlier calls while the same signature still fires at the last call."""
    ops = list(hist[:index + 1])

    def fires(cand):
        c = clone_cfg(cfg)
        r, tr = run_history(ctx, c, objs, cand)
        hits = monitor_trace(r, tr, c, new_stats())
        shutil.rmtree(r.dir, ignore_errors=True)
        return [h for h in hits if h[1] == sig and h[0] == len(cand) - 1]
    runs = 0
    chunk = max(1, len(ops) // 2)
    while chunk >= 1 and runs < budget:
        i = 0
        changed = False
        while i + chunk < len(ops) and runs < budget:
            cand = ops[:i] + ops[i + chunk:]
            runs += 1
            try:
                ok = fires(cand)
            except Exception:
                ok = []
            if ok:
                ops = cand
                changed = True
            else:
                i += chunk
        if not changed:
            chunk //= 2
    return ops


def monitored_histories(ctx, res, stats, plan, keep_for_model=None, want_shrink=True, overwrite=False):
    """plan: list of (policy, cull_limit, stream, length, nkeys, big).  Runs each history on the implementation under the
    monitor; appends (runner, trace, cfg, objs, hist) to keep_for_model for small-value histories."""
    seen_sigs = set()
    for (policy, cull_limit, stream, n, nkeys, big) in plan:
        cfg = config_for(ctx.rng, policy, cull_limit, big)
        cw = 8 if cull_limit == 0 else 3
        g, hist = make_history(ctx.rng, cfg, stream, n, nkeys, big, cull_weight=cw, nonascii=keep_for_model is None and not overwrite, overwrite=overwrite)
        r, tr = run_history(ctx, cfg, g.objs, hist)
        ckey = '%s/cull_limit=%d/%s%s%s' % (policy, cull_limit, stream, '/big' if big else '', '/overwrite' if overwrite else '')
        if overwrite:
            sizes = [dict((row[1] if not isinstance(row[1], memoryview) else bytes(row[1]), row[8]) for row in rec['obs'][0]) for rec in tr.calls]
            stats['file_to_inline_overwrites'] = stats.get('file_to_inline_overwrites', 0) + sum(
                1 for a, b in zip(sizes, sizes[1:]) for k_ in a if a[k_] and k_ in b and not b[k_])
        stats['configs'][ckey] = stats['configs'].get(ckey, 0) + 1
        p0 = (stats['writes_evicted_policy'], stats['writes_evicted_expired'], stats['cull_evicted_policy'])
        hits = monitor_trace(r, tr, cfg, stats)
        nontrivial = (stats['writes_evicted_policy'], stats['writes_evicted_expired'], stats['cull_evicted_policy']) != p0
        res.count(['hist', cfg.to_json(), [(h['op'], sorted(h['args'].items()), h['now']) for h in hist]], nontrivial=nontrivial)
        res.sample({'config': cfg.to_json(), 'stream': stream, 'calls': len(hist),
                    'first_calls': [(h['op'], {k: (repr(g.objs[v])[:24] if k in ('k', 'v') else v) for k, v in h['args'].items()}, h['now'])
                                    for h in hist[:6]],
                    'rows_at_end': len(tr.calls[-1]['obs'][0]) if tr.calls else 0}, limit=3)
        for (i, sig, desc) in hits:
            if sig in seen_sigs:
                continue
            seen_sigs.add(sig)
            ops = hist[:i + 1]
            if want_shrink and sig != REGRESSION_SIG:
                try:
                    ops = shrink(ctx, cfg, g.objs, hist, i, sig)
                except Exception:
                    ops = hist[:i + 1]
            case = case_json(cfg, g.objs, ops, len(ops) - 1, sig, desc, stream)
            res.violations.append(fw.Violation(sig, desc, case))
        if keep_for_model is not None and not big:
            keep_for_model.append((r, tr, cfg, g.objs, hist, stream))
        else:
            shutil.rmtree(r.dir, ignore_errors=True)


def directed_cull_histories(ctx, res, stats, n, keep_for_model):
    """cull() whose loop test lands exactly on volume == size_limit: with cull_limit = 0 nothing is evicted lazily, so a first
    pass under a huge limit shows the table the final cull() will see; size_limit is then set to the volume that is left after
    the expired rows and the first k pages (10 rows each, in policy order) are gone, and the same history is run again."""
    pols = [p for p in POLICIES if p != 'none']
    col = {'least-recently-stored': 3, 'least-recently-used': 5, 'least-frequently-used': 6}
    for j in range(n):
        policy = pols[j % len(pols)]
        pages = 1 + (j // len(pols)) % 2
        cfg1 = seqdrv.Config(policy=policy, min_file_size=8, cull_limit=0, size_limit=2 ** 40)
        g, hist = make_history(ctx.rng, cfg1, 'increasing', 110, 56, False, cull_weight=0)
        hist = [h for h in hist if h['op'] not in ('cull', 'expire')]
        hist.append({'op': 'cull', 'args': {}, 'now': hist[-1]['now'] + 1})
        r1, tr1 = run_history(ctx, cfg1, g.objs, hist)
        rows = tr1.calls[-2]['obs'][0]
        v_before = r1.post_per_call[-2]
        shutil.rmtree(r1.dir, ignore_errors=True)
        now_c = hist[-1]['now']
        dead = [x for x in rows if x[4] is not None and 0 <= x[4] < now_c]
        live = sorted([x for x in rows if x not in dead], key=lambda x: (x[col[policy]], x[0]))
        if len(live) < 10 * pages + 2:
            continue
        # (with a tie across the page boundary SQLite picks by rowid, as sorted here; if it ever picked differently the
        #  equality would merely be missed -- the monitor itself is tie-insensitive)
        gone_size = sum(x[8] for x in dead) + sum(x[8] for x in live[:10 * pages])
        if sum(x[8] for x in live[:10]) == 0:
            continue
        cfg2 = seqdrv.Config(policy=policy, min_file_size=8, cull_limit=0, size_limit=v_before - gone_size)
        r2, tr2 = run_history(ctx, cfg2, g.objs, hist)
        ckey = '%s/cull_limit=0/directed-cull-%dp' % (policy, pages)
        stats['configs'][ckey] = stats['configs'].get(ckey, 0) + 1
        hits = monitor_trace(r2, tr2, cfg2, stats)
        res.count(['directed', cfg2.to_json(), [(h['op'], sorted(h['args'].items()), h['now']) for h in hist]], nontrivial=True)
        seen = set(v.sig for v in res.violations)
        for (i, sig, desc) in hits:
            if sig in seen:
                continue
            seen.add(sig)
            res.violations.append(fw.Violation(sig, desc, case_json(cfg2, g.objs, hist, i, sig, desc, 'increasing')))
        if keep_for_model is not None:
            keep_for_model.append((r2, tr2, cfg2, g.objs, hist, 'increasing'))
        else:
            shutil.rmtree(r2.dir, ignore_errors=True)


# ---------------------------------------------------------------------------
# correspondence with the Coq model


def correspondence(ctx, res, stats, kept):
    if not kept:
        return
    rc, log, _ = fw.coq_make(['model/CacheRun.vo'])
    if rc != 0:
        res.disagreements.append(fw.Violation('model-build', 'model/CacheRun.vo does not build: ' + log[-400:], {}, 'correspondence'))
        return
    terms = [seqdrv.history_check_term(r, tr, cfg) for (r, tr, cfg, objs, hist, stream) in kept]
    out, errs = seqdrv.model_first_mismatch('c09', terms, chunk=2)
    for e in errs[:3]:
        res.disagreements.append(fw.Violation('model-eval', 'model evaluation failed: ' + e[-400:], {}, 'correspondence'))
    nbad = 0
    for (r, tr, cfg, objs, hist, stream), v in zip(kept, out):
        if v is None:
            continue
        stats['model_histories'] += 1
        if v == -1:
            res.traces_validated += 1
        elif nbad < 4:
            nbad += 1
            rec = tr.calls[v]
            case = case_json(cfg, objs, hist, v, 'model_mismatch', 'model and implementation differ at call %d (%s)' % (v, rec['item']['op']), stream)
            case['check'] = 'model_history'
            case['impl_result'] = repr(rec['res'])[:200]
            case['impl_rows'] = [list(map(lambda x: repr(x)[:40], row[:7])) for row in rec['obs'][0]][:20]
            res.disagreements.append(fw.Violation('model_mismatch:%s' % rec['item']['op'],
                                                  'model/Cache.v and the implementation differ at call %d (%s) of a %s history, policy %s cull_limit %d'
                                                  % (v, rec['item']['op'], stream, cfg.policy, cfg.cull_limit), case, 'correspondence'))
    for (r, tr, cfg, objs, hist, stream) in kept:
        shutil.rmtree(r.dir, ignore_errors=True)


# ---------------------------------------------------------------------------
# FanoutCache: size_limit / shards per shard, and the monitor per shard


def fanout_history(ctx, res, stats, shards, policy, cull_limit, nops, stream, exact):
    d = ctx.scratch('c09f')
    clock = instr.Clock(1000.0)
    rng = ctx.rng
    hits = []
    log = []
    with instr.Installed(clock):
        probe = diskcache.Cache(os.path.join(ctx.scratch('c09p'), 'p'))
        v0 = probe.volume()
        probe.close()
        rel = rng.choice([60, 100, 150])
        total = shards * (v0 + rel) + (0 if exact else rng.choice([1, shards - 1 if shards > 2 else 1]))
        fc = diskcache.FanoutCache(d, shards=shards, size_limit=total, eviction_policy=policy, cull_limit=cull_limit,
                                   disk_min_file_size=8)
        case0 = {'check': 'fanout', 'shards': shards, 'size_limit': total, 'policy': policy, 'cull_limit': cull_limit, 'stream': stream}
        want = total / shards
        mons = []
        readings = []
        for idx, sh in enumerate(fc._shards):
            stats['fanout_shards_checked'] += 1
            got_attr = sh.size_limit
            con = sqlite3.connect(os.path.join(sh.directory, 'cache.db'))
            ((got_db,),) = con.execute('SELECT value FROM Settings WHERE key = "size_limit"').fetchall()
            con.close()
            if got_attr != want or got_db != want:
                desc = 'shard %d of %d has size_limit %r (Settings %r), expected %r / %d = %r' % (idx, shards, got_attr, got_db, total, shards, want)
                hits.append(('fanout_shard_limit', desc))
            mons.append(Monitor(policy, cull_limit, got_attr, stats))
            rd = []
            readings.append(rd)
            inner = sh.volume

            def volume(inner=inner, rd=rd):
                v = inner()
                rd.append(v)
                return v
            sh.volume = volume
        steps = STREAMS[stream][0]
        keys = [10 ** 15 + i for i in range(1, 9)] + ['k%d' % i for i in range(8)]
        vals = small_values() + text_values()
        befores = [rowdict(seqdrv.observe(sh.directory)[0]) for sh in fc._shards]
        now = 1000.0
        for step in range(nops):
            now += rng.choice(steps)
            if stream == 'increasing' and log and now <= log[-1][2]:
                now = log[-1][2] + TICK
            clock.set(now)
            op = rng.choice(['set'] * 6 + ['get'] * 3 + ['incr', 'add', 'cull'])
            k = rng.choice(keys)
            for rd in readings:
                del rd[:]
            wsu = 64
            try:
                if op == 'set':
                    v = rng.choice(vals)
                    wsu = size_upper(v, 5)
                    ttl = rng.choice([None, None, None, 1, 2])
                    result = fc.set(k, v.open() if isinstance(v, Stream) else v, expire=ttl, read=isinstance(v, Stream))
                    log.append((op, repr(k), now, repr(v)[:16], ttl))
                elif op == 'add':
                    v = rng.choice(vals)
                    wsu = size_upper(v, 5)
                    result = fc.add(k, v.open() if isinstance(v, Stream) else v, read=isinstance(v, Stream))
                    log.append((op, repr(k), now, repr(v)[:16], None))
                elif op == 'get':
                    got = fc.get(k, default=seqdrv.SENT)
                    result = 'default' if got is seqdrv.SENT else got
                    log.append((op, repr(k), now))
                elif op == 'incr':
                    k = rng.choice(['c1', 'c2'])
                    result = fc.incr(k, 1, 0)
                    log.append((op, repr(k), now))
                else:
                    result = None
                    log.append((op, None, now))
            except TypeError:
                result = ('raise', 'TypeError')
            idx_t = fc._hash(k) % shards
            for idx, sh in enumerate(fc._shards):
                after = rowdict(seqdrv.observe(sh.directory)[0])
                post, sized = volume_and_sizes(sh.directory)
                if op == 'cull':
                    # FanoutCache.cull sums the shards: drive each shard's own cull() so the count is per shard
                    del readings[idx][:]
                    result_s = sh.cull()
                    after = rowdict(seqdrv.observe(sh.directory)[0])
                    post, sized = volume_and_sizes(sh.directory)
                    out = mons[idx].step('cull', None, now, result_s, befores[idx], after, list(readings[idx]), post)
                elif idx == idx_t:
                    out = mons[idx].step(op, dbkey(sh.disk, k), now, result, befores[idx], after, list(readings[idx]), post, None, wsu)
                else:
                    out = mons[idx].step('len', None, now, None, befores[idx], after, [], post)
                    out = [(('fanout_other_shard_changed' if s == 'read_removed' else s), dsc) for s, dsc in out]
                befores[idx] = after
                for s, dsc in out + sized:
                    hits.append((s, 'shard %d/%d: %s' % (idx, shards, dsc)))
            if hits:
                break
        fc.close()
    stats['fanout_histories'] += 1
    res.count(['fanout', shards, total, policy, cull_limit, stream, log], nontrivial=True)
    seen = set()
    for sig, desc in hits:
        if sig in seen:
            continue
        seen.add(sig)
        case = dict(case0)
        case.update({'ops': log[-40:], 'sig': sig, 'what': desc})
        res.violations.append(fw.Violation(sig, desc, case))


def fanout_checks(ctx, res, stats, n):
    combos = [(sh, p, cl) for sh in (2, 3) for p in POLICIES for cl in (1, 2, 10, 0)]
    ctx.rng.shuffle(combos)
    for j in range(n):
        sh, p, cl = combos[j % len(combos)]
        fanout_history(ctx, res, stats, sh, p, cl, 70, 'increasing' if j % 3 else 'ties', exact=(j % 2 == 0))


# ---------------------------------------------------------------------------
# regression witness (former finding D10): policy none, one expired row, cull() must return 1


def witness_cull_none():
    d = tempfile.mkdtemp(prefix='c09wit-')
    clock = instr.Clock(1000.0)
    try:
        with instr.Installed(clock):
            c = diskcache.Cache(d, eviction_policy='none')
            c.set('a', 1, expire=1)
            clock.set(1002.0)
            n = c.cull()
            left = len(c)
            c.close()
        return n, left
    finally:
        shutil.rmtree(d, ignore_errors=True)


def witness_cull_expired_first():
    """cull() removes EVERY expired item before it looks at the size limit, also when more than one page (100 rows) of
    them share one expire time; live items stay while the volume is below the limit."""
    out = []
    for policy in POLICIES:
        for nexp in (100, 101, 150, 230):
            d = tempfile.mkdtemp(prefix='c09exp-')
            clock = instr.Clock(1000.0)
            try:
                with instr.Installed(clock):
                    c = diskcache.Cache(d, eviction_policy=policy, cull_limit=0)
                    for i in range(5):
                        c.set('live%d' % i, i)
                    for i in range(nexp):
                        c.set('dead%03d' % i, i, expire=10)
                    clock.set(1020.0)
                    n = c.cull()
                    keys = sorted(c)
                    c.close()
                live = [k for k in keys if k.startswith('live')]
                dead = [k for k in keys if k.startswith('dead')]
                if n != nexp or dead or len(live) != 5:
                    out.append((policy, nexp, n, len(live), len(dead)))
            finally:
                shutil.rmtree(d, ignore_errors=True)
    return out


def witnesses(res):
    for policy, nexp, n, nlive, ndead in witness_cull_expired_first()[:2]:
        res.violations.append(fw.Violation('cull_expired_first', 'policy %s, volume far below size_limit: 5 live items and %d items expired at one instant; cull() returned %r '
                                           'and left %d live / %d expired items (expected %d, 5, 0)' % (policy, nexp, n, nlive, ndead, nexp),
                                           {'check': 'witness_cull_expired_first', 'policy': policy, 'expired': nexp}))
    n, left = witness_cull_none()
    res.witnessed[REGRESSION_SIG] = (n == 0 and left == 0)
    if n != 1 or left != 0:
        res.violations.append(fw.Violation(REGRESSION_SIG if n == 0 else 'cull_count',
                                           'Cache(eviction_policy="none"): set("a", 1, expire=1); 2 s later cull() returned %r, len = %r (expected 1, 0)' % (n, left),
                                           {'check': 'witness_cull_none'}))


# ---------------------------------------------------------------------------
# "policy 'none' (used by Deque and Index) never evicts": every way of obtaining a persistent container, driven to and
# beyond a small size limit


CONTAINER_WAYS = [
    # (way, kind)
    ('Deque(directory=d)', 'deque'),
    ('Deque(iterable, directory=d)', 'deque'),
    ('Deque.fromcache(Cache(d, eviction_policy="none"))', 'deque'),
    ('FanoutCache.deque(name)', 'deque'),
    ('DjangoCache.deque(name)', 'deque'),
    ('Index(d)', 'index'),
    ('Index(d, pairs)', 'index'),
    ('Index.fromcache(Cache(d, eviction_policy="none"))', 'index'),
    ('FanoutCache.index(name)', 'index'),
    ('DjangoCache.index(name)', 'index'),
    ('FanoutCache.cache(name, eviction_policy="none")', 'cache'),
]
CONTAINER_KIND = dict(CONTAINER_WAYS)


def _cvalue(desc):
    t, n = desc
    if t == 't':
        return chr(97 + n % 26) * n
    if t == 'b':
        return bytes([65 + n % 26]) * n
    return n


def _obtain(way, d, name, first):
    """Returns (container, closers): the container obtained in the named way over directory d (`first`: the directory is new)."""
    init = [_cvalue(('t', 40)), 7] if first else []
    if way == 'Deque(directory=d)':
        c = diskcache.Deque(directory=d)
        return c, [c.cache], []
    if way == 'Deque(iterable, directory=d)':
        c = diskcache.Deque(init, directory=d)
        return c, [c.cache], init
    if way == 'Deque.fromcache(Cache(d, eviction_policy="none"))':
        cache = diskcache.Cache(d, eviction_policy='none')
        return diskcache.Deque.fromcache(cache, init), [cache], init
    if way == 'Index(d)':
        c = diskcache.Index(d)
        return c, [c.cache], []
    if way == 'Index(d, pairs)':
        pairs = [('init%d' % i, v) for i, v in enumerate(init)]
        c = diskcache.Index(d, pairs)
        return c, [c.cache], pairs
    if way == 'Index.fromcache(Cache(d, eviction_policy="none"))':
        cache = diskcache.Cache(d, eviction_policy='none')
        pairs = [('init%d' % i, v) for i, v in enumerate(init)]
        return diskcache.Index.fromcache(cache, pairs), [cache], pairs
    if way.startswith('FanoutCache.'):
        parent = diskcache.FanoutCache(d, shards=2)
    elif way.startswith('DjangoCache.'):
        from diskcache.djangocache import DjangoCache
        parent = DjangoCache(d, {'SHARDS': 2})
    else:
        raise ValueError(way)
    meth = way.split('.')[1].split('(')[0]
    if meth == 'cache':
        c = parent.cache(name, eviction_policy='none')
        return c, [c, parent], []
    c = getattr(parent, meth)(name)
    return c, [c.cache, parent], []


def _contents(kind, c):
    if kind == 'deque':
        return list(c)
    if kind == 'index':
        return list(c.items())
    return [(k, c[k]) for k in c]


def container_case(case, d):
    """One persistent container, obtained as case['way'], with its size limit lowered to volume(empty) + case['rel']:
    the effective policy must be 'none' (object and Settings table), and however many items are stored -- far beyond the
    limit -- nothing stored may disappear across a write or an explicit cull(), also after the container is obtained again.
    Returns (hits, info)."""
    way, name = case['way'], case.get('name', 'jobs')
    kind = CONTAINER_KIND[way]
    hits = []
    info = {'writes': 0, 'writes_at_or_over_limit': 0, 'rows': 0}
    clock = instr.Clock(1000.0)
    with instr.Installed(clock):
        c, closers, init = _obtain(way, d, name, True)
        cache = c if kind == 'cache' else c.cache
        directory = cache.directory

        def settings_policy():
            con = sqlite3.connect(os.path.join(directory, 'cache.db'))
            try:
                ((p,),) = con.execute('SELECT value FROM Settings WHERE key = "eviction_policy"').fetchall()
                return p
            finally:
                con.close()

        def policy_check(when):
            got, db = cache.eviction_policy, settings_policy()
            if got != 'none' or db != 'none':
                hits.append(('container_policy:%s' % kind,
                             '%s %s: the cache behind the %s has eviction_policy %r (Settings table %r), expected "none"'
                             % (way, when, kind, got, db)))
        policy_check('(new directory)')
        limit = cache.volume() + case['rel']
        cache.reset('size_limit', limit)
        cache.reset('cull_limit', case['cull_limit'])
        cache.reset('disk_min_file_size', case['min_file_size'])
        ref = list(init)
        try:
            for i, desc in enumerate(case['vals']):
                clock.advance(TICK)
                if i == case.get('reopen_at'):
                    for x in closers:
                        x.close()
                    c, closers, _ = _obtain(way, d, name, False)
                    cache = c if kind == 'cache' else c.cache
                    policy_check('(obtained again over the existing directory)')
                v = _cvalue(desc)
                if kind == 'deque':
                    if desc[1] % 3 == 0:
                        c.appendleft(v)
                        ref.insert(0, v)
                    else:
                        c.append(v)
                        ref.append(v)
                elif kind == 'index':
                    c['k%d' % i] = v
                    ref.append(('k%d' % i, v))
                else:
                    c.set('k%d' % i, v)
                    ref.append(('k%d' % i, v))
                info['writes'] += 1
                vol = independent_volume(directory)
                if vol >= limit:
                    info['writes_at_or_over_limit'] += 1
                con = sqlite3.connect(os.path.join(directory, 'cache.db'))
                try:
                    ((nrows,),) = con.execute('SELECT COUNT(*) FROM Cache').fetchall()
                finally:
                    con.close()
                if nrows != len(ref) or i == len(case['vals']) - 1:
                    got = _contents(kind, c)
                    if got != ref:
                        missing = [x for x in ref if x not in got]
                        hits.append(('container_lost_items:%s' % kind,
                                     '%s, size_limit = volume(empty) + %d = %d, cull_limit %d: after %d stores (volume now %d) the %s holds %d of the '
                                     '%d items stored; first missing: %s' % (way, case['rel'], limit, case['cull_limit'], i + 1, vol, kind, len(got),
                                                                            len(ref), repr(missing[0])[:60] if missing else 'none (order differs)')))
                        break
            if not hits:
                n = cache.cull()
                got = _contents(kind, c)
                if n != 0 or got != ref:
                    hits.append(('container_cull_removed:%s' % kind,
                                 '%s, size_limit %d, volume %d: cull() on the cache behind the %s returned %r and left %d of %d items'
                                 % (way, limit, independent_volume(directory), kind, n, len(got), len(ref))))
            info['rows'] = len(ref)
        finally:
            for x in closers:
                try:
                    x.close()
                except Exception:
                    pass
    return hits, info


def container_cases(rng, quick):
    out = []
    reps = 2 if quick else 6
    for rep in range(reps):
        for way, kind in CONTAINER_WAYS:
            mfs = rng.choice([8, 8, 32768])
            n = rng.choice([30, 45]) if quick else rng.choice([40, 80, 160])
            vals = []
            for i in range(n):
                t = rng.choice('ttbbi')
                vals.append((t, rng.choice([10, 20, 30, 50, 80, 300, 900, 2500]) if t != 'i' else rng.randrange(1000)))
            if mfs == 32768:
                vals[rng.randrange(n)] = ('b', 40000)
            out.append({'check': 'container', 'way': way, 'name': rng.choice(['jobs', 'a/b', 'x']), 'rel': rng.choice([60, 100, 300, 4096]),
                        'cull_limit': rng.choice([1, 2, 10, 10]), 'min_file_size': mfs, 'vals': vals,
                        'reopen_at': rng.choice([None, n // 2, n // 3])})
    return out


def container_checks(ctx, res, stats, cases):
    seen = set(v.sig for v in res.violations)
    st = stats.setdefault('containers', {'cases': 0, 'stores': 0, 'stores_at_or_over_size_limit': 0, 'ways': {}})
    for case in cases:
        d = os.path.join(ctx.scratch('c09c'), 'c')
        try:
            hits, info = container_case(case, d)
        except Exception as e:  # noqa
            hits, info = [('container_raised:%s' % type(e).__name__, '%s: %s: %s' % (case['way'], type(e).__name__, str(e)[:200]))], {}
        st['cases'] += 1
        st['stores'] += info.get('writes', 0)
        st['stores_at_or_over_size_limit'] += info.get('writes_at_or_over_limit', 0)
        st['ways'][case['way']] = st['ways'].get(case['way'], 0) + 1
        res.count(['container', case], nontrivial=info.get('writes_at_or_over_limit', 0) > 0)
        for sig, desc in hits:
            if sig in seen:
                continue
            seen.add(sig)
            c = dict(case)
            c.update({'sig': sig, 'what': desc})
            res.violations.append(fw.Violation(sig, desc, c))
        shutil.rmtree(os.path.dirname(d), ignore_errors=True)


# ---------------------------------------------------------------------------
# FanoutCache bulk removals (cull / expire / evict / clear) that meet a busy shard in the middle: the count they return
# must be the number of items they removed


class ShardLocker:
    """Another client: raw connections holding the write lock of every shard database."""

    def __init__(self, dirs):
        self.cons = [sqlite3.connect(os.path.join(sd, 'cache.db'), timeout=0, isolation_level=None) for sd in dirs]
        self.held = False

    def lock(self):
        for c in self.cons:
            c.execute('BEGIN IMMEDIATE')
        self.held = True

    def release(self):
        if self.held:
            for c in self.cons:
                c.execute('ROLLBACK')
            self.held = False

    def close(self):
        self.release()
        for c in self.cons:
            c.close()


BULK_SPIN_BUDGET = 4000


def bulk_contention_case(case, d, stats=None):
    """FanoutCache(timeout=0) holding more than one page of removable items per shard.  The bulk removal case['op'] runs
    while, for each (t, k) in case['episodes'], another connection takes the write lock of every shard just before the
    call's t-th BEGIN and releases it just before its (t+k)-th (so k consecutive attempts fail, whichever shard they hit).
    Decided from rows read through an independent connection before and after: the returned count is the number of rows
    that disappeared; cull per shard: the clauses of Monitor; expire: exactly the expired rows; evict: exactly the tagged
    rows; clear: everything.  Returns (hits, info)."""
    import sched
    op, shards, policy = case['op'], case['shards'], case['policy']
    stats = stats if stats is not None else new_stats()
    rng = __import__('random').Random(case['seed'])
    hits = []
    info = {'begins': 0, 'failed_begins': 0, 'locked': 0, 'partial_before_lock': False}
    clock = instr.Clock(1000.0)
    with instr.Installed(clock):
        total_limit = 2 ** 30
        fc = diskcache.FanoutCache(os.path.join(d, 'f'), shards=shards, timeout=0, size_limit=total_limit, eviction_policy=policy,
                                   cull_limit=0, disk_min_file_size=8)
        sizes = [10, 20, 30, 50, 80] if op == 'cull' else [3]
        for i in range(case['items']):
            clock.advance(TICK)
            r = rng.random()
            n = rng.choice(sizes)
            v = ('v' * n) if n >= 8 else i
            fc.set('k%d' % i, v, expire=(1 if r < case['expiring'] else None), tag=('t' if rng.random() < case['tagged'] else None), retry=True)
            if policy in ('least-recently-used', 'least-frequently-used') and rng.random() < 0.3:
                fc.get('k%d' % rng.randrange(i + 1), retry=True)
        clock.set(clock.now + 10)
        now = clock.now
        dirs = [sh.directory for sh in fc._shards]
        if op == 'cull':
            # the limit of every shard is lowered so that about case['fraction'] of what the shard stores has to go (several pages of 10)
            for sh in fc._shards:
                stored = sum(r[8] for r in seqdrv.observe(sh.directory)[0])
                sh.reset('size_limit', independent_volume(sh.directory) - int(case['fraction'] * stored))
        limits = [sh.size_limit for sh in fc._shards]
        readings = []
        for sh in fc._shards:
            rd = []
            readings.append(rd)
            inner = sh.volume

            def volume(inner=inner, rd=rd):
                v = inner()
                rd.append(v)
                return v
            sh.volume = volume
        for sh in fc._shards:
            sh.close()
        befores = [rowdict(seqdrv.observe(sd)[0]) for sd in dirs]
        tags = [dict((r[0], r[7]) for r in seqdrv.observe(sd)[0]) for sd in dirs]
        locker = ShardLocker(dirs)
        takes = dict((t, k) for t, k in case['episodes'])
        releases = dict((t + k, True) for t, k in case['episodes'])
        gave_up = []

        def hook(ev):
            if ev.kind == 'sql' and ev.what == 'BEGIN':
                info['begins'] += 1
                b = info['begins']
                if b in releases and locker.held:
                    locker.release()
                if b in takes and not locker.held:
                    # rows already removed by this call?
                    gone_now = sum(len([i for i in befores[j] if i not in rowdict(seqdrv.observe(sd)[0])]) for j, sd in enumerate(dirs))
                    if gone_now:
                        info['partial_before_lock'] = True
                    locker.lock()
                    info['locked'] += 1
                if locker.held:
                    info['failed_begins'] += 1
                    if info['failed_begins'] > BULK_SPIN_BUDGET:
                        locker.release()
                        gave_up.append(b)
        tracer = sched.Tracer(before=hook, clock=clock)
        result = None
        try:
            with tracer:
                for sh in fc._shards:
                    sh._con
                tracer.enable(True)
                try:
                    if op == 'cull':
                        result = fc.cull(retry=case['retry'])
                    elif op == 'expire':
                        result = fc.expire(retry=case['retry'])
                    elif op == 'evict':
                        result = fc.evict('t', retry=case['retry'])
                    else:
                        result = fc.clear(retry=case['retry'])
                except Exception as e:  # noqa
                    result = ('raise', type(e).__name__, repr(e.args)[:80])
                finally:
                    tracer.enable(False)
        finally:
            locker.close()
        fc.close()
        afters = [rowdict(seqdrv.observe(sd)[0]) for sd in dirs]
        label = 'FanoutCache(shards=%d, timeout=0, %s).%s(retry=%s), another connection holding every shard\'s write lock during BEGIN attempts %s' % (
            shards, policy, op, case['retry'], ', '.join('%d..%d' % (t, t + k - 1) for t, k in case['episodes']))
        gone = [[befores[j][i] for i in befores[j] if i not in afters[j]] for j in range(shards)]
        ngone = sum(len(g) for g in gone)
        if gave_up:
            hits.append(('fanout_bulk_spins', '%s: still retrying after %d failed BEGIN attempts' % (label, BULK_SPIN_BUDGET)))
        if isinstance(result, tuple):
            hits.append(('fanout_bulk_raised', '%s raised %s%s' % (label, result[1], result[2])))
        elif result != ngone:
            hits.append(('fanout_bulk_count:%s' % op, '%s returned %r but %d item(s) disappeared (per shard: %r; %d BEGIN attempts failed)'
                         % (label, result, ngone, [len(g) for g in gone], info['failed_begins'])))
        for j in range(shards):
            left = list(afters[j].values())
            if op == 'cull':
                mon = Monitor(policy, 0, limits[j], stats)
                # the policy keys of the rows as stored (the ledger of this monitor starts from the table it finds)
                for r in befores[j].values():
                    mon.ledger[r['k']] = {'store': r['store'], 'used': r['access'], 'hits': r['count']}
                for sig, desc in mon.step('cull', None, now, None, befores[j], afters[j], list(readings[j]), independent_volume(dirs[j])):
                    hits.append((sig, '%s; shard %d: %s' % (label, j, desc)))
            elif op == 'expire':
                bad = [r for r in gone[j] if not (r['exp'] is not None and r['exp'] <= now)]
                stay = [r for r in left if r['exp'] is not None and r['exp'] < now]
                if bad:
                    hits.append(('expire_removed_unexpired', '%s; shard %d: removed the unexpired row key=%r' % (label, j, bad[0]['k'][0])))
                if stay:
                    hits.append(('fanout_expire_left_expired', '%s; shard %d: %d expired row(s) left' % (label, j, len(stay))))
            elif op == 'evict':
                bad = [r for r in gone[j] if tags[j].get(r['rowid']) != 't']
                stay = [r for r in left if tags[j].get(r['rowid']) == 't']
                if bad:
                    hits.append(('fanout_evict_removed_untagged', '%s; shard %d: removed the untagged row key=%r' % (label, j, bad[0]['k'][0])))
                if stay:
                    hits.append(('fanout_evict_left_tagged', '%s; shard %d: %d row(s) with the tag left' % (label, j, len(stay))))
            elif left:
                hits.append(('fanout_clear_left_rows', '%s; shard %d: %d row(s) left' % (label, j, len(left))))
    info['gone'] = ngone
    info['result'] = result
    return hits, info


def bulk_contention_cases(rng, quick):
    out = []
    pols = ['least-recently-stored', 'least-recently-used', 'least-frequently-used', 'none']
    j = 0
    for rep in range(1 if quick else 4):
        for policy in pols:
            for retry in (False, True):
                shards = rng.choice([1, 2, 3])
                # cull pages are 10 rows: ~40 rows per shard, nearly all above the limit
                eps = [[rng.choice([2, 3, 4]), rng.choice([2, 3, 5])]]
                if j % 3 == 0:
                    eps.append([eps[0][0] + eps[0][1] + rng.choice([1, 2]), rng.choice([1, 2])])
                out.append({'check': 'fanout_bulk_contention', 'op': 'cull', 'shards': shards, 'policy': policy, 'items': 45 * shards,
                            'expiring': rng.choice([0.0, 0.15, 0.3]), 'tagged': 0.0, 'fraction': rng.choice([0.5, 0.7, 0.9]), 'episodes': eps,
                            'retry': retry, 'seed': rng.randrange(10 ** 6)})
                j += 1
        for op in ('expire', 'evict', 'clear'):
            for retry in (False, True):
                shards = rng.choice([1, 2])
                eps = [[rng.choice([2, 3]), rng.choice([2, 3, 5])]]
                out.append({'check': 'fanout_bulk_contention', 'op': op, 'shards': shards, 'policy': rng.choice(pols), 'items': 260 * shards,
                            'expiring': 0.9 if op == 'expire' else 0.1, 'tagged': 0.9 if op == 'evict' else 0.1, 'fraction': 0, 'episodes': eps,
                            'retry': retry, 'seed': rng.randrange(10 ** 6)})
    return out


def bulk_contention_checks(ctx, res, stats, cases):
    seen = set(v.sig for v in res.violations)
    st = stats.setdefault('fanout_bulk_contention', {'cases': 0, 'failed_begin_attempts': 0, 'lock_taken_after_a_committed_page': 0, 'items_removed': 0})
    for case in cases:
        d = ctx.scratch('c09b')
        try:
            hits, info = bulk_contention_case(case, d, stats)
        except Exception as e:  # noqa
            hits, info = [('fanout_bulk_harness:%s' % type(e).__name__, '%s: %s' % (type(e).__name__, str(e)[:200]))], {}
        st['cases'] += 1
        st['failed_begin_attempts'] += info.get('failed_begins', 0)
        st['lock_taken_after_a_committed_page'] += int(bool(info.get('partial_before_lock')))
        st['items_removed'] += info.get('gone', 0) or 0
        res.count(['fanout_bulk_contention', case], nontrivial=bool(info.get('partial_before_lock')))
        for sig, desc in hits:
            if sig in seen:
                continue
            seen.add(sig)
            c = dict(case)
            c.update({'sig': sig, 'what': desc})
            res.violations.append(fw.Violation(sig, desc, c))
        shutil.rmtree(d, ignore_errors=True)


# ---------------------------------------------------------------------------
# plans


# ---------------------------------------------------------------------------
# boundary size limits (0, 1, a few bytes, exactly the volume of the empty cache) on Cache, FanoutCache and DjangoCache


def _django_cache(d, shards, options):
    from django.conf import settings as dj_settings
    if not dj_settings.configured:
        dj_settings.configure()
    from diskcache.djangocache import DjangoCache
    return DjangoCache(d, {'SHARDS': shards, 'DATABASE_TIMEOUT': 60, 'OPTIONS': dict(options)})


def boundary_limit_case(case, d, stats=None):
    """One object (Cache / FanoutCache / DjangoCache through OPTIONS) CONSTRUCTED with a size limit at or below the volume the empty
    cache already has: 0, 1, a few bytes, exactly volume(empty) (per shard), one more.  Such a cache has reached its limit from the
    first write on.  Decided per shard with the limit the property promises (size_limit / shards, whatever the shard itself reports):
    the Monitor clauses on every write (at most cull_limit rows go, policy order, nothing under policy none), an explicit cull() ends at
    or below the limit or with the shard empty and returns the number of rows that disappeared, and a write that read a volume at or
    above the limit (policy not none, cull_limit > 0) removes at least one row.  Returns (hits, info)."""
    import random
    rng = random.Random(case['seed'])
    stats = stats if stats is not None else new_stats()
    kind, shards, policy, cull_limit = case['kind'], case['shards'], case['policy'], case['cull_limit']
    hits, log = [], []
    info = {'writes': 0, 'writes_at_or_over_limit': 0, 'culls': 0, 'removed_by_cull': 0}
    clock = instr.Clock(1000.0)
    with instr.Installed(clock):
        probe = diskcache.Cache(os.path.join(d, 'probe'))
        v0 = probe.volume()
        probe.close()
        how, x = case['limit']
        total = x if how == 'abs' else shards * v0 + x
        info['size_limit'] = total
        options = dict(size_limit=total, eviction_policy=policy, cull_limit=cull_limit, disk_min_file_size=8)
        target = os.path.join(d, 'c')
        if kind == 'cache':
            obj = diskcache.Cache(target, **options)
            caches = [obj]
        elif kind == 'fanout':
            obj = diskcache.FanoutCache(target, shards=shards, **options)
            caches = list(obj._shards)
        else:
            obj = _django_cache(target, shards, options)
            caches = list(obj._cache._shards)
        try:
            want = total / len(caches) if kind != 'cache' else total
            mons, readings = [], []
            for idx, sh in enumerate(caches):
                con = sqlite3.connect(os.path.join(sh.directory, 'cache.db'))
                ((got_db,),) = con.execute('SELECT value FROM Settings WHERE key = "size_limit"').fetchall()
                con.close()
                if sh.size_limit != want or got_db != want:
                    hits.append(('boundary_limit:shard_limit', '%s constructed with size_limit=%r: shard %d of %d has size_limit %r (Settings %r), expected %r'
                                 % (kind, total, idx, len(caches), sh.size_limit, got_db, want)))
                mons.append(Monitor(policy, cull_limit, want, stats))
                rd = []
                readings.append(rd)
                inner = sh.volume

                def volume(inner=inner, rd=rd):
                    v = inner()
                    rd.append(v)
                    return v
                sh.volume = volume
            keys = [10 ** 15 + i for i in range(1, 13)] + ['k%d' % i for i in range(12)]
            vals = [v for v in small_values() if not isinstance(v, Stream)] + text_values()

            def full(k):
                return obj.make_key(k, version=None) if kind == 'django' else k

            def shard_of(k):
                if kind == 'cache':
                    return 0
                fc = obj._cache if kind == 'django' else obj
                return fc._hash(full(k)) % len(caches)
            befores = [rowdict(seqdrv.observe(sh.directory)[0]) for sh in caches]
            now = 1000.0
            plan = ['set'] * case['nwrites'] + ['cull'] + ['set'] * (case['nwrites'] // 2) + ['cull', 'cull']
            for step, base_op in enumerate(plan):
                now += rng.choice([TICK, 0.5, 1, 1, 2])
                clock.set(now)
                op = base_op
                if op == 'set' and step > 3 and rng.random() < 0.3:
                    op = 'get'
                k = rng.choice(keys)
                for rd in readings:
                    del rd[:]
                wsu = 64
                result = None
                if op == 'set':
                    v = rng.choice(vals)
                    wsu = size_upper(v, 5)
                    ttl = rng.choice([None, None, None, 1, 2])
                    result = obj.set(k, v, timeout=ttl) if kind == 'django' else obj.set(k, v, expire=ttl)
                    log.append((op, repr(k), now, repr(v)[:16], ttl))
                    info['writes'] += 1
                elif op == 'get':
                    got = obj.get(k, default=seqdrv.SENT)
                    result = 'default' if got is seqdrv.SENT else got
                    log.append((op, repr(k), now))
                else:
                    result = obj.cull()
                    log.append((op, None, now))
                    info['culls'] += 1
                idx_t = shard_of(k)
                gone_total = 0
                for idx, sh in enumerate(caches):
                    after = rowdict(seqdrv.observe(sh.directory)[0])
                    gone = [i for i in befores[idx] if i not in after]
                    gone_total += len(gone)
                    rd = list(readings[idx])
                    post, sized = volume_and_sizes(sh.directory)
                    if op == 'cull':
                        out = mons[idx].step('cull', None, now, None, befores[idx], after, rd, post)
                    elif idx == idx_t:
                        out = mons[idx].step(op, dbkey(sh.disk, full(k)), now, result, befores[idx], after, rd, post, None, wsu)
                        if op == 'set' and rd and rd[-1] >= want:
                            info['writes_at_or_over_limit'] += 1
                            stored_here = any(r['k'] == dbkey(sh.disk, full(k)) for r in after.values())
                            if policy != 'none' and cull_limit > 0 and not gone and stored_here:
                                out.append(('boundary_limit:write_at_limit_evicted_nothing',
                                            'set read volume %r >= size_limit %r (policy %s, cull_limit %d) and removed no row; %d row(s) stored'
                                            % (rd[-1], want, policy, cull_limit, len(after))))
                    else:
                        out = mons[idx].step('len', None, now, None, befores[idx], after, [], post)
                        out = [(('fanout_other_shard_changed' if s_ == 'read_removed' else s_), dsc) for s_, dsc in out]
                    befores[idx] = after
                    for s_, dsc in out + sized:
                        hits.append((s_, 'shard %d/%d: %s' % (idx, len(caches), dsc)))
                if op == 'cull':
                    info['removed_by_cull'] += gone_total
                    if result != gone_total:
                        hits.append(('cull_count', '%s.cull() returned %r but %d row(s) disappeared' % (kind, result, gone_total)))
                if hits:
                    break
        finally:
            obj.close()
    info['ops'] = log
    return hits, info


def boundary_limit_cases(rng, quick):
    limits = [['abs', 0], ['abs', 1], ['abs', 100], ['empty', 0], ['empty', 1], ['empty', -1]]
    objs = [('cache', 1), ('fanout', 1), ('fanout', 2), ('fanout', 3), ('fanout', 4), ('django', 2), ('django', 3)]
    cases = []
    n = 0
    for kind, shards in objs:
        for lim in limits:
            if quick and lim[0] == 'empty' and lim[1] != 0 and (n % 3):
                n += 1
                continue
            pols = POLICIES if not quick else [POLICIES[n % 3], 'none'][:2 if n % 4 == 0 else 1]
            for policy in pols:
                cls = CULL_LIMITS if not quick else [[10, 1, 2, 0][n % 4]]
                for cl in cls:
                    cases.append({'check': 'boundary_limit', 'kind': kind, 'shards': shards, 'limit': lim, 'policy': policy, 'cull_limit': cl,
                                  'nwrites': 24 if quick else 40, 'seed': rng.randrange(10 ** 6)})
            n += 1
    return cases


def boundary_limit_checks(ctx, res, stats, cases):
    seen = set()
    n_at = 0
    for case in cases:
        d = ctx.scratch('c09b')
        try:
            hits, info = boundary_limit_case(case, d, stats)
        except Exception as e:  # noqa
            hits, info = [('boundary_limit:error', 'the case failed with %r' % (e,))], {}
        shutil.rmtree(d, ignore_errors=True)
        n_at += info.get('writes_at_or_over_limit', 0)
        stats['boundary_limit_cases'] = stats.get('boundary_limit_cases', 0) + 1
        stats['boundary_limit_rows_removed_by_cull'] = stats.get('boundary_limit_rows_removed_by_cull', 0) + info.get('removed_by_cull', 0)
        res.count(['boundary-limit', {k: v for k, v in case.items() if k != 'seed'}, info.get('ops', [])[:6]], nontrivial=info.get('removed_by_cull', 0) > 0)
        for sig, desc in hits:
            if sig in seen:
                continue
            seen.add(sig)
            c = dict(case)
            c.update({'size_limit': info.get('size_limit'), 'ops': info.get('ops', [])[-40:], 'sig': sig, 'what': desc})
            res.violations.append(fw.Violation(sig, '%s [%s(shards=%d) constructed with size_limit %r = %r, policy %s, cull_limit %d]' % (
                desc, case['kind'], case['shards'], case['limit'], info.get('size_limit'), case['policy'], case['cull_limit']), c))
    stats['boundary_limit_writes_at_or_over_limit'] = n_at


# ---------------------------------------------------------------------------
# "eviction starts only at the size limit" for EVERY handle on the cache: a handle obtained by pickle.loads(pickle.dumps(c)), copy, a
# second construction over the directory, or unpickled in another process shows the configured limit (per shard: total / shards), and
# writes through it below that limit evict nothing


HANDLE_WAYS = ('pickle', 'pickle-twice', 'copy', 'reopen', 'process', 'pickle-after-reopen')


def _shards_of(kind, obj):
    return [obj] if kind == 'cache' else list((obj._cache if kind == 'django' else obj)._shards)


class ShardWatch:
    """The Monitor per shard of one handle (a Cache is its own single shard) against the limit the property promises for a shard,
    whatever limit the handle itself reports.  mons: the monitors (ledgers) of an earlier handle on the same directory."""

    def __init__(self, kind, obj, want, policy, cull_limit, stats, mons=None):
        self.kind, self.obj, self.want = kind, obj, want
        self.caches = _shards_of(kind, obj)
        self.mons = mons if mons is not None else [Monitor(policy, cull_limit, want, stats) for _ in self.caches]
        self.readings = []
        for sh in self.caches:
            rd = []
            self.readings.append(rd)
            inner = sh.volume

            def volume(inner=inner, rd=rd):
                v = inner()
                rd.append(v)
                return v
            sh.volume = volume
        self.befores = [rowdict(seqdrv.observe(sh.directory)[0]) for sh in self.caches]

    def limits(self):
        """[(shard index, size_limit attribute of the handle's shard, size_limit in the shard's Settings table)]"""
        out = []
        for idx, sh in enumerate(self.caches):
            con = sqlite3.connect(os.path.join(sh.directory, 'cache.db'))
            try:
                ((got_db,),) = con.execute('SELECT value FROM Settings WHERE key = "size_limit"').fetchall()
            finally:
                con.close()
            out.append((idx, sh.size_limit, got_db))
        return out

    def full(self, k):
        return self.obj.make_key(k, version=None) if self.kind == 'django' else k

    def shard_of(self, k):
        if self.kind == 'cache':
            return 0
        fc = self.obj._cache if self.kind == 'django' else self.obj
        return fc._hash(self.full(k)) % len(self.caches)

    def begin(self):
        for rd in self.readings:
            del rd[:]

    def step(self, op, k, now, result, wsu):
        """After one call through the handle: the monitor clauses per shard.  Returns (hits, rows that disappeared, the addressed
        shard read a volume below the promised limit)."""
        hits, gone_total, below = [], 0, False
        idx_t = self.shard_of(k)
        for idx, sh in enumerate(self.caches):
            after = rowdict(seqdrv.observe(sh.directory)[0])
            gone_total += len([i for i in self.befores[idx] if i not in after])
            rd = list(self.readings[idx])
            post, sized = volume_and_sizes(sh.directory)
            if op == 'cull':
                out = self.mons[idx].step('cull', None, now, None, self.befores[idx], after, rd, post)
            elif idx == idx_t:
                out = self.mons[idx].step(op, dbkey(sh.disk, self.full(k)), now, result, self.befores[idx], after, rd, post, None, wsu)
                below = bool(rd) and rd[-1] < self.want
            else:
                out = self.mons[idx].step('len', None, now, None, self.befores[idx], after, [], post)
                out = [(('fanout_other_shard_changed' if s_ == 'read_removed' else s_), dsc) for s_, dsc in out]
            self.befores[idx] = after
            hits += [(s_, 'shard %d/%d: %s' % (idx, len(self.caches), dsc)) for s_, dsc in out + sized]
        return hits, gone_total, below


def _handle_drive(watch, rng, clock, now, nsteps, log, info, key_tag):
    """sets (a few with ttls) and gets through the handle, the monitor after every call; stops at the first hit"""
    kind, obj = watch.kind, watch.obj
    keys = [10 ** 15 + i for i in range(1, 13)] + ['%s%d' % (key_tag, i) for i in range(12)]
    vals = [v for v in small_values() if not isinstance(v, Stream)] + text_values()
    for step in range(nsteps):
        now += rng.choice([TICK, 0.5, 1, 1, 2])
        clock.set(now)
        op = 'get' if (step > 3 and rng.random() < 0.2) else 'set'
        k = rng.choice(keys)
        watch.begin()
        wsu, result = 64, None
        if op == 'set':
            v = rng.choice(vals)
            wsu = size_upper(v, 5)
            ttl = rng.choice([None] * 7 + [1, 2])
            result = obj.set(k, v, timeout=ttl) if kind == 'django' else obj.set(k, v, expire=ttl)
            log.append((op, repr(k), now, repr(v)[:16], ttl))
            info['writes'] += 1
        else:
            got = obj.get(k, default=seqdrv.SENT)
            result = 'default' if got is seqdrv.SENT else got
            log.append((op, repr(k), now))
        hits, gone, below = watch.step(op, k, now, result, wsu)
        if op == 'set' and below:
            info['writes_below_limit'] += 1
        if hits:
            return hits, now
    return [], now


def _close_handle(kind, h):
    try:
        h.close()
    except Exception:  # noqa
        pass


def handle_limit_case(case, d, stats=None):
    """One Cache / FanoutCache / DjangoCache(OPTIONS) constructed with size_limit = shards * (volume(empty) + rel), a policy and a cull
    limit, written to for a while; then a second handle is obtained in the way case['way'] names.  Decided from the behaviour alone:
    every shard of the second handle carries size_limit / shards (attribute and Settings table; a Cache: size_limit), and the Monitor
    clauses hold per shard -- against that promised limit -- for writes and lookups through the second handle and afterwards through
    the first (in particular: no unexpired row disappears across a write that read a volume below the limit).  Returns (hits, info)."""
    import copy
    import json
    import pickle
    import random
    rng = random.Random(case['seed'])
    stats = stats if stats is not None else new_stats()
    kind, shards, policy, cull_limit, way = case['kind'], case['shards'], case['policy'], case['cull_limit'], case['way']
    hits, log = [], []
    info = {'writes': 0, 'writes_below_limit': 0}
    clock = instr.Clock(1000.0)
    with instr.Installed(clock):
        probe = diskcache.Cache(os.path.join(d, 'probe'))
        v0 = probe.volume()
        probe.close()
        total = shards * (v0 + case['rel'])
        info['size_limit'] = total
        options = dict(size_limit=total, eviction_policy=policy, cull_limit=cull_limit, disk_min_file_size=8)
        target = os.path.join(d, 'c')

        def construct(given):
            opts = options if given else {}
            if kind == 'cache':
                return diskcache.Cache(target, **opts)
            if kind == 'fanout':
                return diskcache.FanoutCache(target, shards=shards, **opts)
            from django.conf import settings as dj_settings
            if not dj_settings.configured:
                dj_settings.configure()
            from diskcache.djangocache import DjangoCache
            return DjangoCache(target, {'SHARDS': shards, 'DATABASE_TIMEOUT': 60, 'OPTIONS': dict(opts)})
        obj = construct(True)
        handles = [obj]
        want = total / shards if kind != 'cache' else total
        try:
            watch = ShardWatch(kind, obj, want, policy, cull_limit, stats)

            def limit_hits(w, how):
                out = []
                for idx, attr, db in w.limits():
                    if attr != want or db != want:
                        out.append(('handle_limit:shard_limit', '%s(size_limit=%r%s): after %s shard %d of %d has size_limit %r (Settings table %r), '
                                    'expected %r' % (kind, total, '' if kind == 'cache' else ', shards=%d' % shards, how, idx, len(w.caches), attr, db, want)))
                return out[:1]
            hits = limit_hits(watch, 'construction')
            now = 1000.0
            if not hits:
                hits, now = _handle_drive(watch, rng, clock, now, case['nbefore'], log, info, 'k')
            if not hits:
                def derive(h, how):
                    if how == 'pickle':
                        return pickle.loads(pickle.dumps(h))
                    if how == 'copy':
                        return copy.copy(h)
                    return construct(False)         # 'reopen': a second construction over the directory, no settings given
                if way == 'process':
                    # what multiprocessing does with a cache passed to a worker: the pickle is loaded in another process, which writes
                    blob = pickle.dumps(obj)
                    rfd, wfd = os.pipe()
                    pid = os.fork()
                    if pid == 0:
                        code = 1
                        try:
                            os.close(rfd)
                            h = pickle.loads(blob)
                            w2 = ShardWatch(kind, h, want, policy, cull_limit, stats, mons=watch.mons)
                            clog, cinfo = [], {'writes': 0, 'writes_below_limit': 0}
                            chits = limit_hits(w2, 'pickle.loads in another process')
                            chits += _handle_drive(w2, rng, clock, now, case['nafter'], clog, cinfo, 'p')[0]
                            _close_handle(kind, h)
                            os.write(wfd, json.dumps({'hits': chits, 'log': clog, 'info': cinfo}, default=repr).encode())
                            code = 0
                        finally:
                            os._exit(code)
                    os.close(wfd)
                    data = b''
                    while True:
                        chunk = os.read(rfd, 65536)
                        if not chunk:
                            break
                        data += chunk
                    os.close(rfd)
                    os.waitpid(pid, 0)
                    if not data:
                        hits = [('handle_limit:error', 'the process that unpickled the handle ended without a report')]
                    else:
                        rep = json.loads(data.decode())
                        hits = [('handle_limit:' + s_ if not s_.startswith('handle_limit:') else s_, dsc + ' [through the handle unpickled in another process]')
                                for s_, dsc in rep['hits']]
                        log += [tuple(x) for x in rep['log']]
                        for k_, v_ in rep['info'].items():
                            info[k_] += v_
                        now += 3 * case['nafter']
                        watch.befores = [rowdict(seqdrv.observe(sh.directory)[0]) for sh in watch.caches]
                        # what the other process stored is not in this process's ledgers: start new ones (rows without a ledger entry
                        # are not judged for order or time stamps; the limit clauses apply to them all the same)
                        watch.mons = [Monitor(policy, cull_limit, want, stats) for _ in watch.caches]
                else:
                    steps = {'pickle-twice': ['pickle', 'pickle'], 'pickle-after-reopen': ['reopen', 'pickle']}.get(way, [way])
                    h = obj
                    for how in steps:
                        h = derive(h, how)
                        handles.append(h)
                    w2 = ShardWatch(kind, h, want, policy, cull_limit, stats, mons=watch.mons)
                    hits = limit_hits(w2, ' + '.join(steps))
                    more, now = _handle_drive(w2, rng, clock, now, case['nafter'], log, info, 'p')      # also when the limit differs: what the writes then do
                    hits += [('handle_limit:' + s_, dsc + ' [through the handle obtained by %s]' % ' + '.join(steps)) for s_, dsc in more]
                    watch.befores = [rowdict(seqdrv.observe(sh.directory)[0]) for sh in watch.caches]
            if not hits:
                # the first handle goes on: the limit stored in the directory is still the configured one
                hits = limit_hits(watch, 'a second handle was obtained by %s and used' % way)
            if not hits:
                hits, now = _handle_drive(watch, rng, clock, now, max(4, case['nafter'] // 3), log, info, 'k')
                hits = [('handle_limit:' + s_, dsc + ' [through the first handle, after another one was obtained by %s]' % way) for s_, dsc in hits]
        finally:
            for h in handles:
                _close_handle(kind, h)
    info['ops'] = log
    return hits, info


def handle_limit_cases(rng, quick):
    objs = [('cache', 1), ('fanout', 2), ('fanout', 3), ('fanout', 4), ('django', 2), ('django', 3)]
    cases = []
    n = rng.randrange(12)
    for kind, shards in objs:
        for way in HANDLE_WAYS:
            if kind == 'django' and way == 'copy':
                continue            # copy.copy of a DjangoCache shares its FanoutCache: not another handle
            if quick and way == 'pickle-after-reopen' and n % 2:
                n += 1
                continue
            pols = POLICIES if not quick else [POLICIES[n % 3]]
            for policy in pols:
                for cl in (CULL_LIMITS[1:] if not quick else [[10, 1, 2][n % 3]]):
                    cases.append({'check': 'handle_limit', 'kind': kind, 'shards': shards, 'way': way, 'policy': policy, 'cull_limit': cl,
                                  'rel': [600, 1500, 3000][n % 3], 'nbefore': 6 if quick else 10, 'nafter': 12 if quick else 30,
                                  'seed': rng.randrange(10 ** 6)})
            n += 1
    return cases


def handle_limit_checks(ctx, res, stats, cases):
    seen = set()
    st = stats.setdefault('handle_limits', {'cases': 0, 'writes': 0, 'writes_below_the_limit': 0, 'ways': {}})
    for case in cases:
        d = ctx.scratch('c09h')
        try:
            hits, info = handle_limit_case(case, d, stats)
        except Exception as e:  # noqa
            hits, info = [('handle_limit:error', 'the case failed with %r' % (e,))], {}
        shutil.rmtree(d, ignore_errors=True)
        st['cases'] += 1
        st['writes'] += info.get('writes', 0)
        st['writes_below_the_limit'] += info.get('writes_below_limit', 0)
        st['ways'][case['way']] = st['ways'].get(case['way'], 0) + 1
        res.count(['handle-limit', {k: v for k, v in case.items() if k != 'seed'}, info.get('ops', [])[:6]], nontrivial=info.get('writes_below_limit', 0) > 0)
        for sig, desc in hits:
            if sig in seen:
                continue
            seen.add(sig)
            c = dict(case)
            c.update({'size_limit': info.get('size_limit'), 'ops': info.get('ops', [])[-40:], 'sig': sig, 'what': desc})
            res.violations.append(fw.Violation(sig, '%s [%s(shards=%d) constructed with size_limit %r, policy %s, cull_limit %d; second handle: %s]' % (
                desc, case['kind'], case['shards'], info.get('size_limit'), case['policy'], case['cull_limit'], case['way']), c))


# ---------------------------------------------------------------------------
# cull() on a sharded cache whose writes are SKEWED: "for FanoutCache per shard with the limit divided by the shard count".  One shard is
# written far more than the others, so it exceeds ITS share of the limit while the cache as a whole stays below the total; items with a
# ttl are mixed in and the clock moves past them.  FanoutCache.cull() / DjangoCache.cull() must leave every shard at or below its own
# limit (or empty), remove the expired items of every shard, and return the number of rows that disappeared.


def skewed_cull_case(case, d, stats=None):
    """One FanoutCache / DjangoCache(OPTIONS) constructed with size_limit = shards * (volume(empty) + rel).  case['skew'] of the writes go to
    keys the object routes to shard case['hot'] (integer keys that are multiples of the shard count and text keys, partitioned by the shard
    that holds them), the rest anywhere; some carry a ttl.  cull() is called whenever a shard has grown above its share while the sum of the
    shard volumes is still within the total limit (and the draw says so), after the clock has moved past the ttls, and at the end.  Decided
    per shard by the Monitor against size_limit / shards: expired rows gone, volume at or below the limit or the shard empty, policy order,
    nothing unexpired removed under policy none; and the returned count is the number of rows that disappeared.  Returns (hits, info)."""
    import random
    rng = random.Random(case['seed'])
    stats = stats if stats is not None else new_stats()
    kind, shards, policy, cull_limit = case['kind'], case['shards'], case['policy'], case['cull_limit']
    hits, log = [], []
    info = {'writes': 0, 'culls': 0, 'culls_with_a_shard_over_its_share_and_the_total_within_the_limit': 0, 'culls_with_expired_items': 0, 'removed_by_cull': 0}
    clock = instr.Clock(1000.0)
    with instr.Installed(clock):
        probe = diskcache.Cache(os.path.join(d, 'probe'))
        v0 = probe.volume()
        probe.close()
        total = shards * (v0 + case['rel'])
        info['size_limit'] = total
        options = dict(size_limit=total, eviction_policy=policy, cull_limit=cull_limit, disk_min_file_size=8)
        target = os.path.join(d, 'c')
        obj = diskcache.FanoutCache(target, shards=shards, **options) if kind == 'fanout' else _django_cache(target, shards, options)
        try:
            want = total / shards
            watch = ShardWatch(kind, obj, want, policy, cull_limit, stats)
            hot = case['hot'] % shards
            pool = [shards * i for i in range(1, 400)] + ['k%d' % i for i in range(400)]
            hot_keys = [k for k in pool if watch.shard_of(k) == hot][:60]
            other_keys = [k for k in pool if watch.shard_of(k) != hot][:60] or hot_keys
            vals = [v for v in small_values() if not isinstance(v, Stream)] + text_values()
            now = 1000.0
            nhot = 0

            def volumes():
                return [independent_volume(sh.directory) for sh in watch.caches]

            def expired_now():
                return sum(1 for b in watch.befores for r_ in b.values() if r_['exp'] is not None and r_['exp'] < now)

            def cull(why):
                vols = volumes()
                skewed = any(v > want for v in vols) and sum(vols) <= total
                nexp = expired_now()
                watch.begin()
                result = obj.cull()
                log.append(('cull', why, now, vols))
                info['culls'] += 1
                info['culls_with_a_shard_over_its_share_and_the_total_within_the_limit'] += int(skewed)
                info['culls_with_expired_items'] += int(nexp > 0)
                found, gone, _ = watch.step('cull', 'x', now, None, 64)
                info['removed_by_cull'] += gone
                ctxt = ' [cull() on %s(shards=%d) with shard volumes %r, size_limit %r = %r per shard, %d expired row(s)]' % (kind, shards, vols, total, want, nexp)
                found = [(s_, dsc + ctxt) for s_, dsc in found]
                if not isinstance(result, int) or result != gone:
                    found.append(('cull_count', '%s.cull() returned %r but %d row(s) disappeared%s' % (kind, result, gone, ctxt)))
                return found
            for step in range(case['nsteps']):
                now += rng.choice([TICK, 0.5, 1, 1])
                clock.set(now)
                r = rng.random()
                if r < 0.08 and step > 5:
                    now += 3              # past every ttl handed out so far
                    clock.set(now)
                    hits = cull('after the clock moved past the ttls')
                elif r < 0.2 and step > 3:
                    k = rng.choice(hot_keys[:max(1, nhot)] + other_keys[:6])
                    watch.begin()
                    got = obj.get(k, default=seqdrv.SENT)
                    log.append(('get', repr(k), now))
                    hits = watch.step('get', k, now, 'default' if got is seqdrv.SENT else got, 64)[0]
                else:
                    if rng.random() < case['skew']:
                        k = hot_keys[nhot % len(hot_keys)]
                        nhot += 1
                    else:
                        k = rng.choice(other_keys[:12])
                    v = rng.choice(vals)
                    ttl = rng.choice([None] * 5 + [1, 2])
                    watch.begin()
                    result = obj.set(k, v, timeout=ttl) if kind == 'django' else obj.set(k, v, expire=ttl)
                    log.append(('set', repr(k), now, repr(v)[:16], ttl))
                    info['writes'] += 1
                    hits = watch.step('set', k, now, result, size_upper(v, 5))[0]
                    if not hits:
                        vols = volumes()
                        if any(x > want for x in vols) and sum(vols) <= total and rng.random() < 0.5:
                            hits = cull('a shard is above its share, the total is within the limit')
                if hits:
                    break
            if not hits:
                hits = cull('at the end')
        finally:
            obj.close()
    info['ops'] = log
    return hits, info


def skewed_cull_cases(rng, quick):
    objs = [('fanout', 2), ('fanout', 3), ('fanout', 4), ('django', 2), ('django', 3), ('fanout', 8)]
    cases = []
    n = rng.randrange(12)
    for kind, shards in objs:
        for rep_ in range(2 if quick else 4):
            pols = [POLICIES[n % 4]] if quick else POLICIES
            for policy in pols:
                cases.append({'check': 'skewed_cull', 'kind': kind, 'shards': shards, 'policy': policy, 'cull_limit': [0, 0, 0, 1, 10, 0][n % 6],
                              'rel': [300, 600, 900][n % 3], 'hot': rng.randrange(shards), 'skew': rng.choice([0.8, 0.9, 1.0]),
                              'nsteps': 40 if quick else 90, 'seed': rng.randrange(10 ** 6)})
                n += 1
    return cases


def skewed_cull_checks(ctx, res, stats, cases):
    seen = set()
    st = stats.setdefault('skewed_culls', {'cases': 0, 'writes': 0, 'culls': 0, 'culls_with_a_shard_over_its_share_and_the_total_within_the_limit': 0,
                                           'culls_with_expired_items': 0, 'removed_by_cull': 0})
    for case in cases:
        d = ctx.scratch('c09k')
        try:
            hits, info = skewed_cull_case(case, d, stats)
        except Exception as e:  # noqa
            hits, info = [('skewed_cull:error', 'the case failed with %r' % (e,))], {}
        shutil.rmtree(d, ignore_errors=True)
        st['cases'] += 1
        for k in ('writes', 'culls', 'culls_with_a_shard_over_its_share_and_the_total_within_the_limit', 'culls_with_expired_items', 'removed_by_cull'):
            st[k] += info.get(k, 0)
        res.count(['skewed-cull', {k: v for k, v in case.items() if k != 'seed'}, info.get('ops', [])[:6]],
                  nontrivial=info.get('culls_with_a_shard_over_its_share_and_the_total_within_the_limit', 0) > 0 or info.get('culls_with_expired_items', 0) > 0)
        for sig, desc in hits:
            sig = sig if sig.startswith('skewed_cull:') else 'skewed_cull:' + sig
            if sig in seen:
                continue
            seen.add(sig)
            c = dict(case)
            c.update({'size_limit': info.get('size_limit'), 'ops': info.get('ops', [])[-40:], 'sig': sig, 'what': desc})
            res.violations.append(fw.Violation(sig, '%s [%s(shards=%d) constructed with size_limit %r, policy %s, cull_limit %d; %d%% of the writes go to shard %d]' % (
                desc, case['kind'], case['shards'], info.get('size_limit'), case['policy'], case['cull_limit'], int(case['skew'] * 100), case['hot'] % case['shards']), c))


def plan_for(ctx, per_combo, length, big_every=0):
    plan = []
    j = 0
    for rep in range(per_combo):
        for p in POLICIES:
            for cl in CULL_LIMITS:
                stream = 'ties' if (j % 3 == 2) else 'increasing'
                nkeys = 40 if cl == 0 else ctx.rng.choice([8, 12, 16])
                big = bool(big_every) and (j % big_every == big_every - 1)
                plan.append((p, cl, stream, length, nkeys, big))
                j += 1
    return plan


def overwrite_plan(ctx, n):
    """(policy, cull_limit, stream, length, nkeys, big) of the overwrite histories: evicting policies and none, every cull_limit, both clocks,
    small and (every fourth) large values; drawn from a generator of their own so that the other families see the random stream they always saw"""
    import random
    rng = random.Random('C09-overwrite-%d' % ctx.seed)
    plan = []
    for j in range(n):
        plan.append((POLICIES[j % len(POLICIES)], CULL_LIMITS[(j // len(POLICIES) + j) % len(CULL_LIMITS)], 'ties' if j % 3 == 2 else 'increasing',
                     rng.choice([60, 90]), rng.choice([3, 4, 6]), j % 4 == 3))
    return plan


def overwrite_histories(ctx, res, stats, n):
    import random
    saved = ctx.rng
    ctx.rng = random.Random('C09-overwrite-hist-%d' % ctx.seed)
    try:
        monitored_histories(ctx, res, stats, overwrite_plan(ctx, n), overwrite=True)
    finally:
        ctx.rng = saved


RULE = ('random histories of set/add/get/incr/push/touch/delete/pop/contains/cull/expire on a Cache under a virtual clock, for each eviction policy x '
        'cull_limit in {0,1,2,10}; values are file-backed with sizes in multiples of 10 bytes (plus a few inline ones) and size_limit = '
        'volume(empty) + {60..300}, so that Settings.size decides and volume == size_limit is hit exactly; a separate stream uses 1-6 kB '
        'values; one third of the histories run on a tie-heavy clock, the rest on a strictly increasing one; ttls of 2^-10..5 s mix expired '
        'rows in.  The table is read after every call; the monitor is evaluated on every call; small-value histories are also replayed through '
        'coq/model (run_cmp: result, rows, counters, files after every call).  FanoutCache(shards 2/3) histories check size_limit/shards per '
        'shard and run the monitor per shard.  evaluations = histories; non-trivial = a history in which at least one row was evicted (by '
        'expiry inside a write, by policy, or by cull()); distinct by configuration and call list.  Persistent containers: every way of '
        'obtaining a Deque / Index (Deque(...), Index(...), fromcache over a policy-none Cache, FanoutCache.deque/index, DjangoCache.deque/index, '
        'FanoutCache.cache(eviction_policy="none")) must show policy none on the object and in its Settings table, and with size_limit reset to '
        'volume(empty) + {60..4096}, cull_limit {1,2,10}, 30-160 stores of inline and file-backed values (also after the container is obtained '
        'again over the same directory) nothing stored may disappear across a store or a cull().  FanoutCache bulk removals under contention: '
        'cull / expire / evict / clear on FanoutCache(timeout=0, shards 1-3, every policy, retry False/True) with several pages of removable '
        'items per shard, while a second connection takes every shard\'s write lock just before the call\'s t-th BEGIN (t >= 2: after a committed '
        'page) and releases it k failed attempts later (one or two such episodes): the returned count must be the number of rows that '
        'disappeared, and the per-shard clauses of the monitor (expired first, down to the limit, policy order, nothing unexpired under none) hold.  '
        'Boundary size limits: Cache, FanoutCache(shards 1-4) and DjangoCache(OPTIONS, SHARDS 2-3) CONSTRUCTED with size_limit 0, 1, 100, '
        'shards * volume(empty) and one byte either side: every shard must carry size_limit / shards, the monitor runs per shard against that '
        'limit over sets with ttls, gets and cull() calls (cull() ends at or below the limit or with the shard empty and returns the rows that '
        'disappeared), and a set that read a volume at or above the limit (policy not none, cull_limit > 0) removes at least one row.  '
        'Second handles: Cache, FanoutCache(shards 2-4) and DjangoCache(OPTIONS, SHARDS 2-3) constructed with size_limit = shards * (volume(empty) + '
        '{600, 1500, 3000}), written to, then a second handle obtained by pickle.loads(pickle.dumps(c)), twice that, copy.copy, a second construction '
        'over the directory without settings, that followed by a pickle round trip, or pickle.loads in a forked process: every shard of the second '
        'handle carries size_limit / shards (attribute and Settings table), and the monitor clauses hold per shard against that limit for sets (some '
        'with ttls) and gets through the second handle and then through the first (no unexpired row disappears across a write that read a volume '
        'below the limit).  Sizes: the histories that do not go through the model and every FanoutCache / DjangoCache family also store text with 2-, 3- and '
        '4-byte code points on the file side of the threshold (20-80 bytes on disk; 2-3 kB in the large-value stream); after every call the size recorded '
        'for each row kept in a file must be the size of that file, and the volume the monitor judges eviction and cull() by counts the files as they are '
        'on disk.  Skewed writes: FanoutCache(shards 2, 3, 4, 8) and DjangoCache(SHARDS 2, 3) constructed with size_limit = shards * (volume(empty) + '
        '{300, 600, 900}), every policy, cull_limit 0 (mostly), 1, 10; 80-100 % of the sets (some with ttls) go to keys routed to ONE shard (integer '
        'multiples of the shard count, text keys), so that this shard exceeds size_limit / shards while the sum of the shard volumes stays within '
        'size_limit; cull() is called in that state, after the clock has moved past the ttls, and at the end: every shard ends at or below its own '
        'limit or empty, no expired row is left in any shard, policy order per shard, and the returned count is the number of rows that disappeared.  '
        'Overwrites: histories over 3-6 keys, mostly stores, half of the values inline and half file-backed, ttls of 2^-10..2 s, so that the same key goes '
        'from a value kept in a file to one kept in the database and back (set; add and incr on an expired item) again and again; every policy and '
        'cull_limit, both clocks, small and large values.  After EVERY call of every history the volume the cache reports (database pages + its size '
        'counter) must be what the rows that are there occupy (pages + the sizes recorded in the rows; files as they are on disk), and an eviction is '
        'judged by the occupied volume: when the counter is off, the readings of volume() are corrected by the difference before "below the limit" is decided.')


def report(res):
    """One line per monitor hit / disagreement, so that the failing input is readable without opening the replay file."""
    for v in res.violations[:12]:
        c = v.case if isinstance(v.case, dict) else {}
        cfg = c.get('config', {})
        print('C09-MONITOR [%s] %s  (policy=%s cull_limit=%s size_limit=%s, %s call(s) in the replay)' % (
            v.sig, v.desc[:300], cfg.get('policy', c.get('policy')), cfg.get('cull_limit', c.get('cull_limit')),
            cfg.get('size_limit', c.get('size_limit')), len(c.get('history', c.get('ops', [])))))


def run(ctx):
    res = fw.Result()
    res.rule = RULE
    stats = new_stats()
    kept = []
    if ctx.quick:
        plan = plan_for(ctx, 5, 70, big_every=6)
        nmodel, nfan, ndirected, ndirected_model = 32, 12, 9, 6
    else:
        plan = plan_for(ctx, 60, 110, big_every=5)
        nmodel, nfan, ndirected, ndirected_model = 400, 96, 48, 16
    # monitor on every history; the first `nmodel` small-value histories also go through the model
    small = [p for p in plan if not p[5]]
    bigp = [p for p in plan if p[5]]
    monitored_histories(ctx, res, stats, small[:nmodel], keep_for_model=kept)
    monitored_histories(ctx, res, stats, small[nmodel:] + bigp)
    directed_cull_histories(ctx, res, stats, ndirected_model, kept)
    directed_cull_histories(ctx, res, stats, ndirected - ndirected_model, None)
    fanout_checks(ctx, res, stats, nfan)
    boundary_limit_checks(ctx, res, stats, boundary_limit_cases(ctx.rng, ctx.quick))
    container_checks(ctx, res, stats, container_cases(ctx.rng, ctx.quick))
    bulk_contention_checks(ctx, res, stats, bulk_contention_cases(ctx.rng, ctx.quick))
    import random
    handle_limit_checks(ctx, res, stats, handle_limit_cases(random.Random('C09-handles-%d' % ctx.seed), ctx.quick))
    skewed_cull_checks(ctx, res, stats, skewed_cull_cases(random.Random('C09-skew-%d' % ctx.seed), ctx.quick))
    overwrite_histories(ctx, res, stats, 16 if ctx.quick else 160)
    witnesses(res)
    if not ctx.search_mode:
        correspondence(ctx, res, stats, kept)
    else:
        for k in kept:
            shutil.rmtree(k[0].dir, ignore_errors=True)
    report(res)
    res.extra.update({k: v for k, v in stats.items()})
    res.extra['boundary_hits'] = {
        'writes_with_volume_eq_size_limit': stats['writes_vol_eq_limit'],
        'evictions_at_volume_eq_size_limit': stats['evictions_at_exact_limit'],
        'writes_that_evicted_by_policy': stats['writes_evicted_policy'],
        'writes_that_evicted_by_expiry': stats['writes_evicted_expired'],
        'policy_ties_present': stats['ties_present'],
        'cull_calls': stats['cull_calls'],
        'cull_calls_looping_more_than_one_page': stats['cull_calls_multi_page'],
        'cull_loop_test_at_volume_eq_size_limit': stats['cull_vol_eq_limit'],
        'written_row_evicted_by_its_own_write': stats['written_row_evicted_at_once'],
    }
    return res


def search(ctx, broken):
    """Monitor-only, bigger budget, boundary-biased (used when an obligation broke)."""
    res = fw.Result()
    stats = new_stats()
    plan = plan_for(ctx, 6 if ctx.quick else 20, 90, big_every=5)
    monitored_histories(ctx, res, stats, plan)
    directed_cull_histories(ctx, res, stats, 12 if ctx.quick else 36, None)
    fanout_checks(ctx, res, stats, 8 if ctx.quick else 24)
    boundary_limit_checks(ctx, res, stats, boundary_limit_cases(ctx.rng, ctx.quick))
    container_checks(ctx, res, stats, container_cases(ctx.rng, ctx.quick))
    bulk_contention_checks(ctx, res, stats, bulk_contention_cases(ctx.rng, ctx.quick))
    import random
    handle_limit_checks(ctx, res, stats, handle_limit_cases(random.Random('C09-handles-search-%d' % ctx.seed), ctx.quick))
    skewed_cull_checks(ctx, res, stats, skewed_cull_cases(random.Random('C09-skew-search-%d' % ctx.seed), ctx.quick))
    overwrite_histories(ctx, res, stats, 24 if ctx.quick else 120)
    witnesses(res)
    report(res)
    return res


# ---------------------------------------------------------------------------
# replay


def replay(payload):
    if payload.get('kind') == 'broken-obligation':
        ok = True
        for ob in payload.get('obligations', []):
            print('broken obligation: %s -- %s' % (ob.get('name'), str(ob.get('detail'))[:300]))
            if isinstance(ob.get('case'), dict) and ob['case'].get('check'):
                ok = replay({'case': ob['case']}) and ok
        return ok
    case = payload.get('case', {})
    check = case.get('check')
    if check == 'witness_cull_none':
        n, left = witness_cull_none()
        print('Cache(eviction_policy="none"): one expired item; cull() returned %r, len %r (expected 1, 0)' % (n, left))
        return n == 1 and left == 0
    if check in ('history', 'model_history'):
        ctx = fw.Ctx('C09', 'quick', 1)
        try:
            objs, hist, cfg = gen_hist.history_from_json(case)
            r, tr = run_history(ctx, cfg, objs, hist)
            stats = new_stats()
            hits = monitor_trace(r, tr, cfg, stats)
            print('Cache(policy=%s, cull_limit=%d, size_limit=%d, min_file_size=%d), %d calls' % (cfg.policy, cfg.cull_limit, cfg.size_limit,
                                                                                                cfg.min_file_size, len(hist)))
            for i, rec in enumerate(tr.calls[-8:], max(0, len(tr.calls) - 8)):
                it = rec['item']
                print('  #%d t=%r %s %r -> %r   volume() read %r; rows %r' % (
                    i, it['now'], it['op'], {k: (repr(objs[v])[:20] if k in ('k', 'v') else v) for k, v in it['args'].items()},
                    rec['res'] if not isinstance(rec['res'], tuple) else rec['res'][:1], r.readings_per_call[i],
                    [(row[1] if not isinstance(row[1], bytes) else '<bytes>', row[3], row[4], row[5], row[6]) for row in rec['obs'][0]]))
            for (i, sig, desc) in hits:
                print('MONITOR call #%d [%s]: %s' % (i, sig, desc))
            ok = not hits
            if check == 'model_history':
                term = seqdrv.history_check_term(r, tr, cfg)
                out, errs = seqdrv.model_first_mismatch('c09r', [term], chunk=1)
                print('model first mismatch index: %r %s' % (out[0], errs[:1]))
                ok = ok and out[0] == -1
            return ok
        finally:
            ctx.cleanup()
    if check in ('container', 'fanout_bulk_contention'):
        d = tempfile.mkdtemp(prefix='c09r-')
        try:
            if check == 'container':
                hits, info = container_case(case, os.path.join(d, 'c'))
                print('%s, size_limit = volume(empty) + %d, cull_limit %d, disk_min_file_size %d: %d stores (%d of them at or above the size limit)'
                      % (case['way'], case['rel'], case['cull_limit'], case['min_file_size'], info.get('writes', 0), info.get('writes_at_or_over_limit', 0)))
            else:
                hits, info = bulk_contention_case(case, d)
                print('%s on %d shard(s), %d items: returned %r, %d item(s) disappeared, %d BEGIN attempts (%d failed)'
                      % (case['op'], case['shards'], case['items'], info.get('result'), info.get('gone', -1), info.get('begins', 0), info.get('failed_begins', 0)))
            for sig, desc in hits:
                print('MONITOR [%s]: %s' % (sig, desc))
            return not hits
        finally:
            shutil.rmtree(d, ignore_errors=True)
    if check == 'boundary_limit':
        d = tempfile.mkdtemp(prefix='c09r-')
        try:
            hits, info = boundary_limit_case(case, d)
            print('%s(shards=%d) constructed with size_limit=%r, policy %s, cull_limit %d: %d writes (%d at or above the limit), %d cull() calls removed %d row(s)'
                  % (case['kind'], case['shards'], info.get('size_limit'), case['policy'], case['cull_limit'], info.get('writes', 0),
                     info.get('writes_at_or_over_limit', 0), info.get('culls', 0), info.get('removed_by_cull', 0)))
            for sig, desc in hits:
                print('MONITOR [%s]: %s' % (sig, desc))
            return not hits
        finally:
            shutil.rmtree(d, ignore_errors=True)
    if check == 'skewed_cull':
        d = tempfile.mkdtemp(prefix='c09r-')
        try:
            hits, info = skewed_cull_case(case, d)
            print('%s(shards=%d) constructed with size_limit=%r, policy %s, cull_limit %d, %d%% of the writes to shard %d: %d writes, %d cull() calls (%d with a shard above '
                  'its share and the total within the limit, %d with expired items) removed %d row(s)' % (
                      case['kind'], case['shards'], info.get('size_limit'), case['policy'], case['cull_limit'], int(case['skew'] * 100), case['hot'] % case['shards'],
                      info.get('writes', 0), info.get('culls', 0), info.get('culls_with_a_shard_over_its_share_and_the_total_within_the_limit', 0),
                      info.get('culls_with_expired_items', 0), info.get('removed_by_cull', 0)))
            for op in info.get('ops', [])[-12:]:
                print('  ', op)
            for sig, desc in hits:
                print('MONITOR [%s]: %s' % (sig, desc))
            return not hits
        finally:
            shutil.rmtree(d, ignore_errors=True)
    if check == 'handle_limit':
        d = tempfile.mkdtemp(prefix='c09r-')
        try:
            hits, info = handle_limit_case(case, d)
            print('%s(shards=%d) constructed with size_limit=%r, policy %s, cull_limit %d; second handle obtained by %s: %d writes (%d of them read a volume '
                  'below the limit of their shard)' % (case['kind'], case['shards'], info.get('size_limit'), case['policy'], case['cull_limit'], case['way'],
                                                       info.get('writes', 0), info.get('writes_below_limit', 0)))
            for op in info.get('ops', [])[-12:]:
                print('  ', op)
            for sig, desc in hits:
                print('MONITOR [%s]: %s' % (sig, desc))
            return not hits
        finally:
            shutil.rmtree(d, ignore_errors=True)
    if check == 'fanout':
        ctx = fw.Ctx('C09', 'quick', payload.get('seed', 1))
        try:
            res = fw.Result()
            stats = new_stats()
            for exact in (True, False):
                fanout_history(ctx, res, stats, case['shards'], case['policy'], case['cull_limit'], 70, case.get('stream', 'increasing'), exact)
            for v in res.violations:
                print('MONITOR [%s]: %s' % (v.sig, v.desc))
            return not res.violations
        finally:
            ctx.cleanup()
    print('replay payload:', payload)
    return True
