"""C17 -- check(fix=True) repairs any out-of-band damage; plain check() only reports.

Caches with inline and file-backed items (Cache, and the shards of a FanoutCache) are damaged behind the
library's back by every subset (thorough) / a seeded sample (quick) of
  {delete a value file, truncate one (to 13 bytes, or to exactly 0 bytes: variant trunc=0 / target kind 'zero'), extend one,
   add a file at depth 0 / 1 / 2, add an empty directory at depth 1 / 2, bump Settings.count, bump Settings.size}
(added files and directories go to fresh or to existing directories, chosen per case).  Two further dimensions apply to every
cache kind and every damage kind:
  * variant relative=True: the cache is opened on a directory given RELATIVE to the current working directory (the harness
    changes into the case's scratch directory for the duration of the case and restores the working directory afterwards);
  * variant min_file_size=0: the cache is opened with disk_min_file_size=0, every str / bytes / pickled value lives in a file, and the
    cache holds three UNDAMAGED items whose value file is legitimately empty (b'', '' and an empty read=True stream).
Further families:
  * FanoutCache with 8 shards and the FanoutCache behind a DjangoCache (SHARDS=8, items written and read through the Django API)
    whose 11 items leave some shards without any item: added files / directories / counter changes are placed in a shard that
    holds NO item (variant home='empty') as well as in shards that do;
  * Settings.count / Settings.size zeroed out of band (variant sign='zero') on every cache kind;
  * caches with more than one page of 100 file-backed rows per cache / shard ('cache:150', 'cache:230', 'fanout:260'; thorough
    also 101, 201, 330): value files deleted in early pages (1-12 of them), deleted / truncated / extended in later ones
    (variant targets=[[kind, item], ...]), with or without the other damage kinds.

  * nested empty directories (variant nest=[[where, depth, fork, leaf], ...], every cache kind): chains of 1-5 directories nested in one
    another, at the top of the cache / shard directory or beside value files, optionally forked or ending in an unknown file; monitors
    only when the tree is deeper than the model's two levels.
  * a busy shard (family 'busy', every cache kind): while another SQLite connection holds the write lock of one cache / shard database
    (taken before the call, or right before the call's BEGIN on that shard; kept for the whole call, or released after k failed BEGIN
    attempts of a retrying call) check() / check(fix=True) with retry False / True either raises (Timeout; the VACUUM of a fixing run
    raises sqlite3.OperationalError "database is locked") -- then nothing is claimed -- or returns a report that covers every
    inconsistency of EVERY shard, the locked one included; a returned fixing run leaves nothing for the next check; once the lock is
    gone check(fix=True) / check() behave as always.

MONITOR (from the property text; an oracle written here recomputes the inconsistencies from the table
dump and the directory listing, independently of the Coq model):
  * plain check() changes nothing (table dump, Settings counters, directory listing, file contents);
  * plain check() reports exactly the oracle's inconsistencies, as (kind, relative path);
  * check(fix=True) reports all of them too; anything else it reports is a directory emptied by its own removals;
  * a second check() reports nothing   (D16, fixed in 63db292; the former witness -- a stray file in d/zz/yy/junk -- is replayed
    on every run and reported with sig `empty_parent_after_fix` if the defect ever returns);
  * every remaining item reads back; undamaged items read back equal, their rows and files are untouched;
    an item whose file was deleted is gone.
CORRESPONDENCE: the damaged state (rows, counters, tree) is encoded into model/Check.v; `check1` /
`check_fanout` must give the same sorted warnings (with their numbers) and the same resulting state for the
plain run, the fixing run and the second run (fw.coq_mismatches).
"""
import hashlib
import io
import itertools
import os
import random
import re
import shutil
import sqlite3
import tempfile
import warnings as _warnings

import fw
import instr
from instr import core, diskcache

ID = 'C17'
COQ_PROP = 'C17'
LEVEL = 'proof'
TRANSLATE = ['checkfn', 'fanout', 'disk', 'sql']
TRUSTED = [
    'coq/model/Check.v: hand-written interpretation of os.walk (listing taken when a directory is reached, never re-read), os.remove/os.rmdir/os.removedirs, the SELECT/UPDATE/DELETE of Cache.check and the Settings triggers; compared with the implementation (sorted warnings with their numbers, resulting rows, counters and tree) on every case of this run',
    'tools/emit_checkfn.py templates of Cache.check / FanoutCache.check (AST equality outside the guard, repair, walk and pass-order holes)',
    'busy-shard family: harness/sched.py Tracer reports the PRAGMA integrity_check (start of a shard) and BEGIN statements of the calling thread; a '
    'plain sqlite3 connection of the harness takes and releases the write lock from that hook (single-threaded, deterministic)',
]
ASSUMPTIONS = [
    'the database file itself is intact (PRAGMA integrity_check / VACUUM are outside the model) and the write lock can be taken (model and '
    'correspondence; the busy-shard family of the monitors drops the second half)',
    'rowids are unique (INTEGER PRIMARY KEY); keys are not NULL',
    'model and correspondence: directory tree of depth <= 2 below the cache directory (the layout Disk.filename produces); the monitors also run out-of-band '
    'directories nested up to 5 deep below the cache / shard directory or below a value-file directory (family nest; cases whose tree fits the model are also compared with it); no symbolic links',
    'readable = the row resolves to a file of the recorded size; check() compares sizes only, so a truncated pickle or UTF-8 file stays undecodable after the repair (the harness truncates/extends raw binary and ASCII text files, whose every prefix/extension -- including the empty one, truncation to 0 bytes -- decodes)',
    'cache directories are given as absolute paths or as paths relative to the working directory (variant relative=True: one path component, the working directory does not change between opening the cache and the last check); disk_min_file_size is 16 or 0 (variant min_file_size=0: value files of length 0 that belong to undamaged items)',
    'no concurrent writer while check() runs; in the busy-shard family the other connection only HOLDS the write lock of one shard database '
    '(BEGIN IMMEDIATE ... COMMIT, nothing written); each failed BEGIN / VACUUM of the caller waits the SQLite busy timeout (2 ms) in real time',
    'DjangoCache has no check() of its own: the DjangoCache-backed cases call check() of the FanoutCache object it delegates every call to (DjangoCache._cache)',
]

IMPORTS = ['DCPrelude', 'CheckBase', 'Gen_Check', 'Check']
KINDS = ['delete', 'truncate', 'extend', 'add0', 'add1', 'add2', 'dir1', 'dir2', 'count', 'size']
MIN_FILE = 16
ITEMS = [
    ('i1', 5), ('i2', 'abc'), ('i3', b'xy'), ('i4', (1, 2)), ('i5', 2.5),
    ('fd', list(range(40))),            # pickle in a file: its file gets deleted
    ('ft', b'T' * 40),                  # raw binary file: truncated
    ('fe', 'E' * 40),                   # text file: extended
    ('fk', b'K' * 33),                  # undamaged file-backed items
    ('fp', {'a': 'x' * 30}),
    ('fs', 's' * 17),
]
TARGET = {'delete': 'fd', 'truncate': 'ft', 'extend': 'fe'}
FILE_KINDS = ('delete', 'truncate', 'zero', 'extend')      # 'zero' = truncate to exactly 0 bytes
TRUNC_LEN = 13


class ByteStream(bytes):
    """an item value that is stored from a binary stream (set(key, stream, read=True)); it reads back as plain bytes"""


# with disk_min_file_size=0 these are file-backed, and their value files are legitimately empty
EMPTY_ITEMS = [('eb', b''), ('et', ''), ('es', ByteStream(b''))]


def expected(v):
    return bytes(v) if isinstance(v, ByteStream) else v


def put(c, k, v):
    if isinstance(v, ByteStream):
        c.set(k, io.BytesIO(bytes(v)), read=True)
    else:
        c[k] = v


def var_mfs(variant):
    return variant.get('min_file_size', MIN_FILE)


def file_damage(kind, damage, variant):
    """the damage done to value files: list of (file damage kind, item)"""
    todo = [(k, TARGET[k]) for k in damage if k in TARGET and ':' not in kind]
    if variant.get('trunc', TRUNC_LEN) == 0:
        todo = [('zero', key) if k == 'truncate' else (k, key) for k, key in todo]
    return todo + [(k, key) for k, key in variant.get('targets', [])]
WKIND = {1: 'wrong_size', 2: 'not_found', 3: 'unknown_file', 4: 'empty_dir', 5: 'count', 6: 'size', 9: 'other'}


# ---------------------------------------------------------------------------
# building and observing


# cache kinds: 'cache', 'fanout' (2 shards), 'fanout8' (8 shards: the 11 items leave some shards without any item),
# 'django' (the FanoutCache a DjangoCache with SHARDS=8 stores its items in, written and read through the Django API),
# 'cache:N' / 'fanout:N' (N file-backed items, more than one page of 100 rows per cache / shard, plus two inline ones)
SPARSE = 8


def kind_base(kind):
    return kind.split(':')[0]


def kind_shards(kind):
    return {'cache': 0, 'fanout': 2, 'fanout8': SPARSE, 'django': SPARSE}[kind_base(kind)]


def kind_items(kind, mfs=MIN_FILE):
    extra = EMPTY_ITEMS if mfs == 0 else []
    if ':' not in kind:
        return ITEMS + extra
    n = int(kind.split(':')[1])
    # raw binary and ASCII text, whose every prefix / extension decodes (see ASSUMPTIONS)
    return [('L%03d' % i, (b'B%03d' % i) * 10 if i % 2 else ('T%03d' % i) * 10) for i in range(n)] + [('s1', 7), ('s2', 'ab')] + extra


def anchor_key(kind):
    """an item that is never damaged: added files / directories with placement 'old' go next to its value file"""
    return 'fk' if ':' not in kind else kind_items(kind)[-3][0]


class DjangoHandle:
    """The cache behind a DjangoCache: items go through the Django API (versioned keys), check() is the check of the
    FanoutCache that DjangoCache delegates every call to."""
    MISSING = object()

    def __init__(self, d, mfs=MIN_FILE, timeout=None):
        from django.conf import settings
        if not settings.configured:
            settings.configure()
        from diskcache.djangocache import DjangoCache
        self.dj = DjangoCache(d, {'SHARDS': SPARSE, 'DATABASE_TIMEOUT': 60 if timeout is None else timeout, 'OPTIONS': {'disk_min_file_size': mfs, 'eviction_policy': 'none'}})

    def __setitem__(self, k, v):
        self.dj.set(k, v, timeout=None)

    def set(self, k, v, read=False):
        self.dj.set(k, v, timeout=None, read=read)

    def __getitem__(self, k):
        v = self.dj.get(k, default=self.MISSING)
        if v is self.MISSING:
            raise KeyError(k)
        return v

    def __iter__(self):
        return iter(self.dj._cache)

    def check(self, fix=False, retry=False):
        return self.dj._cache.check(fix=fix, retry=retry)

    def close(self):
        self.dj.close()


def open_cache(kind, d, mfs=MIN_FILE, timeout=None):
    """timeout: SQLite busy timeout of the cache's connections in seconds (None: the defaults of the library / 60 s behind DjangoCache)"""
    n = kind_shards(kind)
    kw = {} if timeout is None else {'timeout': timeout}
    if kind == 'django':
        return DjangoHandle(d, mfs, timeout)
    if n == 0:
        return diskcache.Cache(d, disk_min_file_size=mfs, eviction_policy='none', **kw)
    return diskcache.FanoutCache(d, shards=n, disk_min_file_size=mfs, eviction_policy='none', **kw)


def shard_dirs(kind, d):
    n = kind_shards(kind)
    return [d] if n == 0 else [os.path.join(d, '%03d' % i) for i in range(n)]


def item_of_row(kind, rawkey):
    """the item name a row key stands for (DjangoCache stores 'name' under ':1:name')"""
    if kind == 'django' and isinstance(rawkey, str) and rawkey.startswith(':1:'):
        return rawkey[3:]
    return rawkey


def build_template(ctx, kind, mfs=MIN_FILE):
    d = os.path.join(ctx.scratch('c17tmpl'), 'c')
    c = open_cache(kind, d, mfs)
    for k, v in kind_items(kind, mfs):
        put(c, k, v)
    c.close()
    for sd in shard_dirs(kind, d):
        con = sqlite3.connect(os.path.join(sd, 'cache.db'))
        con.execute('PRAGMA wal_checkpoint(TRUNCATE)')
        con.close()
    return d


def is_db(rel):
    return 'cache.db' in rel


def observe(sd):
    """Everything check() may look at or change in one cache directory."""
    con = sqlite3.connect('file:%s?mode=ro' % os.path.join(sd, 'cache.db'), uri=True)
    try:
        rows = con.execute('SELECT rowid, key, raw, store_time, expire_time, access_time, access_count, tag, size, mode, '
                           'filename, value FROM Cache ORDER BY rowid').fetchall()
        sets = dict(con.execute("SELECT key, value FROM Settings WHERE key IN ('count', 'size')").fetchall())
    finally:
        con.close()
    files, dirs = {}, []
    for dirpath, dnames, fnames in os.walk(sd):
        rel = os.path.relpath(dirpath, sd)
        rel = '' if rel == '.' else rel
        for n in dnames:
            dirs.append(os.path.join(rel, n))
        for n in fnames:
            r = os.path.join(rel, n)
            p = os.path.join(dirpath, n)
            if is_db(r):
                files[r] = None
            else:
                with open(p, 'rb') as f:
                    data = f.read()
                files[r] = (len(data), hashlib.sha1(data).hexdigest())
    return {'rows': [tuple(bytes(x) if isinstance(x, (bytes, memoryview)) else x for x in r) for r in rows],
            'count': sets['count'], 'size': sets['size'], 'files': files, 'dirs': sorted(dirs)}


def find_row(kind, d, key):
    for sd in shard_dirs(kind, d):
        con = sqlite3.connect(os.path.join(sd, 'cache.db'))
        try:
            r = con.execute('SELECT filename FROM Cache WHERE key IN (?, ?) AND raw = 1', (key, ':1:' + key if kind == 'django' else key)).fetchall()
        finally:
            con.close()
        if r:
            return sd, r[0][0]
    raise KeyError(key)


def apply_damage(kind, d, damage, variant):
    """damage: list of kinds; variant: dict kind -> 'new' | 'old' (placement of added files / directories)."""
    log = []
    home, fk = find_row(kind, d, anchor_key(kind))          # the directory xx/yy of an undamaged item, for the 'old' placements
    xx = fk.split(os.sep)[0]
    yy = os.path.dirname(fk)
    if variant.get('home') == 'empty':
        # added files, directories and counter changes go to a shard that holds no item at all (no 'old' placement there)
        empty = [sd for sd in shard_dirs(kind, d) if not observe(sd)['rows']]
        home = empty[variant.get('home_index', 0) % len(empty)]
        variant = dict(variant, add1='new', add2='new', dir2='new')
    todo = (file_damage(kind, damage, dict(variant, targets=[])) + [(k, None) for k in damage if k not in TARGET]
            + [(k, key) for k, key in variant.get('targets', [])])
    for ni, spec in enumerate(variant.get('nest', [])):
        # out-of-band directories nested in one another: [where, depth, fork, leaf]
        #   where: 'root' (a fresh chain in the cache / shard directory), 'xx' / 'yy' (inside the first- / second-level directory of an
        #          undamaged item's value file, i.e. beside value files), 'other' (the root of the next shard)
        #   depth: number of new directories nested in one another (1-5); fork: 0, or the level whose directory gets a second, empty
        #          child 'side'; leaf: 'dir' (the innermost directory is empty) | 'file' (it holds one unknown file)
        where, depth, fork, leaf = spec
        top = home
        if where == 'other':
            sds = shard_dirs(kind, d)
            top = sds[(sds.index(home) + 1) % len(sds)] if home in sds else home
        elif where in ('xx', 'yy') and variant.get('home') != 'empty':
            top = os.path.join(home, xx if where == 'xx' else yy)
        names = ['n%d%s' % (ni, 'abcdefgh'[lv]) for lv in range(depth)]
        p = os.path.join(top, *names)
        os.makedirs(p)
        if fork:
            os.makedirs(os.path.join(top, *(names[:min(fork, depth)] + ['side'])))
        if leaf == 'file':
            with open(os.path.join(p, 'deep-stray'), 'wb') as f:
                f.write(b'deep stray file')
        log.append(('nest:%s:%d:%d:%s' % (where, depth, fork, leaf), os.path.relpath(p, d)))
    for k, tkey in todo:
        if k in FILE_KINDS:
            sd, fn = find_row(kind, d, tkey)
            p = os.path.join(sd, fn)
            if k == 'delete':
                os.remove(p)
            elif k in ('truncate', 'zero'):
                with open(p, 'r+b') as f:
                    f.truncate(0 if k == 'zero' else variant.get('trunc', TRUNC_LEN))
            else:
                with open(p, 'ab') as f:
                    f.write(b'E' * 9)
            log.append((k, os.path.relpath(p, d)))
        elif k in ('add0', 'add1', 'add2', 'dir1', 'dir2'):
            old = variant.get(k) == 'old'
            rel = {'add0': 'stray0',
                   'add1': os.path.join(xx if old else 'q1', 'stray1'),
                   'add2': os.path.join(yy if old else os.path.join('q2', 'r2'), 'stray2'),
                   'dir1': 'e1',
                   'dir2': os.path.join(xx if old else 'e2', 'f2')}[k]
            p = os.path.join(home, rel)
            if k.startswith('add'):
                os.makedirs(os.path.dirname(p), exist_ok=True)
                with open(p, 'wb') as f:
                    f.write(b'stray' * (1 + KINDS.index(k)))
            else:
                os.makedirs(p, exist_ok=True)
            log.append((k, os.path.relpath(p, d)))
        else:
            con = sqlite3.connect(os.path.join(home, 'cache.db'))
            sign = -1 if variant.get('sign') == 'down' else 1
            if variant.get('sign') == 'zero':       # the counter zeroed behind the library's back
                con.execute('UPDATE Settings SET value = 0 WHERE key = ?', (k,))
            else:
                con.execute('UPDATE Settings SET value = value + ? WHERE key = ?', (sign * (2 if k == 'count' else 1000), k))
            con.commit()
            con.close()
            log.append((k, os.path.relpath(home, d)))
    return log


RE_WRONG = re.compile(r'^wrong file size: (.*), (-?\d+) != (-?\d+)$')
RE_CNT = re.compile(r'^Settings\.count != COUNT\(Cache\.key\); (-?\d+) != (-?\d+)$')
RE_SIZE = re.compile(r'^Settings\.size != SUM\(Cache\.size\); (-?\d+) != (-?\d+)$')


def parse_warnings(warns, kind, d):
    """-> list of (code, shard index, relative path | None, numbers)"""
    sds = shard_dirs(kind, d)
    out = []

    def loc(path):
        best = None
        for i, sd in enumerate(sds):
            if path == sd:
                return i, ''
            if path.startswith(sd + os.sep):
                best = (i, os.path.relpath(path, sd))
        return best if best else (0, path)
    n_cnt = n_size = 0
    for w in warns:
        msg = str(w.message)
        m = RE_WRONG.match(msg)
        if m:
            i, rel = loc(m.group(1))
            out.append((1, i, rel, (int(m.group(2)), int(m.group(3)))))
        elif msg.startswith('file not found: '):
            i, rel = loc(msg[len('file not found: '):])
            out.append((2, i, rel, ()))
        elif msg.startswith('unknown file: '):
            i, rel = loc(msg[len('unknown file: '):])
            out.append((3, i, rel, ()))
        elif msg.startswith('empty directory: '):
            i, rel = loc(msg[len('empty directory: '):])
            out.append((4, i, rel, ()))
        elif RE_CNT.match(msg):
            m = RE_CNT.match(msg)
            out.append((5, None, None, (int(m.group(1)), int(m.group(2)))))
            n_cnt += 1
        elif RE_SIZE.match(msg):
            m = RE_SIZE.match(msg)
            out.append((6, None, None, (int(m.group(1)), int(m.group(2)))))
            n_size += 1
        else:
            out.append((9, None, msg[:80], ()))
    # counter warnings carry no path: attribute them to shards in order of appearance (one per shard at most)
    return out


def wkeys(parsed):
    """(kind, shard, path) with counter warnings numbered by shard-free multiplicity"""
    out = []
    for code, i, rel, nums in parsed:
        out.append((WKIND[code], i, rel))
    return sorted(out, key=repr)


def oracle(obs_list):
    """The inconsistencies of a directory, recomputed from the dump (property text, not the model)."""
    out = []
    for i, o in enumerate(obs_list):
        referenced = set()
        for r in o['rows']:
            size, fn = r[8], r[10]
            if fn is None:
                continue
            referenced.add(fn)
            if fn not in o['files']:
                out.append(('not_found', i, fn))
            elif o['files'][fn] is not None and o['files'][fn][0] != size:
                out.append(('wrong_size', i, fn))
        for rel in o['files']:
            if rel not in referenced and not is_db(rel):
                out.append(('unknown_file', i, rel))
        for dd in o['dirs']:
            pre = dd + os.sep
            if not any(x.startswith(pre) for x in o['dirs']) and not any(x.startswith(pre) for x in o['files']):
                out.append(('empty_dir', i, dd))
        if o['count'] != len(o['rows']):
            out.append(('count', None, None))
        if o['size'] != sum(r[8] for r in o['rows']):
            out.append(('size', None, None))
    return sorted(out, key=repr)


def run_check(c, fix, retry=None):
    with _warnings.catch_warnings():
        _warnings.simplefilter('always')
        return c.check(fix=fix) if retry is None else c.check(fix=fix, retry=retry)


# ---------------------------------------------------------------------------
# one case


def execute(kind, template, damage, variant, workdir):
    """Returns (record for monitor/correspondence).  Everything observable is collected here.
    variant relative=True: the working directory is the case's scratch directory while the cache is damaged, opened on the
    relative path 'c', checked and read; it is restored afterwards."""
    shutil.copytree(template, os.path.join(workdir, 'c'))
    if not variant.get('relative'):
        return execute_in(kind, os.path.join(workdir, 'c'), damage, variant)
    cwd = os.getcwd()
    os.chdir(workdir)
    try:
        return execute_in(kind, 'c', damage, variant)
    finally:
        os.chdir(cwd)


def execute_in(kind, d, damage, variant):
    mfs = var_mfs(variant)
    log = apply_damage(kind, d, damage, variant)
    sds = shard_dirs(kind, d)
    c = open_cache(kind, d, mfs)
    rec = {'kind': kind, 'damage': list(damage), 'variant': dict(variant), 'log': log, 'dir': d, 'items': kind_items(kind, mfs)}
    rec['targets'] = {key: k for k, key in file_damage(kind, damage, variant)}
    try:
        rec['obs0'] = [observe(sd) for sd in sds]
        rec['plain'] = parse_warnings(run_check(c, False), kind, d)
        rec['obs1'] = [observe(sd) for sd in sds]
        rec['fix'] = parse_warnings(run_check(c, True), kind, d)
        rec['obs2'] = [observe(sd) for sd in sds]
        rec['second'] = parse_warnings(run_check(c, False), kind, d)
        rec['obs3'] = [observe(sd) for sd in sds]
        reads = {}
        for k, v in rec['items']:
            try:
                reads[k] = ('val', c[k])
            except KeyError:
                reads[k] = ('missing', None)
            except Exception as e:  # noqa
                reads[k] = ('raised', type(e).__name__)
        rec['reads'] = reads
        try:
            rec['keys'] = sorted(map(repr, c))
        except Exception as e:  # noqa
            rec['keys'] = ['<iteration raised %s>' % type(e).__name__]
    finally:
        c.close()
    return rec


def case_payload(rec, extra=None):
    p = {'check': 'damage', 'kind': rec['kind'], 'damage': rec['damage'], 'variant': rec['variant'], 'applied': rec['log'],
         'plain': wkeys(rec['plain'])[:40], 'fix': wkeys(rec['fix'])[:40], 'second': wkeys(rec['second'])[:40]}
    if extra:
        p.update(extra)
    return p


def removed_by_fix(rec):
    gone = []
    for i, (a, b) in enumerate(zip(rec['obs1'], rec['obs2'])):
        for rel in a['files']:
            if rel not in b['files']:
                gone.append((i, rel))
        for dd in a['dirs']:
            if dd not in b['dirs']:
                gone.append((i, dd))
    return gone


def monitor(rec):
    """-> list of fw.Violation"""
    out = []

    def v(sig, desc, **extra):
        out.append(fw.Violation(sig, desc, case_payload(rec, extra)))
    if any(code == 9 for code, _, _, _ in rec['plain'] + rec['fix'] + rec['second']):
        v('unexpected_warning', 'check() produced a warning of an unknown form')
    # plain check changes nothing
    if rec['obs0'] != rec['obs1']:
        v('plain_check_changed_state', 'plain check() changed the table, the counters or the directory')
    # plain check reports exactly the inconsistencies
    want = oracle(rec['obs0'])
    plain = wkeys(rec['plain'])
    fixk = wkeys(rec['fix'])
    for k in want:
        if k not in plain:
            v('unreported:%s' % k[0], 'plain check() does not report %r' % (k,), missing=list(k))
            break
    for k in plain:
        if k not in want:
            v('spurious:%s' % k[0], 'plain check() reports %r which is not an inconsistency of the directory' % (k,), extra=list(k))
            break
    for k in want:
        if k not in fixk:
            v('fix_unreported:%s' % k[0], 'check(fix=True) does not report %r' % (k,), missing=list(k))
            break
    gone = removed_by_fix(rec)
    for k in fixk:
        if k in want:
            continue
        # allowed: a directory that held only unknown files, which this run removed
        ok = False
        if k[0] == 'empty_dir':
            o = rec['obs1'][k[1]]
            pre = k[2] + os.sep
            inside = [x for x in o['files'] if x.startswith(pre)] + [x for x in o['dirs'] if x.startswith(pre)]
            ok = bool(inside) and all((k[1], x) in gone for x in inside)
        if not ok:
            v('fix_spurious:%s' % k[0], 'check(fix=True) reports %r which was not an inconsistency' % (k,), extra=list(k))
            break
    # second check is clean
    if rec['second']:
        sec = wkeys(rec['second'])
        d16 = True
        for k in sec:
            if k[0] != 'empty_dir':
                d16 = False
                break
            o1, o2 = rec['obs1'][k[1]], rec['obs2'][k[1]]
            pre = k[2] + os.sep
            before = [x for x in list(o1['files']) + o1['dirs'] if x.startswith(pre)]
            after = [x for x in list(o2['files']) + o2['dirs'] if x.startswith(pre)]
            # the directory was not empty before the repair, everything in it was removed by the repair
            if not before or after or k[2] not in o2['dirs']:
                d16 = False
        only_dirs = d16 and all(not any(x.startswith(k[2] + os.sep) for x in rec['obs1'][k[1]]['files']) for k in sec)
        if only_dirs:
            # nothing but (nested) directories was below it: an out-of-band chain of empty directories of which the repair removed only a part
            v('empty_chain_partly_removed', 'second check() reports %s: before the repair each held nothing but nested empty directories (%s); '
              'check(fix=True) removed the inner ones and left the outer one empty' % (
                  ', '.join(k[2] for k in sec), '; '.join(sorted(x for k in sec for x in rec['obs1'][k[1]]['dirs'] if x.startswith(k[2] + os.sep))[:6])))
        elif d16:
            v('empty_parent_after_fix', 'second check() reports %s: the repair removed their contents but not the emptied parents'
              % ', '.join(k[2] for k in sec))
        else:
            v('second_check_not_clean:%s' % '+'.join(sorted(set(k[0] for k in sec))),
              'second check() after check(fix=True) still reports %r' % (sec,))
    if rec['obs2'] != rec['obs3']:
        v('plain_check_changed_state', 'the second (plain) check() changed the directory')
    # items
    targets = rec['targets']
    damaged = set(targets)
    orig = {k: expected(x) for k, x in rec['items']}
    seen_sigs = set()
    for k, (st, got) in rec['reads'].items():
        if k in damaged:
            if targets[k] == 'delete' and st != 'missing' and 'lost' not in seen_sigs:
                seen_sigs.add('lost')
                v('lost_file_item_remains', 'item %r whose file was deleted is still there after the repair: %s' % (k, st), key=k)
            if targets[k] != 'delete' and st == 'raised' and 'unreadable' not in seen_sigs:
                seen_sigs.add('unreadable')
                v('item_unreadable', 'item %r whose file was %sd cannot be read after the repair (%s %s)' % (k, targets[k], st, got), key=k)
            continue
        if (st != 'val' or not (type(got) is type(orig[k]) and got == orig[k])) and 'changed' not in seen_sigs:
            seen_sigs.add('changed')
            v('undamaged_item_changed', 'undamaged item %r reads %s %r after the repair' % (k, st, str(got)[:60]), key=k)
    # rows and files of undamaged items untouched
    def rows_of(obs):
        return {(i, r[1]): r for i, o in enumerate(obs) for r in o['rows']}
    r0, r2 = rows_of(rec['obs0']), rows_of(rec['obs2'])
    for (i, key), r in r0.items():
        if item_of_row(rec['kind'], key) in damaged:
            continue
        if r2.get((i, key)) != r and 'row' not in seen_sigs:
            seen_sigs.add('row')
            v('undamaged_row_changed', 'row of undamaged item %r changed' % (key,), key=repr(key))
        fn = r[10]
        if fn is not None and rec['obs2'][i]['files'].get(fn) != rec['obs0'][i]['files'].get(fn) and 'file' not in seen_sigs:
            seen_sigs.add('file')
            v('undamaged_file_changed', 'file of undamaged item %r changed' % (key,), key=repr(key))
    for (i, key) in r2:
        if (i, key) not in r0:
            v('row_appeared', 'a row appeared during the repair')
    return out


# ---------------------------------------------------------------------------
# a busy shard: another connection holds the write lock of one cache / shard database while check() runs


BUSY_MAX_BEGINS = 80        # safety net: the lock is let go after this many BEGIN statements of one call whatever else happens
BUSY_TIMEOUT = 0.002        # SQLite busy timeout of the checked cache's connections (seconds of REAL time per failed BEGIN / VACUUM)
# (fix, retry, lock taken 'before' the call | 'during' it (right before the call's BEGIN on that shard, i.e. after a fixing run's VACUUM),
#  release: None = kept until the call is over | k = released when the caller makes BEGIN attempt k+1 on that shard)
BUSY_COMBOS = [(False, False, 'before', None), (True, False, 'before', None), (False, True, 'before', 1), (False, True, 'before', 3),
               (True, True, 'before', 2), (False, False, 'during', None), (True, False, 'during', None), (False, True, 'during', 2),
               (True, True, 'during', 1), (True, True, 'during', 3)]


def damaged_shards(rec_obs0, log, kind, d):
    """indices of the shards that hold an inconsistency (oracle entries with a path; counter changes by the damage log)"""
    out = {k[1] for k in oracle(rec_obs0) if k[1] is not None}
    sds = [os.path.relpath(sd, d) for sd in shard_dirs(kind, d)]
    for k, rel in log:
        if k in ('count', 'size') and rel in sds:
            out.add(sds.index(rel))
    return sorted(out)


def execute_busy(kind, template, damage, variant, lock, workdir):
    """The damaged cache is opened with a short database timeout; one other connection takes the write lock of shard j as `lock` says;
    check(fix, retry) is called once under that lock (outcome: the report, or the exception); then, the lock gone, the usual sequence
    check(fix=True), check(), reads."""
    import sched
    d = os.path.join(workdir, 'c')
    shutil.copytree(template, d)
    mfs = var_mfs(variant)
    log = apply_damage(kind, d, damage, variant)
    sds = shard_dirs(kind, d)
    fix, retry, take, release = lock['fix'], lock['retry'], lock['take'], lock.get('release')
    st = {'shard': -1, 'failed': 0, 'held': False, 'took': False, 'begins': 0, 'after_begin': False}
    rec = {'kind': kind, 'damage': list(damage), 'variant': dict(variant), 'log': log, 'dir': d, 'items': kind_items(kind, mfs), 'lock': dict(lock)}
    rec['targets'] = {key: k for k, key in file_damage(kind, damage, variant)}
    rec['obs0'] = [observe(sd) for sd in sds]
    dam = damaged_shards(rec['obs0'], log, kind, d)
    clean = [i for i in range(len(sds)) if i not in dam]
    pool = (clean if lock.get('where') == 'clean' and clean else dam) or list(range(len(sds)))
    j = pool[lock.get('rank', 0) % len(pool)]
    rec['locked'] = j
    rec['locked_is_damaged'] = j in dam
    holder = sqlite3.connect(os.path.join(sds[j], 'cache.db'), isolation_level=None, timeout=0)

    def acquire():
        holder.execute('BEGIN IMMEDIATE')
        st['held'] = st['took'] = True

    def let_go():
        if st['held']:
            st['held'] = False
            holder.execute('COMMIT')

    def before(ev):
        # A BEGIN that directly follows a BEGIN of the same thread means the earlier attempt failed (a retrying _transact tries
        # again at once; a successful BEGIN is followed by other statements).  Nothing here depends on the ORDER in which the
        # checked code visits its shards, except the moment a lock of kind 'during' is taken (the start of the (j+1)-th check of a
        # cache / shard, counted by its PRAGMA integrity_check): if the code under check visits the shards differently, the lock is
        # simply taken at another moment of the call.  The lock is let go after `release` failed attempts -- and in any case after
        # BUSY_MAX_BEGINS BEGIN statements of the call, so that no behaviour of the checked code can make this loop for ever.
        if ev.kind != 'sql':
            return
        if ev.what == 'PRAGMA' and 'integrity_check' in ev.detail[0]:
            st['shard'] += 1            # check() of the next cache / shard begins
        if ev.what != 'BEGIN':
            st['after_begin'] = False
            return
        st['begins'] += 1
        if st['after_begin'] and st['held']:
            st['failed'] += 1
        st['after_begin'] = True
        if not st['took'] and take == 'during' and st['shard'] == j:
            acquire()
        elif st['held'] and ((release is not None and st['failed'] >= release) or st['begins'] > BUSY_MAX_BEGINS):
            let_go()
    tracer = sched.Tracer(before=before)
    try:
        with tracer:
            c = open_cache(kind, d, mfs, timeout=BUSY_TIMEOUT)
            try:
                if take == 'before':
                    acquire()
                tracer.enable(True)
                try:
                    rec['busy'] = ('returned', parse_warnings(run_check(c, fix, retry), kind, d))
                except Exception as e:  # noqa: BLE001  (the exception class is the outcome)
                    rec['busy'] = ('raised', type(e).__name__, str(e)[:80])
                    st['failed'] += st['held']          # the attempt that raised
                finally:
                    tracer.enable(False)
                    let_go()
                rec['failed_begins'] = st['failed']
                rec['obs1'] = [observe(sd) for sd in sds]
                rec['fix'] = parse_warnings(run_check(c, True), kind, d)
                rec['obs2'] = [observe(sd) for sd in sds]
                rec['second'] = parse_warnings(run_check(c, False), kind, d)
                reads = {}
                for k, v in rec['items']:
                    try:
                        reads[k] = ('val', c[k])
                    except KeyError:
                        reads[k] = ('missing', None)
                    except Exception as e:  # noqa
                        reads[k] = ('raised', type(e).__name__)
                rec['reads'] = reads
            finally:
                c.close()
    finally:
        let_go()
        holder.close()
    return rec


def busy_payload(rec, extra=None):
    p = {'check': 'busy', 'kind': rec['kind'], 'damage': rec['damage'], 'variant': rec['variant'], 'lock': rec['lock'], 'applied': rec['log'],
         'locked_shard': rec['locked'], 'outcome': rec['busy'][0], 'failed_begin_attempts': rec.get('failed_begins'),
         'report': wkeys(rec['busy'][1])[:40] if rec['busy'][0] == 'returned' else list(rec['busy'][1:]),
         'inconsistencies': oracle(rec['obs0'])[:40]}
    if extra:
        p.update(extra)
    return p


def lock_text(rec):
    lk = rec['lock']
    return 'check(fix=%r, retry=%r) while another connection holds the write lock of %s (taken %s, %s)' % (
        lk['fix'], lk['retry'], 'the cache database' if kind_shards(rec['kind']) == 0 else 'shard %03d' % rec['locked'],
        'before the call' if lk['take'] == 'before' else "right before the call's BEGIN on it",
        'kept until the call was over' if lk.get('release') is None else 'released after %d failed BEGIN attempt(s)' % lk['release'])


def monitor_busy(rec):
    """-> list of fw.Violation.  A check that could not look at a shard must not return a normal-looking report."""
    out = []

    def v(sig, desc, **extra):
        out.append(fw.Violation(sig, desc, busy_payload(rec, extra)))
    fix = rec['lock']['fix']
    want = oracle(rec['obs0'])
    if rec['busy'][0] == 'raised':
        name, text = rec['busy'][1], rec['busy'][2]
        # Timeout: the write lock was not obtained; a fixing run fails earlier, in its VACUUM, with SQLite's own error
        if not (name == 'Timeout' or (fix and name == 'OperationalError' and 'locked' in text)):
            v('busy_check_raised:%s' % name, '%s raised %s(%s)' % (lock_text(rec), name, text))
    else:
        got = wkeys(rec['busy'][1])
        for k in want:
            if k not in got:
                v('busy_shard_unreported:%s' % k[0], '%s returned a report of %d warning(s) that does not mention %r (the directory has %d '
                  'inconsistencies, %d of them in the locked shard)' % (lock_text(rec), len(got), k, len(want),
                                                                       sum(1 for x in want if x[1] == rec['locked'])), missing=list(k))
                break
        if not fix:
            for k in got:
                if k not in want:
                    v('busy_spurious:%s' % k[0], '%s reports %r which is not an inconsistency of the directory' % (lock_text(rec), k), extra=list(k))
                    break
        elif rec['fix']:
            v('busy_fix_incomplete', '%s returned, yet the next check(fix=True) still reports %r' % (lock_text(rec), wkeys(rec['fix'])[:6]))
    if not fix and rec['obs0'] != rec['obs1']:
        v('plain_check_changed_state', '%s changed the table, the counters or the directory' % lock_text(rec))
    # the lock is gone: the usual sequence
    left = oracle(rec['obs1'])
    fixk = wkeys(rec['fix'])
    for k in left:
        if k not in fixk:
            v('fix_unreported:%s' % k[0], 'after %s, check(fix=True) does not report %r' % (lock_text(rec), k), missing=list(k))
            break
    if rec['second']:
        v('second_check_not_clean:%s' % '+'.join(sorted(set(k[0] for k in wkeys(rec['second'])))),
          'after %s and check(fix=True), check() still reports %r' % (lock_text(rec), wkeys(rec['second'])[:6]))
    targets = rec['targets']
    orig = {k: expected(x) for k, x in rec['items']}
    for k, (stt, got) in rec['reads'].items():
        if k in targets:
            if targets[k] == 'delete' and stt != 'missing':
                v('lost_file_item_remains', 'item %r whose file was deleted is still there after the repair: %s' % (k, stt), key=k)
                break
            if targets[k] != 'delete' and stt == 'raised':
                v('item_unreadable', 'item %r whose file was %sd cannot be read after the repair (%s %s)' % (k, targets[k], stt, got), key=k)
                break
        elif stt != 'val' or not (type(got) is type(orig[k]) and got == orig[k]):
            v('undamaged_item_changed', 'undamaged item %r reads %s %r after the repair' % (k, stt, str(got)[:60]), key=k)
            break
    return out


def busy_cases(ctx, thorough):
    """(kind, damage subset, variant, lock): every cache kind x damage placements (fresh / existing directories, a shard without items)
    x the locked shard (each damaged shard in turn, and an undamaged one) x BUSY_COMBOS (quick: 3-4 of the 10 per case, rotating; fewer damage subsets)."""
    rng = random.Random(ctx.seed * 7919 + 31)
    placed = ('add1', 'add2', 'dir2')
    va = dict({k: 'new' for k in placed}, sign='up')
    vb = dict({k: 'old' for k in placed}, sign='down')
    cases = []
    n = 0
    for kind in ('fanout', 'fanout8', 'django', 'cache'):
        dams = [(tuple(KINDS), va), (tuple(KINDS), dict(vb, trunc=0))]
        if thorough:
            dams += [(('delete',), va), ((), va)]
        if kind in ('fanout8', 'django'):
            dams.append((tuple(KINDS), dict(va, home='empty', home_index=1)))
            if thorough:
                dams.append((tuple(STRAY + ['count']), dict(va, home='empty', home_index=rng.randrange(8))))
        for _ in range(6 if thorough else 1):
            dams.append((tuple(k for k in KINDS if rng.random() < 0.5),
                         dict({k: rng.choice(['new', 'old']) for k in placed}, sign=rng.choice(['up', 'down', 'zero']), trunc=rng.choice([0, TRUNC_LEN]))))
        if kind == 'cache':
            wheres = [('damaged', 0)]
        elif kind == 'fanout':
            wheres = [('damaged', 0), ('damaged', 1)]
        else:
            wheres = [('damaged', 0), ('damaged', 1), ('clean', rng.randrange(8))] + ([('damaged', 2)] if thorough else [])
        for sub, var in dams:
            for where, rank in wheres:
                npick = len(BUSY_COMBOS) if thorough else 4 if kind == 'cache' else 3
                picks = [BUSY_COMBOS[(n + 3 * t) % len(BUSY_COMBOS)] for t in range(npick)]        # 3 and 10 are coprime: every combination comes round
                n += 1
                for fix, retry, take, release in picks:
                    cases.append((kind, sub, var, {'fix': fix, 'retry': retry, 'take': take, 'release': release, 'where': where, 'rank': rank}))
    return cases


def busy_shards(ctx, res, tmpl_of, thorough):
    work = ctx.scratch('c17busy')
    hist = {'raised': {}, 'returned': 0, 'waited': 0, 'cases': 0, 'locked_damaged_shard': 0}
    seen = set()
    for ci, (kind, sub, var, lock) in enumerate(busy_cases(ctx, thorough)):
        wd = os.path.join(work, 'b%d' % ci)
        os.makedirs(wd)
        try:
            rec = execute_busy(kind, tmpl_of(kind, var_mfs(var)), sub, var, lock, wd)
        except Exception as e:  # noqa
            import traceback
            res.violations.append(fw.Violation('check_raised:%s' % type(e).__name__, 'check() without contention or the harness raised: ' + traceback.format_exc()[-600:],
                                               {'check': 'busy', 'kind': kind, 'damage': list(sub), 'variant': var, 'lock': lock}))
            continue
        finally:
            shutil.rmtree(wd, ignore_errors=True)
        res.count(['busy', kind, list(sub), sorted(var.items()), sorted(lock.items(), key=repr)], nontrivial=bool(sub))
        hist['cases'] += 1
        hist['locked_damaged_shard'] += rec['locked_is_damaged']
        hist['waited'] += rec.get('failed_begins', 0) > 0
        if rec['busy'][0] == 'raised':
            hist['raised'][rec['busy'][1]] = hist['raised'].get(rec['busy'][1], 0) + 1
        else:
            hist['returned'] += 1
        for v in monitor_busy(rec):
            if (v.sig, kind) not in seen:          # one report per signature and cache kind
                seen.add((v.sig, kind))
                res.violations.append(v)
        if ci % 40 == 0:
            res.sample({'busy_shard_case': busy_payload(rec)}, limit=3)
    res.extra['busy_shard'] = {'cases': hist['cases'], 'locked_shard_was_damaged': hist['locked_damaged_shard'], 'calls_that_raised': hist['raised'],
                               'calls_that_returned': hist['returned'], 'calls_with_a_failed_begin_attempt': hist['waited']}


# ---------------------------------------------------------------------------
# correspondence


class Namer:
    """canonical ids: 1 + rank of (shard, relative path) among all names of the case; 0 = cache directory / database file"""

    def __init__(self, rec):
        names = set()
        for ph in ('obs0', 'obs2'):
            for i, o in enumerate(rec[ph]):
                for rel in o['files']:
                    names.add((i, rel))
                for dd in o['dirs']:
                    names.add((i, dd))
                for r in o['rows']:
                    if r[10] is not None:
                        names.add((i, r[10]))
        for ph in ('plain', 'fix', 'second'):
            for code, i, rel, _ in rec[ph]:
                if rel:
                    names.add((i, rel))
        self.ids = {n: k + 1 for k, n in enumerate(sorted(names))}

    def __call__(self, i, rel):
        return 0 if rel == '' else self.ids[(i, rel)]


def state_term(o, i, nm):
    rows = fw.clist(['{| r_id := %s; r_size := %s; r_file := %s |}' % (fw.cz(r[0]), fw.cz(r[8]), fw.copt(None if r[10] is None else nm(i, r[10])))
                     for r in o['rows']])

    def fterm(rel):
        meta = o['files'][rel]
        return '{| f_id := %s; f_size := %s; f_db := %s |}' % (fw.cz(nm(i, rel)), fw.cz(0 if meta is None else meta[0]), fw.cbool(is_db(rel)))
    depth = lambda rel: rel.count(os.sep)  # noqa
    root_files = [fterm(r) for r in sorted(o['files']) if depth(r) == 0 and r != 'cache.db']
    d1s = []
    for d1 in [x for x in o['dirs'] if depth(x) == 0]:
        files = [fterm(r) for r in sorted(o['files']) if os.path.dirname(r) == d1]
        d2s = []
        for d2 in [x for x in o['dirs'] if os.path.dirname(x) == d1]:
            f2 = [fterm(r) for r in sorted(o['files']) if os.path.dirname(r) == d2]
            d2s.append('{| d2_id := %s; d2_files := %s |}' % (fw.cz(nm(i, d2)), fw.clist(f2)))
        d1s.append('{| d1_id := %s; d1_files := %s; d1_subs := %s |}' % (fw.cz(nm(i, d1)), fw.clist(files), fw.clist(d2s)))
    too_deep = [x for x in list(o['files']) + o['dirs'] if depth(x) > 2 or (x in o['dirs'] and depth(x) > 1)]
    if too_deep:
        raise ValueError('tree deeper than the model: %r' % too_deep[:3])
    return ('{| rows := %s; s_count := %s; s_size := %s; tree := {| root_files := %s; root_subs := %s |} |}'
            % (rows, fw.cz(o['count']), fw.cz(o['size']), fw.clist(root_files), fw.clist(d1s)))


def codes_term(parsed, nm):
    codes = []
    for code, i, rel, nums in parsed:
        if code in (1, 2, 3, 4):
            codes.append([code, nm(i, rel)] + list(nums))
        else:
            codes.append([code] + list(nums))
    codes.sort()
    return fw.clist([fw.czlist(c) for c in codes])


def coq_checks(rec):
    """three boolean terms: plain run, fixing run, second run"""
    nm = Namer(rec)
    n = len(rec['obs0'])
    if rec['kind'] == 'cache':
        s0, s2 = state_term(rec['obs0'][0], 0, nm), state_term(rec['obs2'][0], 0, nm)
        return ['let s := %s in agrees s false s %s' % (s0, codes_term(rec['plain'], nm)),
                'let s := %s in agrees s true %s %s' % (s0, s2, codes_term(rec['fix'], nm)),
                'let s := %s in agrees s false s %s' % (s2, codes_term(rec['second'], nm))]
    s0 = fw.clist([state_term(rec['obs0'][i], i, nm) for i in range(n)])
    s2 = fw.clist([state_term(rec['obs2'][i], i, nm) for i in range(n)])
    return ['let s := %s in agrees_fanout s false s %s' % (s0, codes_term(rec['plain'], nm)),
            'let s := %s in agrees_fanout s true %s %s' % (s0, s2, codes_term(rec['fix'], nm)),
            'let s := %s in agrees_fanout s false s %s' % (s2, codes_term(rec['second'], nm))]


def correspondence(ctx, res, recs):
    checks, owner = [], []
    for ri, rec in enumerate(recs):
        try:
            cs = coq_checks(rec)
        except Exception as e:  # noqa
            res.disagreements.append(fw.Violation('encode', 'cannot encode the directory into the model: %r' % e, case_payload(rec), 'correspondence'))
            continue
        for ph, c in zip(('plain', 'fix', 'second'), cs):
            checks.append(c)
            owner.append((ri, ph))
    bad, errors = fw.coq_mismatches('c17', IMPORTS, '', checks, chunk=150)
    res.traces_validated += len(checks) - len(bad)
    for e in errors:
        res.disagreements.append(fw.Violation('model-eval', 'model evaluation failed: ' + e[-400:], {}, 'correspondence'))
    seen = set()
    for i in bad:
        ri, ph = owner[i]
        rec = recs[ri]
        key = (rec['kind'], ph)
        if key in seen:
            continue
        seen.add(key)
        res.disagreements.append(fw.Violation(
            'check1_%s' % ph, 'model check1 disagrees with %s.check on the %s run (warnings or resulting state)' % (rec['kind'], ph),
            case_payload(rec, {'model_check': checks[i][:1500]}), 'correspondence'))
    res.extra['model_cases'] = len(checks)
    if checks:
        res.sample({'model_check': checks[1][:600]})


# ---------------------------------------------------------------------------
# driver


def all_cases(ctx, thorough):
    cases = []
    subsets = []
    for n in range(len(KINDS) + 1):
        for sub in itertools.combinations(KINDS, n):
            subsets.append(sub)
    placed = ['add1', 'add2', 'dir2']
    varying = placed + ['count', 'size']
    va = dict({k: 'new' for k in placed}, sign='up')
    vb = dict({k: 'old' for k in placed}, sign='down')
    if thorough:
        for sub in subsets:
            for kind in ('cache', 'fanout'):
                vs = [va] if not any(k in sub for k in varying) else [va, vb]
                for var in vs:
                    cases.append((kind, sub, var))
    else:
        rng = ctx.rng
        must = [(), tuple(KINDS)] + [(k,) for k in KINDS]
        rest = [s for s in subsets if s not in must]
        pick = must + rng.sample(rest, 70)
        for j, sub in enumerate(pick):
            kind = 'cache' if (j + ctx.seed) % 3 else 'fanout'
            if len(sub) == 1:
                cases.append((kind, sub, va))
                if sub[0] in varying:
                    cases.append((kind, sub, vb))
                cases.append(('fanout' if kind == 'cache' else 'cache', sub, va))
            else:
                cases.append((kind, sub, dict({k: rng.choice(['new', 'old']) for k in placed}, sign=rng.choice(['up', 'down']))))
    return mix_dimensions(ctx, cases + sparse_cases(ctx, thorough) + large_cases(ctx, thorough)) + dimension_cases(ctx, thorough) + nest_cases(ctx, thorough)


STRAY = ['add0', 'add1', 'add2', 'dir1', 'dir2']


def sparse_cases(ctx, thorough):
    """FanoutCache / DjangoCache-backed caches in which some shards hold no item: the damage sits in such a shard
    (home='empty') or in a shard with items; a counter zeroed out of band (every cache kind)."""
    rng = ctx.rng
    va = {'add1': 'new', 'add2': 'new', 'dir2': 'new', 'sign': 'up'}
    cases = []
    for kind in ('fanout8', 'django'):
        e = dict(va, home='empty')
        for k in STRAY + ['count', 'size']:
            cases.append((kind, (k,), dict(e, home_index=len(cases))))
        cases.append((kind, tuple(STRAY + ['count', 'size']), e))
        cases.append((kind, tuple(KINDS), dict(e, home_index=1)))                # file damage where the items are, the rest in an empty shard
        cases.append((kind, tuple(KINDS), dict(va, add1='old', add2='old', dir2='old', sign='down')))     # everything in a shard with items
        cases.append((kind, (), va))
        for _ in range(4 if not thorough else 60):
            sub = tuple(k for k in KINDS if rng.random() < 0.4)
            cases.append((kind, sub, dict({k: rng.choice(['new', 'old']) for k in ('add1', 'add2', 'dir2')}, sign=rng.choice(['up', 'down']),
                                          **({'home': 'empty', 'home_index': rng.randrange(8)} if rng.random() < 0.6 else {}))))
    for kind in ('cache', 'fanout', 'fanout8', 'django'):
        cases.append((kind, ('count',), dict(va, sign='zero')))
        cases.append((kind, ('count', 'size', 'delete', 'add2'), dict(va, sign='zero')))
    return cases


def large_cases(ctx, thorough):
    """more than one page of 100 file-backed rows per cache / shard, value files deleted, truncated and extended in early and
    late pages (explicit targets), optionally with added files / directories / counter changes"""
    rng = ctx.rng
    cases = []
    plan = [('cache:150', 1), ('cache:150', 4), ('cache:230', 3), ('cache:230', 12), ('fanout:260', 3), ('fanout:260', 10)]
    if thorough:
        plan = plan * 5 + [('cache:330', 6), ('cache:101', 1), ('cache:201', 2)]
    for kind, ndel in plan:
        names = [k for k, v in kind_items(kind) if k.startswith('L') and k != anchor_key(kind)]
        first_page = names[:100] if kind_base(kind) == 'cache' else names[:120]
        picks = rng.sample(first_page, min(ndel, len(first_page)))          # deletions in early pages
        rest = [k for k in names if k not in picks]
        others = rng.sample(rest, 6)
        targets = [['delete', k] for k in picks] + [['delete', others[0]]] + [['truncate', k] for k in others[1:3]] + [['extend', k] for k in others[3:5]]
        if len(cases) % 2:
            targets = [t for t in targets if t[0] == 'delete']
        sub = tuple(k for k in STRAY + ['count', 'size'] if rng.random() < 0.25)
        cases.append((kind, sub, {'add1': rng.choice(['new', 'old']), 'add2': rng.choice(['new', 'old']), 'dir2': 'new', 'sign': 'up',
                                  'targets': sorted(targets, key=lambda t: t[1])}))
    return cases


def mix_dimensions(ctx, cases):
    """The general families above, with the two input dimensions that do not depend on the damage subset mixed in by a generator
    of their own (so the subsets, placements and targets drawn from ctx.rng stay what they were): about a third of the cases
    run on a cwd-relative cache directory, and about half of the truncations (subset member 'truncate' -> variant trunc=0,
    explicit target 'truncate' -> 'zero') cut the value file to exactly 0 bytes."""
    rng = random.Random(ctx.seed * 7919 + 17)
    out = []
    for kind, sub, var in cases:
        var = dict(var)
        if rng.random() < 0.34:
            var['relative'] = True
        if 'truncate' in sub and ':' not in kind and rng.random() < 0.5:
            var['trunc'] = 0
        if var.get('targets'):
            var['targets'] = [['zero', k] if t == 'truncate' and rng.random() < 0.5 else [t, k] for t, k in var['targets']]
        out.append((kind, sub, var))
    return out


def dimension_cases(ctx, thorough):
    """Directed coverage of: cache directory relative to the working directory; disk_min_file_size=0 with undamaged items whose value
    file is legitimately empty; truncation to exactly 0 bytes -- alone and combined, for every damage kind alone, none, all, and
    random subsets, on Cache and FanoutCache; plus the sparse (8 shards / DjangoCache-backed) and the many-rows caches."""
    rng = random.Random(ctx.seed * 7919 + 23)
    placed = ('add1', 'add2', 'dir2')
    va = dict({k: 'new' for k in placed}, sign='up')
    vb = dict({k: 'old' for k in placed}, sign='down')
    cases = []

    def rnd_var(**dims):
        return dict({k: rng.choice(['new', 'old']) for k in placed}, sign=rng.choice(['up', 'down', 'zero']), trunc=rng.choice([0, TRUNC_LEN]), **dims)
    for kind in ('cache', 'fanout'):
        for dims in ({'relative': True}, {'min_file_size': 0}, {'relative': True, 'min_file_size': 0}):
            cases.append((kind, (), dict(va, **dims)))
            cases.append((kind, tuple(KINDS), dict(va, trunc=0, **dims)))
            cases.append((kind, tuple(KINDS), dict(vb, **dims)))
            singles = [(k, t) for k in KINDS for t in ((TRUNC_LEN, 0) if k == 'truncate' else (TRUNC_LEN,))]
            if len(dims) == 2 and not thorough:
                singles = rng.sample(singles, 4)
            for k, t in singles:
                cases.append((kind, (k,), dict(va if rng.random() < 0.5 else vb, trunc=t, **dims)))
            for _ in range(60 if thorough else 3):
                cases.append((kind, tuple(k for k in KINDS if rng.random() < 0.45), rnd_var(**dims)))
    for kind in ('cache', 'fanout', 'fanout8', 'django'):
        cases.append((kind, ('truncate',), dict(va, trunc=0)))
        cases.append((kind, tuple(KINDS), dict(vb, trunc=0)))
    for kind in ('fanout8', 'django'):
        cases.append((kind, tuple(KINDS), dict(va, relative=True, trunc=0, home='empty', home_index=1)))
        cases.append((kind, tuple(STRAY), dict(va, relative=True, home='empty', home_index=rng.randrange(8))))
        cases.append((kind, tuple(KINDS), dict(vb, min_file_size=0, trunc=0)))
        cases.append((kind, tuple(k for k in KINDS if rng.random() < 0.5), rnd_var(relative=True, min_file_size=0)))
    for kind, dims in [('cache:150', {'relative': True}), ('cache:150', {'relative': True, 'min_file_size': 0})] + (
            [('fanout:260', {'relative': True}), ('cache:230', {'min_file_size': 0})] if thorough else []):
        names = [k for k, v in kind_items(kind) if k.startswith('L') and k != anchor_key(kind)]
        picks = rng.sample(names, 8)
        targets = ([['delete', k] for k in picks[:3]] + [['zero', k] for k in picks[3:5]] + [['truncate', picks[5]]] + [['extend', k] for k in picks[6:]])
        cases.append((kind, tuple(k for k in STRAY + ['count', 'size'] if rng.random() < 0.4),
                      dict(rnd_var(**dims), targets=sorted(targets, key=lambda t: t[1]))))
    return cases


def nest_cases(ctx, thorough):
    """Empty directories nested 1-5 deep (C17's damage alphabet has "empty directories" without a depth): alone in the cache / shard
    directory, inside the first- and second-level directories that hold value files, in a shard without items, in two shards at once,
    forked, with an unknown file at the bottom, alone and together with the other damage kinds."""
    rng = random.Random(ctx.seed * 7919 + 31)
    placed = ('add1', 'add2', 'dir2')
    va = dict({k: 'new' for k in placed}, sign='up')
    vb = dict({k: 'old' for k in placed}, sign='down')
    cases = []
    for depth in (1, 2, 3, 4, 5):
        for j, where in enumerate(('root', 'xx', 'yy')):
            for kind in (('cache', 'fanout') if thorough else (('cache', 'fanout')[(depth + j) % 2],)):
                cases.append((kind, (), dict(va, nest=[[where, depth, 0, 'dir']])))
        cases.append((('fanout', 'cache')[depth % 2], (), dict(va, nest=[[('root', 'yy')[depth % 2], depth, 0, 'file']])))
        cases.append((('cache', 'fanout')[depth % 2], (), dict(va, nest=[['root', depth, rng.randrange(1, depth + 1), 'dir']])))
        for kind in ('fanout8', 'django'):
            cases.append((kind, (), dict(va, home='empty', home_index=depth, nest=[['root', depth, 0, 'dir']])))
        cases.append((('fanout8', 'django')[depth % 2], (), dict(va, nest=[['other', depth, 0, 'dir'], ['yy', 6 - depth, 0, 'dir']])))

    def rnd_spec(wheres=('root', 'xx', 'yy', 'other')):
        depth = rng.choice([1, 2, 3, 3, 4, 5])
        return [rng.choice(wheres), depth, rng.choice([0, 0, rng.randrange(1, depth + 1)]), rng.choice(['dir', 'dir', 'file'])]
    for kind in ('cache', 'fanout', 'fanout8', 'django'):
        cases.append((kind, tuple(KINDS), dict(vb, nest=[['yy', 3, 0, 'dir'], ['root', 4, 2, 'dir']])))
        for _ in range(40 if thorough else 3):
            sub = tuple(k for k in KINDS if rng.random() < 0.4)
            var = dict({k: rng.choice(['new', 'old']) for k in placed}, sign=rng.choice(['up', 'down']), nest=[rnd_spec() for _ in range(rng.choice([1, 2, 3]))])
            if kind in ('fanout8', 'django') and rng.random() < 0.4:
                var.update(home='empty', home_index=rng.randrange(8))
            if rng.random() < 0.3:
                var['relative'] = True
            if rng.random() < 0.2 and 'home' not in var:        # (with the three extra items of min_file_size=0 no shard is left without items)
                var['min_file_size'] = 0
            cases.append((kind, sub, var))
    return cases


def fits_model(rec):
    """the tree of the case is within what coq/model/Check.v describes: directories at most two levels below the cache directory, files at most three"""
    for ph in ('obs0', 'obs2'):
        for o in rec[ph]:
            if any(x.count(os.sep) > 1 for x in o['dirs']) or any(x.count(os.sep) > 2 for x in o['files']):
                return False
    return True


def witness_d16():
    """Regression witness of D16 (fixed): a stray file two levels down.  check(fix=True) must remove it together with
    the directories this empties, so that the second check() is empty.  Returns (ok, first, second)."""
    d = tempfile.mkdtemp(prefix='c17wit-')
    try:
        c = diskcache.Cache(os.path.join(d, 'c'), disk_min_file_size=MIN_FILE)
        c['k'] = b'v' * 40
        p = os.path.join(d, 'c', 'zz', 'yy')
        os.makedirs(p)
        with open(os.path.join(p, 'junk'), 'wb') as f:
            f.write(b'x')
        first = [str(w.message).replace(d, 'd') for w in run_check(c, True)]
        second = [str(w.message).replace(d, 'd') for w in run_check(c, False)]
        left = os.path.exists(os.path.join(d, 'c', 'zz'))
        ok = c['k'] == b'v' * 40
        c.close()
        return (not second and not left and ok), first, second
    finally:
        shutil.rmtree(d, ignore_errors=True)


def check_witness(res):
    ok, first, second = witness_d16()
    res.count(['witness', 'd16'], nontrivial=True)
    if not ok:
        res.violations.append(fw.Violation(
            'empty_parent_after_fix', "Cache(d/c); c['k'] = b'v'*40; create d/c/zz/yy/junk; check(fix=True) reported %r; the second check() "
            'reports %r (must be empty: the repair has to remove the parents it leaves empty)' % (first, second),
            {'check': 'witness_d16', 'first': first, 'second': second}))


def run(ctx, big=False, model=True):
    res = fw.Result()
    thorough = (not ctx.quick) or big
    res.rule = ('caches of 5 inline + 6 file-backed items (Cache and FanoutCache with 2 shards, disk_min_file_size=16) damaged by a subset of the 10 damage '
                'kinds {delete/truncate/extend a value file, add a file at depth 0/1/2, add an empty directory at depth 1/2, bump Settings.count/size up or down}, '
                'added entries placed in fresh or in existing directories; thorough: all 1024 subsets x both placements x both cache kinds; quick: the '
                'empty set, the full set, every single kind (both placements, both cache kinds) and a seeded sample of 70 subsets.  Per case: plain '
                'check, check(fix=True), second check, all items read.  Plus directed families: FanoutCache with 8 shards and the FanoutCache behind a '
                'DjangoCache (SHARDS=8) in which some shards hold no item, with the added files / directories / counter changes placed in a shard '
                'WITHOUT items (each kind alone, all together, random subsets) or in one with items; Settings.count / size zeroed out of band on every '
                'cache kind; caches with 150 / 230 (Cache) and 260 (FanoutCache, 2 shards) file-backed items, i.e. more than one page of 100 rows, with '
                '1-12 value files deleted in early pages and files deleted / truncated / extended in later pages, alone or with other damage kinds.  '
                'Two further input dimensions on every cache kind and damage kind: the cache directory given relative to the working directory '
                '(about a third of the cases above, seeded, and a directed family: no damage, every kind alone, all kinds, random subsets; 8-shard / '
                'DjangoCache-backed caches with the damage in a shard without items; 150 file-backed rows); value files truncated to exactly 0 bytes '
                '(about half of the truncations above and the directed family); caches opened with disk_min_file_size=0 holding three undamaged items whose '
                'value files are legitimately empty (b\'\', \'\', an empty read=True stream), alone and combined with a relative directory.  '
                'Busy shard (monitors only): Cache, FanoutCache (2 and 8 shards) and the FanoutCache behind a DjangoCache, damaged as above (all kinds in fresh / existing '
                'directories, in a shard without items, one kind, none, random subsets), opened with a 2 ms database timeout; another SQLite connection holds the '
                'write lock of one shard database -- each damaged shard in turn, or an undamaged one -- taken before the call or right before the call\'s BEGIN '
                'on that shard, kept until the call is over (retry=False) or released after 1-3 failed BEGIN attempts (retry=True), for check() and check(fix=True): '
                'the call raises (Timeout, or sqlite3.OperationalError from the VACUUM of a fixing run), or the report it returns mentions every inconsistency of every '
                'shard and a returned fixing run leaves nothing to report; afterwards check(fix=True) / check() / reads as in every other case.  '
                'Nested empty directories (variant nest=[[where, depth, fork, leaf], ...]): chains of 1-5 out-of-band directories nested in one another, in the cache / '
                'shard directory, inside the first- and second-level directory of an undamaged value file, in a shard without items, in two shards at once, optionally '
                'forked (a second empty child at some level) or with one unknown file at the bottom; alone, with all damage kinds, and with random subsets, on Cache, '
                'FanoutCache (2 / 8 shards) and behind DjangoCache: same rules (plain check reports the empty leaves, the fixing run leaves nothing for the second check; '
                'a leftover that held only nested empty directories is reported as `empty_chain_partly_removed`).  '
                'non-trivial = at least one damage kind; distinct = distinct (cache kind, subset, placement, damaged items, relative, truncation length, min file size).')
    check_witness(res)          # first, so that a regression of D16 is reported with this witness
    cases = all_cases(ctx, thorough)
    tmpl = {k: build_template(ctx, k[0], k[1]) for k in sorted(set((c[0], var_mfs(c[2])) for c in cases))}
    empty_shards = {}
    for (k, mfs), t in tmpl.items():
        if kind_shards(k) and mfs == MIN_FILE:
            empty_shards[k] = sum(1 for sd in shard_dirs(k, t) if not observe(sd)['rows'])
    recs = []
    hist_kind = {k: 0 for k in KINDS}
    hist_n = {}
    hist_warn = {}
    n_d16 = 0
    work = ctx.scratch('c17work')
    for ci, (kind, sub, var) in enumerate(cases):
        wd = os.path.join(work, 'w%d' % ci)
        os.makedirs(wd)
        try:
            rec = execute(kind, tmpl[(kind, var_mfs(var))], sub, var, wd)
        except Exception as e:  # noqa
            import traceback
            res.violations.append(fw.Violation('check_raised:%s' % type(e).__name__, 'check() or the harness raised: ' + traceback.format_exc()[-600:],
                                               {'check': 'damage', 'kind': kind, 'damage': list(sub), 'variant': var}))
            shutil.rmtree(wd, ignore_errors=True)
            continue
        shutil.rmtree(wd, ignore_errors=True)
        res.count(['damage', kind, list(sub), sorted((k, v) for k, v in var.items() if k in sub or (k == 'sign' and ('count' in sub or 'size' in sub))
                                                     or (k == 'trunc' and 'truncate' in sub)
                                                     or k in ('home', 'home_index', 'targets', 'relative', 'min_file_size', 'nest'))],
                  nontrivial=bool(sub) or bool(var.get('targets')) or bool(var.get('nest')))
        for k in sub:
            hist_kind[k] += 1
        hist_n[len(sub)] = hist_n.get(len(sub), 0) + 1
        for code, _, _, _ in rec['fix']:
            hist_warn[WKIND[code]] = hist_warn.get(WKIND[code], 0) + 1
        vs = monitor(rec)
        n_d16 += sum(1 for v in vs if v.sig == 'empty_parent_after_fix')
        res.violations += vs
        if fits_model(rec):
            recs.append(rec)        # (deeper trees -- only the nested-directory family makes them -- are decided by the monitors alone)
        if ci % 7 == 0:
            res.sample({'kind': kind, 'damage': list(sub), 'placement': var, 'plain': wkeys(rec['plain']), 'fix': wkeys(rec['fix']),
                        'second': wkeys(rec['second'])}, limit=4)
    busy_tmpl = dict(tmpl)

    def tmpl_of(kind, mfs):
        if (kind, mfs) not in busy_tmpl:
            busy_tmpl[(kind, mfs)] = build_template(ctx, kind, mfs)
        return busy_tmpl[(kind, mfs)]
    busy_shards(ctx, res, tmpl_of, thorough)
    if model and not ctx.search_mode:
        correspondence(ctx, res, recs)
    res.extra.update({'damage_kind_histogram': hist_kind, 'cases_by_number_of_damage_kinds': {str(k): v for k, v in sorted(hist_n.items())},
                      'warnings_of_fixing_run_by_kind': hist_warn, 'cases_showing_empty_parent_after_fix': n_d16,
                      'cache_kinds': {k: sum(1 for c in cases if c[0] == k) for k in sorted(set(t[0] for t in tmpl))},
                      'cases_on_a_relative_directory': sum(1 for c in cases if c[2].get('relative')),
                      'cases_with_min_file_size_0_and_empty_value_files': sum(1 for c in cases if var_mfs(c[2]) == 0),
                      'cases_with_a_file_truncated_to_0_bytes': sum(1 for r in recs if 'zero' in r['targets'].values()),
                      'shards_without_items_in_template': empty_shards,
                      'cases_with_damage_in_a_shard_without_items': sum(1 for c in cases if c[2].get('home') == 'empty'),
                      'cases_with_more_than_100_file_rows': sum(1 for c in cases if ':' in c[0]),
                      'cases_with_nested_empty_directories_by_depth': {str(dp): sum(1 for c in cases if any(sp[1] == dp for sp in c[2].get('nest', []))) for dp in (1, 2, 3, 4, 5)},
                      'exhaustive': bool(thorough)})
    return res


def search(ctx, broken):
    return run(ctx, big=True, model=False)


def replay(payload):
    case = payload.get('case', {})
    if case.get('check') == 'witness_d16':
        ok, first, second = witness_d16()
        print('check(fix=True): %r\nsecond check(): %r' % (first, second))
        return ok
    d = tempfile.mkdtemp(prefix='c17r-')
    try:
        class C:
            def scratch(self, name=''):
                return tempfile.mkdtemp(prefix=name + '-', dir=d)
        kind = case.get('kind', 'cache')
        variant = case.get('variant', {})
        tmpl = build_template(C(), kind, var_mfs(variant))
        wd = os.path.join(d, 'w')
        os.makedirs(wd)
        if case.get('check') == 'busy':
            rec = execute_busy(kind, tmpl, case.get('damage', []), variant, case['lock'], wd)
            vs = monitor_busy(rec)
            print('damage %r (%s, placement %r)' % (case.get('damage'), kind, variant))
            print('  inconsistencies: %r' % (oracle(rec['obs0']),))
            print('  %s' % lock_text(rec))
            if rec['busy'][0] == 'raised':
                print('  -> raised %s(%s) after %d failed BEGIN attempt(s)' % (rec['busy'][1], rec['busy'][2], rec['failed_begins']))
            else:
                print('  -> returned %r after %d failed BEGIN attempt(s)' % (wkeys(rec['busy'][1]), rec['failed_begins']))
            print('  then check(fix=True): %r' % (wkeys(rec['fix']),))
            print('  then check()        : %r' % (wkeys(rec['second']),))
            for v in vs:
                print('  %s: %s' % (v.sig, v.desc))
            return not vs
        rec = execute(kind, tmpl, case.get('damage', []), variant, wd)     # honours variant relative / trunc / min_file_size
        vs = monitor(rec)
        print('damage %r (%s, placement %r)' % (case.get('damage'), kind, case.get('variant')))
        print('  plain check : %r' % (wkeys(rec['plain']),))
        print('  check(fix)  : %r' % (wkeys(rec['fix']),))
        print('  second check: %r' % (wkeys(rec['second']),))
        for v in vs:
            print('  %s: %s' % (v.sig, v.desc))
        return not vs
    finally:
        shutil.rmtree(d, ignore_errors=True)
