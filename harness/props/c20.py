"""C20 -- Averager counts every add once; throttle never exceeds its rate.

Averager: 1-3 threads (own Cache objects / one shared Cache / FanoutCache) running programs of
add/get/pop under the deterministic scheduler (timeout 0), enumerated and random schedules, on four cache
configurations (default; statistics=True, least-recently-used, least-frequently-used: there a lookup needs the write
lock, so Averager.get meets the locks held by add/pop -- `avg_contention` calls it at every point of three adds)
-- and 'files' (disk_min_file_size=0: the (total, count) pair lives in a value file that every add replaces; `avg_file_overlap`
places the row read of a lock-free get at every point of two adds of another client, after an add of its own has completed) --
and three classes of values (distinct +-2^i; small integers with zeros and cancelling values; the same over binary
fractions), see VALUE_CLASSES.
MONITOR (no model): (1) reports -- there must be an order of the calls, consistent with their real-time order
(call A before call B when A returned before B was called), in which every get and pop returns total/count of the
adds since the last pop (None iff there are none) and the pop made by the harness after the run returns what is
left (`avg_linearizable`); for a lone client this is the program order, checked call by call together with the
stored (total, count) (`avg_sequential`); no call may raise (a Timeout is a call that gave up on a held lock).
(2) ledger (values +-2^i only) -- every added value must be accounted for exactly once by the pops: an exact cover
must exist; every get must report the mean of some set of added values.  CORRESPONDENCE (integer values): atomic
order read off the scheduler log (COMMIT of add/pop -- and of get where it is a transaction -- on the key shard, the
lock-free SELECT of get otherwise) -> model/Recipes.v check_avg.

throttle: 1-3 callers under a virtual clock supplied as time_func/sleep_func (time advances only when a
sleeping caller is resumed, never while an admission is in flight), random arrival gaps, counts 1-5 and
periods count*2^k so that rate is a power of two and every binary64 operation of the implementation is
exact; a second family places arrivals at (next token due) - eps for eps from 0 and one tick of 2^-30 s up to 2^-10 s
(`thr_boundary`, `thr_gen_fine`), alone, followed by immediate calls, and with several callers at the same instant.  MONITOR: sliding window over the timestamps at which the wrapped function starts:
#starts in [t_i, t_j] <= count + rate*(t_j - t_i) for all i <= j (exact fractions; observed slack
reported); every call starts exactly once; a lone caller sleeps at most once per call.
Several throttled functions on ONE cache (`thr_multi_special`, `thr_multi_gen`; monitors only): two or three functions, each with its own
(count, seconds), decorated without name= -- same bare name in different classes / enclosing functions / at module level, or different
names -- called by 2-4 callers; the starts of each function are judged against ITS OWN count + rate*W.
CORRESPONDENCE: the sequence of (caller, clock reading) of the transact blocks -> check_throttle:
per-attempt outcome (start / sleep delay) and the final stored (last, tally) must agree exactly.
"""
import itertools
import shutil
import tempfile
from fractions import Fraction

import fw
import instr
import sched
from instr import diskcache
from props import c15 as base
from props.c15 import add_dis

ID = 'C20'
COQ_PROP = 'C20'
LEVEL = 'proof'
TRANSLATE = ['recipes', 'sql', 'disk', 'argskey']      # argskey: full_name, from which throttle derives its bucket key when no name= is given
TRUSTED = [
    'atomic layer: Averager.add (one transact block), Averager.pop (one atomic Cache.pop) and Averager.get (one lock-free read; with statistics=True or the least-recently-used / least-frequently-used policy one write transaction, placed at its COMMIT) are single steps of model/Recipes.v (C05/C06 assumed)',
    'Averager report monitor: real-time order of two calls is read off the scheduler (a call is invoked when its client\'s previous call has returned, and has returned once its last event was granted; one client runs between two grants); added values are integers or multiples of 1/4 of magnitude at most 2^8, at most 9 per run, so every total is exact in binary64 in any order and total/count is the same single division in the implementation and in the monitor',
    'translator templates of tools/emit_recipes.py for Averager and throttle (AST equality outside the holes)',
    'throttle arithmetic is exact over Q in the model; binary64 rounding in the implementation is not modelled (the harness uses values on which it is exact and the exact comparison of every tally would expose any rounding)',
    'the virtual clock of harness/props/c20.py: time_func reads it, sleep_func suspends the caller until it is resumed at or after its wake time',
    'token-boundary arrivals: every clock reading is an integer number of ticks of 2^-30 s below 2^11 s and rate is a power of two, so the binary64 arithmetic of throttle is exact on them (re-checked per run: throttle_boundary_cases_off_the_tick_grid must be 0) and the window bound is decided on the exact rationals; eps values are the powers of two nearest to 1 ns, 0.5 us, 1 us (one just below, one just above), 2 us and 1 ms',
]
ASSUMPTIONS = [
    'the averager / throttle key is touched by nobody else, has no ttl and is not evicted',
    'each cache operation and each transact block is atomic and isolated (properties C05/C06)',
    'throttle with several functions: the functions are defined in one module (static methods of different classes, functions nested in different functions, '
    'module-level functions), are different functions, and are throttled without name= on the same cache; two wrappers of the SAME function (two callers) share its bucket',
    'throttle: count >= 1, seconds > 0, clock readings of successive transact blocks never decrease; a start is timestamped with the clock reading of the block that admitted it (the harness lets no time pass between admission and start)',
    '"every call is eventually let through": proved for a lone caller (after at most one sleep of the computed delay); under contention it needs a fair scheduler and is not claimed',
    'Averager totals are integers in the model (runs that add integers -- including zeros and values that cancel -- are compared with it; binary64 sums of them are exact); the reported mean is compared as the correctly rounded quotient; runs that add binary fractions are decided by the monitors only',
    'Averager configurations: statistics and the least-recently-used / least-frequently-used policies are run with the default size_limit (1 GB), so the averager key is never evicted; the lock timeout is 0 under the scheduler (a blocked BEGIN fails at once, a retrying call spins through a scheduling point), which stands for any finite timeout shorter than the time the lock is held',
]

KEY = 'K'
IMPORTS = ['DCPrelude', 'RecipesBase', 'Gen_Recipes', 'Recipes']

# cache configurations the Averager runs on.  With hit/miss statistics or an access-recording eviction policy a lookup is a WRITE
# transaction (Cache.get needs the write lock), so Averager.get contends with the transactions of add/pop instead of reading lock-free.
# size_limit stays at its default of 1 GB, so nothing is ever evicted (assumption of the recipe).
CONFIGS = {
    'default': {},
    'statistics': {'statistics': True},
    'lru': {'eviction_policy': 'least-recently-used'},
    'lfu': {'eviction_policy': 'least-frequently-used'},
    # every pickled value -- the (total, count) pair of the Averager -- is kept in a value FILE: each add writes a new file and removes the
    # old one after its COMMIT, and the lock-free Averager.get opens the file named by the row it has just read
    'files': {'disk_min_file_size': 0},
}


def avg_caches(variant, n, d, shards, config='default'):
    kw = dict(timeout=0, eviction_policy='none')
    kw.update(CONFIGS[config])
    if variant == 'own':
        return [diskcache.Cache(d, **kw) for _ in range(n)]
    if variant == 'shared':
        c = diskcache.Cache(d, **kw)
        return [c] * n
    if variant == 'fanout':
        c = diskcache.FanoutCache(d, shards=shards, **kw)
        return [c] * n
    if variant == 'fanout-own':
        return [diskcache.FanoutCache(d, shards=shards, **kw) for _ in range(n)]
    raise ValueError(variant)


# ---------------------------------------------------------------------------
# Averager


def avg_execute(case, d, max_steps=6000):
    progs = case['progs']
    n = len(progs)
    clock = instr.Clock(1000.0)
    out = {}
    with instr.Installed(clock):
        caches = avg_caches(case['variant'], n, d, case.get('shards', 1), case.get('config', 'default'))
        s = sched.Scheduler(clock, max_steps=max_steps)

        def prog(i):
            def p():
                av = diskcache.Averager(caches[i], KEY)
                rec = []
                for op in progs[i]:
                    e0 = s.nevents[i]
                    if op == 'get':
                        res = av.get()
                    elif op == 'pop':
                        res = av.pop()
                    else:
                        res = av.add(op[1])
                    rec.append([op, e0, s.nevents[i], res])
                return rec
            return p
        r = s.run([prog(i) for i in range(n)], case['schedule'], warmups=[base.warm(c) for c in caches])
        out['overflow'] = r['overflow']
        out['errors'] = [None if e is None else repr(e) for e in r['errors']]
        out['records'] = r['results']
        out['log'] = r['log']
        out['nshards'], out['kshard'] = base.shard_info(caches[0], KEY)
        out['final'] = caches[0].get(KEY, default=None)
        out['final_pop'] = diskcache.Averager(caches[0], KEY).pop()
        for c in {id(c): c for c in caches}.values():
            c.close()
    return out


def avg_steps(out, n, case_config='default'):
    per = base.client_events(out['log'], n)
    ns, k = out['nshards'], out['kshard']
    steps = []
    for cid in range(n):
        rec = out['records'][cid]
        if rec is None:
            raise base.Shape('client %d produced no record (%s)' % (cid, out['errors'][cid]))
        for op, e0, e1, res in rec:
            evs = per[cid][e0:e1]
            if case_config == 'files':
                # value files: the lock-free lookup is a SELECT and the opening of the file the row names, repeated when that file has
                # been replaced meanwhile; what it returns is the committed state at its LAST SELECT (files are written once).  In the
                # transactions of add / pop only the SQL events matter for the atomic order.
                if op == 'get':
                    sel = [e for e in evs if e[1] == 'sql:SELECT']
                    if not sel or not all(e[1] == 'sql:SELECT' or e[1].startswith('file:') for e in evs):
                        raise base.Shape('Averager.get on value files with events %r' % [e[1] for e in evs])
                    steps.append((sel[-1][0], cid, 'get', res))
                    continue
                evs = [e for e in evs if e[1].startswith('sql:')]
            if op == 'get' and [e[1] for e in evs] == ['sql:SELECT']:
                steps.append((evs[0][0], cid, 'get', res))           # the lock-free lookup of the default configuration
                continue
            if op == 'get' and case_config == 'default':
                raise base.Shape('Averager.get with events %r' % [e[1] for e in evs])
            # statistics / least-recently-used / least-frequently-used: the lookup is one write transaction (after BEGINs that failed)
            runs = base.commit_runs(evs)
            if len(runs) != 1:
                raise base.Shape('Averager.%s with %d transactions' % (op if op in ('pop', 'get') else 'add', len(runs)))
            gi, what = base.lin_point(runs[0], ns, k)
            if what != 'sql:COMMIT':
                raise base.Shape('Averager transaction ended by ' + what)
            steps.append((gi, cid, op if op in ('pop', 'get') else 'add', res))
    steps.sort()
    return steps


def subsets_matching(values, m):
    """Subsets (as bitmasks over `values`) whose Python mean equals the float m."""
    out = []
    n = len(values)
    for mask in range(1, 1 << n):
        tot = 0.0
        cnt = 0
        for j in range(n):
            if mask >> j & 1:
                tot += values[j]
                cnt += 1
        if tot / cnt == m:
            out.append(mask)
    return out


def avg_mean(total, count):
    """what the property says a report is: None when nothing was added since the last pop, else total / count"""
    return None if count == 0 else total / count


def same_report(got, want):
    if got is None or want is None:
        return got is None and want is None
    return got == want


def avg_calls(case, out):
    """the calls of a run with real-time stamps in scheduler steps: a call is invoked when the previous call of its client has
    returned (inv = number of events granted so far) and has returned once its last event was granted (resp); call A precedes
    call B in real time iff resp(A) <= inv(B) (only one client runs between two grants)"""
    n = len(case['progs'])
    per = base.client_events(out['log'], n)
    calls = []
    for cid in range(n):
        prev = 0
        for op, e0, e1, res in out['records'][cid]:
            evs = per[cid][e0:e1]
            resp = evs[-1][0] + 1 if evs else prev
            calls.append({'cid': cid, 'op': op, 'res': res, 'inv': prev, 'resp': resp})
            prev = resp
    return calls


def show_op(op):
    return op if op in ('get', 'pop') else 'add(%r)' % (op[1],)


def avg_sequential(case, out):
    """one client: after every call, get() / pop() == total/count of the adds since the last pop (None iff there are none);
    total is accumulated left to right from 0.0 exactly as the property's 'total' is"""
    total, count, since = 0.0, 0, []
    for k, (op, e0, e1, res) in enumerate(out['records'][0]):
        if op in ('get', 'pop'):
            want = avg_mean(total, count)
            if not same_report(res, want):
                return [('sequential-report:' + op, 'call %d of a lone client: %s() returned %r but the adds since the last pop are %r: total/count = %r' % (
                    k, op, res, since, want))]
            if op == 'pop':
                total, count, since = 0.0, 0, []
        else:
            total += op[1]
            count += 1
            since.append(op[1])
    want = avg_mean(total, count)
    if not same_report(out['final_pop'], want):
        return [('sequential-report:pop', 'the pop after the run returned %r but the adds since the last pop are %r: total/count = %r' % (out['final_pop'], since, want))]
    stored = None if out['final'] is None else tuple(out['final'])
    if (stored is None) != (count == 0) or (stored is not None and (stored[0] != total or stored[1] != count)):
        return [('sequential-report:stored', 'stored (total, count) is %r after adds %r since the last pop' % (out['final'], since))]
    return []


def avg_linearizable(calls, final_pop):
    """is there a total order of the calls, consistent with their real-time order, in which every get and pop reports
    total/count of the adds ordered after the last pop before it (None iff there are none), pop resets, and the pop made by
    the harness after the run reports what is left?"""
    N = len(calls)
    preds = []
    for b in calls:
        m = 0
        for j, a in enumerate(calls):
            if a is not b and a['resp'] <= b['inv']:
                m |= 1 << j
        preds.append(m)
    full = (1 << N) - 1
    dead = set()

    def go(mask, total, count):
        if mask == full:
            return same_report(final_pop, avg_mean(total, count))
        if (mask, total, count) in dead:
            return False
        for i in range(N):
            if mask >> i & 1 or preds[i] & ~mask:
                continue
            c = calls[i]
            if c['op'] == 'get':
                ok = same_report(c['res'], avg_mean(total, count)) and go(mask | 1 << i, total, count)
            elif c['op'] == 'pop':
                ok = same_report(c['res'], avg_mean(total, count)) and go(mask | 1 << i, 0.0, 0)
            else:
                ok = go(mask | 1 << i, total + c['op'][1], count + 1)
            if ok:
                return True
        dead.add((mask, total, count))
        return False
    return go(0, 0.0, 0)


def avg_unexplained(calls):
    """a short diagnosis for the message (not a decision): lookups that reported 'no data' although some add had returned
    before they were called and no pop could have come in between"""
    pops = [c for c in calls if c['op'] == 'pop']
    hints = []
    for g in calls:
        if g['op'] != 'get' or g['res'] is not None:
            continue
        done = [a for a in calls if a['op'] not in ('get', 'pop') and a['resp'] <= g['inv']]
        if done and not any(p['inv'] < g['resp'] for p in pops):
            hints.append('client %d get() -> None although add of %r had completed before it was called and no pop was called before it returned' % (
                g['cid'], [a['op'][1] for a in done]))
    return hints


def avg_monitor(case, out):
    bad = []
    if out['overflow']:
        return [('no-progress', 'averager clients did not finish')]
    for i, e in enumerate(out['errors']):
        if e is not None and e.startswith('Timeout('):
            bad.append(('client-error:Timeout', 'client %d raised %s: a call of the Averager gave up on a held lock instead of waiting for it, so an add is not '
                        'counted / the mean of the completed adds is not reported (program of the client: %r)' % (i, e, [show_op(op) for op in case['progs'][i]])))
        elif e is not None:
            bad.append(('client-error', 'client %d raised %s' % (i, e)))
    if bad:
        return bad
    # the property itself: every report is total/count of the completed adds since the last pop
    if len(case['progs']) == 1:
        bad += avg_sequential(case, out)
    else:
        calls = avg_calls(case, out)
        if not avg_linearizable(calls, out['final_pop']):
            hints = avg_unexplained(calls)
            bad.append(('report-not-linearizable', 'no order of the calls that respects their real-time order makes every get/pop report total/count of the '
                        'adds since the last pop%s; calls (client, call, result, invoked-at-step, returned-at-step): %r, pop after the run: %r' % (
                            ' [' + '; '.join(hints[:2]) + ']' if hints else '',
                            [(c['cid'], show_op(c['op']), c['res'], c['inv'], c['resp']) for c in sorted(calls, key=lambda c: (c['inv'], c['cid']))], out['final_pop'])))
    values = [op[1] for p in case['progs'] for op in p if op not in ('get', 'pop')]
    for op_res in [res for rec in out['records'] for op, e0, e1, res in rec if op not in ('get', 'pop')]:
        if op_res is not None:
            bad.append(('add-result', 'Averager.add returned %r' % (op_res,)))
    if case.get('values', 'pow2') != 'pow2':
        return bad           # the ledger below needs values whose subset sums are all distinct
    pops = [res for rec in out['records'] for op, e0, e1, res in rec if op == 'pop'] + [out['final_pop']]
    gets = [res for rec in out['records'] for op, e0, e1, res in rec if op == 'get']
    full = (1 << len(values)) - 1
    cands = []
    for m in pops:
        if m is None:
            cands.append([0])
        else:
            cands.append(subsets_matching(values, m))

    def cover(j, used):
        if j == len(cands):
            return used == full
        for mask in cands[j]:
            if mask & used == 0 and cover(j + 1, used | mask):
                return True
        return False
    if not cover(0, 0):
        bad.append(('lost-update', 'adds %r cannot be partitioned among the pops %r: some added value is counted zero or several times' % (values, pops)))
    for g in gets:
        if g is not None and not subsets_matching(values, g):
            bad.append(('get-mean', 'Averager.get returned %r which is the mean of no set of added values %r' % (g, values)))
    return bad


def frac(x):
    p, q = float(x).as_integer_ratio()
    return '(Some (%s, %s))' % (fw.cz(p), fw.cz(q))


def avg_check(case, out, steps):
    def cop(op):
        return 'AGet' if op == 'get' else 'APop' if op == 'pop' else 'AAdd %s' % fw.cz(op[1])
    progs = fw.clist([fw.clist([cop(o) for o in p]) for p in case['progs']])
    schedule = base.natlist([cid for gi, cid, kind, res in steps])
    tr = []
    for gi, cid, kind, res in steps:
        if kind == 'add':
            ev = 'AAdded'
        else:
            ev = '%s %s' % ('AGot' if kind == 'get' else 'APopped', 'None' if res is None else frac(res))
        tr.append('(%d%%nat, %s)' % (cid, ev))
    fin = out['final']
    if fin is None:
        final = 'None'
    else:
        t, c = fin
        if float(t) != int(t):
            raise base.Shape('stored total %r is not integral' % (t,))
        final = '(Some (%s, %s))' % (fw.cz(int(t)), fw.cz(c))
    return 'check_avg %s %s %s %s' % (progs, schedule, fw.clist(tr), final)


# value classes of the adds.  'pow2': distinct +-2^i (every subset has its own sum, so the ledger can attribute each value to a pop);
# 'cancel': small integers with zeros and values that cancel earlier ones, so that the running total passes through exactly 0 while the
# count does not; 'dyadic': the same with binary fractions (multiples of 1/4 of magnitude at most 2^8: every sum of at most 9 of them is exact
# in binary64 in any order, and total/count is one correctly rounded division in the implementation and in the monitor alike).
INT_POOL = [1, -1, 2, 3, -2, 5, -4, 7]
DYADIC_POOL = [0.5, -0.5, 1.5, -1.0, 0.25, 2.5, -0.75, 3.0, 1.0, -2.25]
VALUE_CLASSES = ['pow2', 'cancel', 'dyadic']
MAX_ADDS = 9


def value_source(rng, klass):
    seen, since = [], []

    def nxt():
        if klass == 'pow2':
            v = 1 << len(seen)
            v = v if rng.random() < 0.8 else -v
        else:
            r = rng.random()
            zero = 0 if klass == 'cancel' else 0.0
            if r < 0.2:
                v = zero
            elif r < 0.45 and since:
                v = -since[-1] + zero               # x then -x
            elif r < 0.65 and since:
                v = -sum(since) + zero              # brings the sum of everything added so far (since the reset) to zero
            else:
                v = rng.choice(INT_POOL if klass == 'cancel' else DYADIC_POOL)
        seen.append(v)
        since.append(v)
        return v
    nxt.seen = seen
    nxt.since = since
    return nxt


def avg_gen(rng, n=None, variant=None, config=None, values=None):
    n = n or rng.choice([2, 2, 3, 3])
    variant = variant or rng.choice(['own', 'own', 'shared', 'fanout', 'fanout-own'])
    config = config or rng.choice(['default', 'default', 'statistics', 'lru', 'lfu'])
    values = values or rng.choice(['pow2', 'pow2', 'cancel', 'cancel', 'dyadic'])
    shards = rng.choice([1, 3]) if variant.startswith('fanout') else 1
    nxt = value_source(rng, values)
    progs = []
    for i in range(n):
        p = []
        for _ in range(rng.choice([1, 2, 3, 4])):
            r = rng.random()
            if r < 0.6 and len(nxt.seen) < MAX_ADDS:
                p.append(['add', nxt()])
            elif r < 0.8:
                p.append('get')
            else:
                p.append('pop')
        progs.append(p)
    L = rng.choice([0, 10, 30, 60])
    schedule = []
    while len(schedule) < L:
        schedule += [rng.randrange(n)] * rng.choice([1, 1, 2, 4, 8])
    return {'check': 'averager', 'variant': variant, 'shards': shards, 'config': config, 'values': values, 'progs': progs, 'schedule': schedule[:L]}


def avg_seq_gen(rng):
    """a lone client: a sequential history in which nearly every add is followed by a get, over values whose partial sums pass through zero"""
    variant = rng.choice(['own', 'fanout'])
    values = rng.choice(['cancel', 'dyadic'])
    nxt = value_source(rng, values)
    p = []
    for _ in range(rng.choice([3, 5, 7])):
        r = rng.random()
        if r < 0.75 and len(nxt.seen) < MAX_ADDS:
            p.append(['add', nxt()])
            if rng.random() < 0.8:
                p.append('get')
        elif r < 0.85:
            p.append('get')
        else:
            p.append('pop')
            if rng.random() < 0.5:
                p.append('get')
            del nxt.since[:]                       # cancelling values refer to the adds since this pop
    return {'check': 'averager', 'variant': variant, 'shards': rng.choice([1, 3]) if variant == 'fanout' else 1,
            'config': rng.choice(['default', 'default', 'statistics', 'lru', 'lfu']), 'values': values, 'progs': [p], 'schedule': []}


def avg_seq_special():
    """directed sequential histories: each series is added value by value with a get after every add, then pop, get, and after the
    pop a value and its negation, each followed by a get; the series start with zeros, cancel in two steps (x, -x, y) and in three
    (a, b, -(a+b)), over integers and binary fractions"""
    series = [[0], [0, 0, 6], [0.0, 2.5]]
    series += [[x, -x, y] for x, y in ((1, 3), (-2, 2), (0.5, 0.25), (-1.5, 4.0))]
    series += [[a, b, -(a + b)] for a, b in ((1, 2), (1.5, -1.0), (0.25, 0.5), (-3, 7))]
    cs = []
    for k, ser in enumerate(series):
        values = 'cancel' if all(isinstance(v, int) for v in ser) else 'dyadic'
        p = []
        for v in ser:
            p += [['add', v], 'get']
        p += ['pop', 'get', ['add', ser[-1]], 'get', ['add', -ser[-1]], 'get']
        variant = ['own', 'fanout'][k % 2]
        cs.append({'check': 'averager', 'variant': variant, 'shards': 3 if variant == 'fanout' else 1, 'config': 'default',
                   'values': values, 'progs': [p], 'schedule': []})
    return cs


def avg_contention(step=1):
    """directed: client 0 adds three values, client 1 looks the mean up twice; client 0 is first granted m events, then client 1
    three, then round-robin -- for every m up to the length of client 0's program, so that the first lookup is called at every point
    of every add, in particular inside the transaction of the second and third add when one and two adds have completed.  On the
    configurations where a lookup needs the write lock (statistics, least-recently-used, least-frequently-used) the lookup then meets a
    held lock: it has to wait for it (retry), not give up."""
    cs = []
    for config in ('statistics', 'lru', 'lfu'):
        for variant, shards, upto in (('own', 1, 22), ('shared', 1, 22), ('fanout', 1, 22), ('fanout', 3, 34), ('fanout-own', 3, 34)):
            for m in range(0, upto, step):
                cs.append({'check': 'averager', 'variant': variant, 'shards': shards, 'config': config, 'values': 'pow2',
                           'progs': [[['add', 1], ['add', 2], ['add', 4]], ['get', 'get']], 'schedule': [0] * m + [1] * 3,
                           'family': 'contention'})
    return cs


def avg_file_overlap(ctx, step=1):
    """directed, value files (configuration 'files'): client 1 adds a value and then looks the mean up twice; client 0 adds two more
    values.  Client 1 is first granted exactly the events of its add (counted in a dry run of the same programs), so that its first
    lookup is called AFTER an add has completed; then client 0 is granted m events, then client 1 ONE (the SELECT of its lock-free
    lookup), then client 0 runs on for 70 events (to the end of its program: the add under way commits and removes the file the lookup
    has just been pointed to), then round-robin -- for every m, so that the lookup's row read falls at every point of both adds.
    The lookup reports the mean before or after the overlapping adds, never None."""
    cs = []
    progs = [[['add', 2], ['add', 4]], [['add', 1], 'get', 'get']]
    for variant, shards, upto, st in (('own', 1, 34, 1), ('shared', 1, 34, 2), ('fanout', 1, 34, 2), ('fanout', 3, 44, 1), ('fanout-own', 3, 44, 2)):
        case = {'check': 'averager', 'variant': variant, 'shards': shards, 'config': 'files', 'values': 'pow2', 'progs': progs,
                'schedule': [1] * 200, 'family': 'file-overlap'}
        d = ctx.scratch('c20f')
        try:
            out = avg_execute(case, d)
        finally:
            shutil.rmtree(d, ignore_errors=True)
        if out['overflow'] or any(out['errors']) or not out['records'][1]:
            cs.append(case)         # (the monitors report what went wrong)
            continue
        own = out['records'][1][0][2]           # number of events of client 1 when its add returned
        for m in range(0, upto, st * step):
            cs.append(dict(case, schedule=[1] * own + [0] * m + [1] + [0] * 70))
    return cs


def avg_file_gen(ctx, n):
    """random programs and schedules (avg_gen) on the value-file configuration, from a generator of their own"""
    import random
    rng = random.Random(ctx.seed * 7919 + 41)
    return [avg_gen(rng, config='files') for _ in range(n)]


def avg_enum(L):
    progs = [[['add', 1], ['add', 2], 'get'], [['add', 4], 'pop', ['add', 8]]]
    for bits in itertools.product([0, 1], repeat=L):
        yield {'check': 'averager', 'variant': 'own', 'shards': 1, 'progs': progs, 'schedule': list(bits)}


def avg_run(ctx, res, cases, hist, correspond=True):
    checks, info = [], []
    overflows = 0
    for case in cases:
        if overflows >= 2:
            res.extra['stopped_after_overflows'] = overflows
            break
        d = ctx.scratch('c20a')
        try:
            out = avg_execute(case, d)
        finally:
            shutil.rmtree(d, ignore_errors=True)
        overflows += 1 if out['overflow'] else 0
        n = len(case['progs'])
        hist['avg_contenders'][n] = hist['avg_contenders'].get(n, 0) + 1
        hist['avg_variant'][case['variant']] = hist['avg_variant'].get(case['variant'], 0) + 1
        for hk, ck, dflt in (('avg_config', 'config', 'default'), ('avg_values', 'values', 'pow2')):
            hist[hk][case.get(ck, dflt)] = hist[hk].get(case.get(ck, dflt), 0) + 1
        for sig, desc in avg_monitor(case, out):
            if case.get('config') == 'files':
                sig += ':value-files'
            res.violations.append(fw.Violation(sig, desc, case))
        nadds = sum(1 for p in case['progs'] for op in p if op not in ('get', 'pop'))
        res.count(case, nontrivial=nadds >= 2)
        if out['overflow'] or any(out['errors']):
            continue
        contended = sum(1 for (c, w, dd) in out['log'] if w == 'sql:BEGIN') > sum(1 for (c, w, dd) in out['log'] if w in ('sql:COMMIT', 'sql:ROLLBACK'))
        hist['avg_contention'] += 1 if contended else 0
        calls = [c for c in avg_calls(case, out) if c['op'] in ('get', 'pop')]
        hist['avg_reports_checked'] += len(calls) + 1
        hist['avg_reports_zero_mean'] += sum(1 for c in calls if c['res'] == 0)
        if case.get('config', 'default') != 'default':
            per = base.client_events(out['log'], n)
            for cid in range(n):
                for op, e0, e1, r_ in out['records'][cid]:
                    if op == 'get' and sum(1 for e in per[cid][e0:e1] if e[1] == 'sql:BEGIN') > 1:
                        hist['avg_lookups_that_waited_for_the_lock'] += 1
        if not correspond:
            continue
        if not all(isinstance(op[1], int) for p in case['progs'] for op in p if op not in ('get', 'pop')):
            hist['avg_not_in_model'] += 1          # the model's totals are integers: binary fractions are monitor-only
            continue
        try:
            steps = avg_steps(out, n, case.get('config', 'default'))
            checks.append(avg_check(case, out, steps))
        except base.Shape as e:
            add_dis(res, fw.Violation('event-shape', 'scheduler log does not have the modelled shape: %s' % e, case, 'correspondence'))
            continue
        b = len(steps)
        hist['avg_atomic_steps'][b] = hist['avg_atomic_steps'].get(b, 0) + 1
        info.append((case, [(c, k, r) for _, c, k, r in steps], out['final']))
    if correspond and checks:
        bad, errors = fw.coq_mismatches('c20a', IMPORTS, '', checks, chunk=250)
        res.traces_validated += len(checks) - len(bad)
        for e in errors:
            res.disagreements.append(fw.Violation('model-eval', 'model evaluation failed: ' + e[-400:], {}, 'correspondence'))
        for i in bad[:5]:
            case, steps, final = info[i]
            res.disagreements.append(fw.Violation('averager-model', 'model/Recipes.v and Averager disagree on reported means / stored value',
                                                  dict(case, impl_steps=steps, impl_final=repr(final)), 'correspondence'))
        for case, steps, final in info[:200]:
            if len(steps) >= 6 and len([s for s in res.samples if s.get('what') == 'averager']) < 2:
                res.sample({'what': 'averager', 'case': case, 'atomic_steps_of_implementation': steps, 'final_stored': repr(final)})


# ---------------------------------------------------------------------------
# throttle


THROTTLED_MODULE = 'c20_throttled_functions'


def thr_define(desc, body):
    """A real function object for the descriptor {'scope': ['top'] | ['class', C] | ['nested', outer], 'name': f}: a module-level
    function f, a static method C.f, or a function f defined inside outer() -- all in ONE module, so that only the qualified name tells
    C1.f from C2.f; `body` is what it does when called."""
    scope, name = desc['scope'], desc['name']
    if scope[0] == 'top':
        src = 'def %s():\n    return BODY()\nF = %s\n' % (name, name)
    elif scope[0] == 'class':
        src = 'class %s:\n    @staticmethod\n    def %s():\n        return BODY()\nF = %s.%s\n' % (scope[1], name, scope[1], name)
    elif scope[0] == 'nested':
        src = 'def %s():\n    def %s():\n        return BODY()\n    return %s\nF = %s()\n' % (scope[1], name, name, scope[1])
    else:
        raise ValueError(scope)
    ns = {'__name__': THROTTLED_MODULE, 'BODY': body}
    exec(compile(src, '<%s>' % THROTTLED_MODULE, 'exec'), ns)       # noqa: S102 (source text written above)
    return ns['F']


def thr_label(desc):
    return '.'.join(([] if desc['scope'][0] == 'top' else [desc['scope'][1]] + (['<locals>'] if desc['scope'][0] == 'nested' else [])) + [desc['name']])


def thr_execute(case, d, max_steps=20000):
    """case['funcs'] (optional): several throttled functions on ONE cache, each with its own (count, seconds), decorated WITHOUT name=
    (the bucket key is derived from the function); caller i calls function case['who'][i].  Otherwise one function, name=KEY."""
    gaps = case['gaps']
    descs = case.get('funcs')
    count, seconds = (case['count'], case['seconds']) if descs is None else (None, None)
    n = len(gaps)
    t0 = 1000.0
    clock = instr.Clock(t0)
    out = {}
    with instr.Installed(clock):
        caches = base.make_caches(case['variant'], n, d, case.get('shards', 1))
        s = sched.Scheduler(clock, max_steps=max_steps, sleep_advances=False)
        attempts = []                 # [cid, now] in the order of the transact blocks
        outcomes = [[] for _ in range(n)]
        starts = []
        frozen = [0]
        running = [False]

        def vsleep(dl):
            wake = clock.now + dl
            clock.sleep(dl)
            while frozen[0] > 0 and clock.now < wake:
                clock.sleep(0)
            if clock.now < wake:
                clock.now = wake

        funcs = []
        for i in range(n):
            def mk(i):
                def time_func():
                    if running[0]:
                        attempts.append([i, clock.now])
                        frozen[0] += 1
                    return clock.now

                def sleep_func(dl):
                    outcomes[i].append(('sleep', dl))
                    frozen[0] -= 1
                    vsleep(dl)

                def body():
                    outcomes[i].append(('start', clock.now))
                    starts.append((i, clock.now))
                    frozen[0] -= 1
                    return 'ran'
                if descs is not None:
                    desc = descs[case['who'][i]]
                    return diskcache.throttle(caches[i], desc['count'], desc['seconds'], time_func=time_func, sleep_func=sleep_func)(thr_define(desc, body))

                @diskcache.throttle(caches[i], count, seconds, name=KEY, time_func=time_func, sleep_func=sleep_func)
                def f():
                    return body()
                return f
            funcs.append(mk(i))
        running[0] = True

        def prog(i):
            def p():
                rs = []
                for g in gaps[i]:
                    if g:
                        vsleep(g)
                    rs.append(funcs[i]())
                return rs
            return p
        r = s.run([prog(i) for i in range(n)], case['schedule'], warmups=[base.warm(c) for c in caches])
        out.update(overflow=r['overflow'], errors=[None if e is None else repr(e) for e in r['errors']],
                   results=r['results'], attempts=attempts, outcomes=outcomes, starts=starts, t0=t0,
                   final=caches[0].get(KEY), steps=r['steps'])
        for c in {id(c): c for c in caches}.values():
            c.close()
    return out


def thr_monitor(case, out):
    if case.get('funcs') is not None:
        return thr_multi_monitor(case, out)
    bad = []
    count, seconds, gaps = case['count'], case['seconds'], case['gaps']
    if out['overflow']:
        return [('no-progress', 'throttled callers did not finish: a call was never let through')], None
    for i, e in enumerate(out['errors']):
        if e is not None:
            bad.append(('client-error', 'caller %d raised %s' % (i, e)))
    if bad:
        return bad, None
    rate = Fraction(count) / Fraction(seconds)
    ts = sorted(Fraction(t) for _, t in out['starts'])
    slack = None
    for i in range(len(ts)):
        for j in range(i, len(ts)):
            sl = Fraction(count) + rate * (ts[j] - ts[i]) - (j - i + 1)
            if slack is None or sl < slack:
                slack = sl
            if sl < 0 and not bad:
                bad.append(('rate-exceeded', '%d starts within %s s (from t=%s) exceed count + rate*W = %s (count=%d, seconds=%s)' % (
                    j - i + 1, float(ts[j] - ts[i]), float(ts[i] - Fraction(out['t0'])), float(Fraction(count) + rate * (ts[j] - ts[i])), count, seconds)))
    for i in range(len(gaps)):
        nst = sum(1 for c, _ in out['starts'] if c == i)
        if nst != len(gaps[i]) or out['results'][i] != ['ran'] * len(gaps[i]):
            bad.append(('call-lost', 'caller %d made %d calls, the function started %d times' % (i, len(gaps[i]), nst)))
    if len(gaps) == 1:
        run = 0
        for kind, v in out['outcomes'][0]:
            run = run + 1 if kind == 'sleep' else 0
            if run > 1:
                bad.append(('lone-caller-slept-twice', 'a lone caller slept twice before being let through'))
                break
    return bad, slack


def thr_multi_monitor(case, out):
    """several throttled functions on one cache: the starts of EACH function, over all its callers, obey that function's own
    count + rate*W; every call starts exactly once"""
    bad = []
    descs, who, gaps = case['funcs'], case['who'], case['gaps']
    if out['overflow']:
        return [('no-progress', 'throttled callers did not finish: a call was never let through')], None
    for i, e in enumerate(out['errors']):
        if e is not None:
            bad.append(('client-error', 'caller %d raised %s' % (i, e)))
    if bad:
        return bad, None
    slack = None
    for fi, desc in enumerate(descs):
        count = desc['count']
        rate = Fraction(count) / Fraction(desc['seconds'])
        ts = sorted(Fraction(t) for c, t in out['starts'] if who[c] == fi)
        found = False
        for i in range(len(ts)):
            for j in range(i, len(ts)):
                sl = Fraction(count) + rate * (ts[j] - ts[i]) - (j - i + 1)
                if slack is None or sl < slack:
                    slack = sl
                if sl < 0 and not found:
                    found = True
                    others = ['%s at %d per %s s' % (thr_label(o), o['count'], o['seconds']) for k, o in enumerate(descs) if k != fi]
                    bad.append(('rate-exceeded:several-functions', '%s is throttled at %d per %s s; %d of its starts within %s s (from t=%s) exceed count + rate*W = %s; the same '
                                'cache also throttles %s (callers -> function: %r; starts (caller, t): %r)' % (
                                    thr_label(desc), count, desc['seconds'], j - i + 1, float(ts[j] - ts[i]), float(ts[i] - Fraction(out['t0'])),
                                    float(Fraction(count) + rate * (ts[j] - ts[i])), ', '.join(others), who, [(c, t - out['t0']) for c, t in out['starts']][:24])))
    for i in range(len(gaps)):
        nst = sum(1 for c, _ in out['starts'] if c == i)
        if nst != len(gaps[i]) or out['results'][i] != ['ran'] * len(gaps[i]):
            bad.append(('call-lost:several-functions', 'caller %d made %d calls of %s, the function started %d times' % (i, len(gaps[i]), thr_label(descs[who[i]]), nst)))
    return bad, slack


SAME_NAME_SCOPES = [[['class', 'Billing'], ['class', 'Search'], ['class', 'Audit']], [['nested', 'make_reader'], ['nested', 'make_writer'], ['nested', 'make_probe']],
                    [['class', 'Billing'], ['top'], ['nested', 'make_reader']]]


def thr_multi_case(scopes, names, rates, who, gaps, variant='shared', shards=1, schedule=()):
    funcs = [{'scope': sc, 'name': nm, 'count': c, 'seconds': sec} for sc, nm, (c, sec) in zip(scopes, names, rates)]
    return {'check': 'throttle', 'family': 'several-functions', 'funcs': funcs, 'who': list(who), 'gaps': [list(g) for g in gaps],
            'variant': variant, 'shards': shards, 'schedule': list(schedule)}


def thr_multi_special():
    """directed: a strict and a generous function (and a third, in between) on one cache -- same bare name in different classes /
    enclosing functions / one of them at module level, and different names as a control; the generous one is called steadily, the
    strict one in bursts and right after the generous one"""
    cs = []
    strict, generous, medium = (1, 8.0), (4, 1.0), (2, 2.0)
    for k, scopes in enumerate(SAME_NAME_SCOPES):
        for names in (['fetch'] * 3, ['fetch', 'lookup', 'probe']):
            for variant, shards in (('shared', 1), ('own', 1), ('fanout', 3)):
                if (k + shards + len(set(names))) % 2 and variant != 'shared':
                    continue
                # caller 0: the strict function, a burst of three; caller 1: the generous one, every half second
                cs.append(thr_multi_case(scopes[:2], names[:2], [strict, generous], [0, 1], [[0, 0, 0], [0.5] * 6], variant, shards))
                # the other order of decoration (the strict one decorated last)
                cs.append(thr_multi_case(scopes[:2], names[:2], [generous, strict], [0, 1], [[0.5] * 6, [0, 0, 0]], variant, shards))
                # one caller alternating is two callers in lock step: strict right after each generous call
                cs.append(thr_multi_case(scopes[:2], names[:2], [strict, generous], [0, 1], [[0.5, 0.5, 0.5, 0.5], [0.5, 0.5, 0.5, 0.5]], variant, shards,
                                         schedule=[1] * 12 + [0] * 12))
                # three functions, three callers (and a fourth caller sharing the strict one)
                cs.append(thr_multi_case(scopes, names, [strict, generous, medium], [0, 1, 2, 0], [[0, 0], [0.25] * 8, [0, 1, 0, 1], [0.5, 0.5]], variant, shards))
    return cs


def thr_multi_gen(ctx, n):
    import random
    rng = random.Random(ctx.seed * 7919 + 43)
    cs = []
    for _ in range(n):
        k = rng.choice([2, 2, 3])
        scopes = rng.choice(SAME_NAME_SCOPES)[:]
        rng.shuffle(scopes)
        names = ['fetch'] * k if rng.random() < 0.7 else rng.sample(['fetch', 'lookup', 'probe', 'run'], k)
        rates = []
        for j in range(k):
            count = rng.choice([1, 1, 2, 3, 4])
            rates.append((count, count * 2.0 ** rng.choice([-2, -1, 0, 1, 2, 3])))
        ncallers = rng.choice([k, k, k + 1])
        who = list(range(k)) + [rng.randrange(k) for _ in range(ncallers - k)]
        gaps = [[rng.choice([0, 0, 0, 0.125, 0.25, 0.5, 0.5, 1, 2, 4]) for _ in range(rng.choice([2, 3, 4, 6]))] for _ in who]
        variant = rng.choice(['own', 'shared', 'shared', 'fanout'])
        L = rng.choice([0, 10, 40])
        schedule = []
        while len(schedule) < L:
            schedule += [rng.randrange(ncallers)] * rng.choice([1, 2, 4, 8])
        cs.append(thr_multi_case(scopes[:k], names, rates, who, gaps, variant, rng.choice([1, 3]) if variant == 'fanout' else 1, schedule[:L]))
    return cs


def q(x):
    p, d = float(x).as_integer_ratio()
    return '(Qmake %s %d%%positive)' % (fw.cz(p), d)


def thr_check(case, out):
    n = len(case['gaps'])
    pos = [0] * n
    att, want = [], []
    for cid, now in out['attempts']:
        if pos[cid] >= len(out['outcomes'][cid]):
            raise base.Shape('attempt without outcome')
        kind, v = out['outcomes'][cid][pos[cid]]
        pos[cid] += 1
        att.append('(%d%%nat, %s)' % (cid, q(now)))
        want.append('(%d%%nat, %s %s)' % (cid, 'TStart' if kind == 'start' else 'TSleep', q(v)))
    last, tally = out['final']
    return 'check_throttle %s %s %s %s %s (%s, %s)' % (q(case['count']), q(case['seconds']), q(out['t0']),
                                                       fw.clist(att), fw.clist(want), q(last), q(tally))


def thr_gen(rng, n=None):
    n = n or rng.choice([1, 2, 2, 3])
    count = rng.choice([1, 2, 2, 3, 4, 5])
    k = rng.choice([-2, -1, 0, 0, 1, 2])
    seconds = count * 2.0 ** k
    variant = rng.choice(['own', 'own', 'shared', 'fanout'])
    shards = rng.choice([1, 3]) if variant.startswith('fanout') else 1
    gaps = []
    for i in range(n):
        gaps.append([rng.choice([0, 0, 0, 0.125, 0.25, 0.5, 1, 2, 4]) for _ in range(rng.choice([1, 2, 3, 4, 6]))])
    L = rng.choice([0, 10, 40])
    schedule = []
    while len(schedule) < L:
        schedule += [rng.randrange(n)] * rng.choice([1, 2, 4, 8])
    return {'check': 'throttle', 'count': count, 'seconds': seconds, 'variant': variant, 'shards': shards,
            'gaps': gaps, 'schedule': schedule[:L]}


# arrivals at and just around the instant the next token falls due.  Every clock reading is an integer number of ticks of
# 2^-30 s (a binary nanosecond, 0.93 ns) below 2^11 s, and rate is a power of two, so every binary64 operation of the
# implementation (elapsed*rate, tally, (1 - tally)/rate, now + delay) is exact and the window bound is decided exactly on the
# rationals the floats denote (`thr_monitor`; `on_tick_grid` re-checks the grid claim on every run).
TICK = 2.0 ** -30
EPS = [0.0, 2.0 ** -30, 2.0 ** -21, 2.0 ** -20, 2.0 ** -20 + 2.0 ** -24, 2.0 ** -19, 2.0 ** -10]    # 0, ~1 ns, ~0.5 us, ~0.95 us, ~1.01 us, ~1.9 us, ~1 ms


def on_tick_grid(out):
    ts = [t for _, t in out['starts']] + [t for _, t in out['attempts']] + [v for o in out['outcomes'] for k, v in o]
    return all((t / TICK) == int(t / TICK) for t in ts)


def thr_boundary():
    """directed: the bucket is drained by a burst of `count` calls at one instant, so the next token falls due exactly one
    period P = seconds/count later; callers then arrive at due - eps"""
    cs = []
    for count, seconds in ((1, 1.0), (2, 1.0), (2, 4.0), (4, 1.0)):
        P = seconds / count
        for eps in EPS:
            base_ = {'check': 'throttle', 'count': count, 'seconds': seconds, 'variant': 'own', 'shards': 1, 'schedule': [], 'family': 'boundary'}
            # a lone caller arriving at due - eps, followed at once by two more calls
            cs.append(dict(base_, gaps=[[0] * count + [P - eps, 0, 0]]))
            # the same arrival, then calls just after the token was taken and just before the following one is due
            cs.append(dict(base_, gaps=[[0] * count + [P - eps, eps, P - eps, P - eps]]))
            # several callers arriving at that same instant while the first one drained the bucket
            cs.append(dict(base_, gaps=[[0] * count, [P - eps, 0], [P - eps, P - eps]]))
    return cs


def thr_gen_fine(rng):
    """random arrival patterns whose gaps are whole periods plus or minus a small eps, zero (bursts) or eps itself"""
    n = rng.choice([1, 2, 2, 3])
    count = rng.choice([1, 2, 2, 3, 4])
    k = rng.choice([-2, -1, 0, 0, 1, 2])
    seconds = count * 2.0 ** k
    P = 2.0 ** k
    variant = rng.choice(['own', 'own', 'shared', 'fanout'])
    shards = rng.choice([1, 3]) if variant.startswith('fanout') else 1

    def gap():
        r = rng.random()
        eps = rng.choice(EPS)
        if r < 0.3:
            return 0
        if r < 0.65:
            return rng.choice([1, 1, 2, count, count + 1]) * P - eps
        if r < 0.8:
            return rng.choice([1, 2]) * P + eps
        if r < 0.9:
            return eps
        return rng.choice([0.5, 0.25]) * P
    gaps = [[gap() for _ in range(rng.choice([2, 3, 4, 6]))] for i in range(n)]
    if rng.random() < 0.6:
        gaps[0] = [0] * count + gaps[0]         # drain first, so that later arrivals are measured from a known due time
    L = rng.choice([0, 10, 40])
    schedule = []
    while len(schedule) < L:
        schedule += [rng.randrange(n)] * rng.choice([1, 2, 4, 8])
    return {'check': 'throttle', 'count': count, 'seconds': seconds, 'variant': variant, 'shards': shards,
            'gaps': gaps, 'schedule': schedule[:L], 'family': 'boundary'}


def thr_run(ctx, res, cases, hist, correspond=True):
    checks, info = [], []
    overflows = 0
    for case in cases:
        if overflows >= 2:
            res.extra['stopped_after_overflows'] = overflows
            break
        d = ctx.scratch('c20t')
        try:
            out = thr_execute(case, d)
        finally:
            shutil.rmtree(d, ignore_errors=True)
        overflows += 1 if out['overflow'] else 0
        bad, slack = thr_monitor(case, out)
        for sig, desc in bad:
            if case.get('family') == 'boundary':
                sig += ':token-boundary-arrivals'
            res.violations.append(fw.Violation(sig, desc, case))
        n = len(case['gaps'])
        multi = case.get('funcs') is not None
        if multi:
            hist['thr_several_functions'] = hist.get('thr_several_functions', 0) + 1
        hist['thr_callers'][n] = hist['thr_callers'].get(n, 0) + 1
        if case.get('family') == 'boundary':
            hist['thr_boundary_cases'] = hist.get('thr_boundary_cases', 0) + 1
            small = [v for o in out['outcomes'] for k_, v in o if k_ == 'sleep' and 0 < v <= 2.0 ** -9]
            hist['thr_sleeps_shorter_than_2ms'] = hist.get('thr_sleeps_shorter_than_2ms', 0) + len(small)
            if not out['overflow'] and not any(out['errors']) and not on_tick_grid(out):
                hist['thr_off_grid'] = hist.get('thr_off_grid', 0) + 1
        ncalls = sum(len(g) for g in case['gaps'])
        res.count(case, nontrivial=ncalls > (min(f['count'] for f in case['funcs']) if multi else case['count']))
        if slack is not None:
            hist['thr_min_slack'] = slack if hist['thr_min_slack'] is None else min(hist['thr_min_slack'], slack)
            if slack == 0:
                hist['thr_tight_windows'] += 1
        if out['overflow'] or any(out['errors']):
            continue
        nsleeps = sum(1 for o in out['outcomes'] for kind, v in o if kind == 'sleep')
        hist['thr_runs_with_sleep'] += 1 if nsleeps else 0
        hist['thr_attempts'] += len(out['attempts'])
        if correspond and not multi:            # (the model has one bucket: runs with several functions are decided by the monitors)
            try:
                checks.append(thr_check(case, out))
                info.append((case, out))
            except base.Shape as e:
                add_dis(res, fw.Violation('event-shape', str(e), case, 'correspondence'))
    if correspond and checks:
        bad, errors = fw.coq_mismatches('c20t', IMPORTS, 'From Coq Require Import QArith.\nOpen Scope Z_scope.\n', checks, chunk=150)
        res.traces_validated += len(checks) - len(bad)
        for e in errors:
            res.disagreements.append(fw.Violation('model-eval', 'model evaluation failed: ' + e[-400:], {}, 'correspondence'))
        for i in bad[:5]:
            case, out = info[i]
            res.disagreements.append(fw.Violation('throttle-model', 'model/Recipes.v and throttle disagree on start/sleep outcomes or the stored (last, tally)',
                                                  dict(case, impl_attempts=out['attempts'], impl_outcomes=out['outcomes'], impl_final=repr(out['final'])), 'correspondence'))
        for case, out in info:
            if any(k == 'sleep' for o in out['outcomes'] for k, v in o) and len([s for s in res.samples if s.get('what') == 'throttle']) < 2:
                res.sample({'what': 'throttle', 'case': case, 'attempts_(caller,clock)': out['attempts'], 'outcomes_per_caller': out['outcomes'],
                            'final_(last,tally)': repr(out['final'])})


def thr_special():
    cs = []
    for count, seconds in ((1, 1.0), (2, 1.0), (2, 0.5), (3, 6.0), (4, 1.0), (5, 2.5)):
        for n in (1, 2, 3):
            cs.append({'check': 'throttle', 'count': count, 'seconds': seconds, 'variant': 'own', 'shards': 1,
                       'gaps': [[0] * (count + 2) for _ in range(n)], 'schedule': []})
    return cs


# ---------------------------------------------------------------------------


def base_hist():
    return {'avg_contenders': {}, 'avg_variant': {}, 'avg_atomic_steps': {}, 'avg_contention': 0, 'avg_config': {}, 'avg_values': {},
            'avg_reports_checked': 0, 'avg_reports_zero_mean': 0, 'avg_lookups_that_waited_for_the_lock': 0, 'avg_not_in_model': 0,
            'thr_callers': {}, 'thr_min_slack': None, 'thr_tight_windows': 0, 'thr_runs_with_sleep': 0, 'thr_attempts': 0}


def finish(res, hist):
    res.extra['histogram_averager_clients'] = hist['avg_contenders']
    res.extra['histogram_averager_variant'] = hist['avg_variant']
    res.extra['histogram_averager_atomic_steps'] = {str(k): v for k, v in sorted(hist['avg_atomic_steps'].items())}
    res.extra['averager_runs_with_a_blocked_BEGIN'] = hist['avg_contention']
    res.extra['histogram_averager_configuration'] = hist['avg_config']
    res.extra['histogram_averager_value_class'] = hist['avg_values']
    res.extra['averager_reports_checked'] = hist['avg_reports_checked']
    res.extra['averager_reports_of_a_zero_mean'] = hist['avg_reports_zero_mean']
    res.extra['averager_lookups_that_waited_for_the_write_lock'] = hist['avg_lookups_that_waited_for_the_lock']
    res.extra['averager_runs_monitor_only_(binary_fractions)'] = hist['avg_not_in_model']
    res.extra['histogram_throttle_callers'] = hist['thr_callers']
    res.extra['throttle_min_slack_observed'] = None if hist['thr_min_slack'] is None else float(hist['thr_min_slack'])
    res.extra['throttle_runs_with_a_tight_window'] = hist['thr_tight_windows']
    res.extra['throttle_runs_with_a_sleep'] = hist['thr_runs_with_sleep']
    res.extra['throttle_attempts_compared'] = hist['thr_attempts']
    res.extra['throttle_boundary_arrival_cases'] = hist.get('thr_boundary_cases', 0)
    res.extra['throttle_cases_with_several_functions_on_one_cache'] = hist.get('thr_several_functions', 0)
    res.extra['throttle_sleeps_shorter_than_2ms'] = hist.get('thr_sleeps_shorter_than_2ms', 0)
    res.extra['throttle_boundary_cases_off_the_tick_grid'] = hist.get('thr_off_grid', 0)


def run(ctx):
    res = fw.Result()
    res.rule = ('Averager: programs of add/get/pop for 2-3 threads (own Cache objects, shared Cache, FanoutCache 1/3 shards) on the configurations default, '
                'statistics=True, least-recently-used, least-frequently-used (lookups need the write lock on the last three), values distinct +-2^i, or small '
                'integers with zeros and cancelling values (x then -x; minus the sum so far), or the same over binary fractions (monitor-only); '
                'ALL event-level schedules of a fixed length over two clients plus random bursty schedules, then round-robin; directed contention: three adds '
                'against two lookups, the first lookup called after m events of the adder for every (quick: every third) m, on the three lock-taking '
                'configurations x {own, shared, FanoutCache 1 shard, FanoutCache 3 shards shared/own}; sequential histories of a lone client (a get after '
                'nearly every add) over series that start with zeros, cancel in two and in three steps, before and after a pop; value files '
                '(disk_min_file_size=0, the stored pair is a file that every add replaces): a client adds, then looks the mean up while another client adds twice, '
                'the row read of the lock-free lookup placed after m events of the adder for every (quick: every second) m, on {own, shared, FanoutCache 1 shard, '
                'FanoutCache 3 shards shared/own}, plus random programs and schedules on that configuration; non-trivial = '
                'at least two adds.  throttle: counts 1-5, periods count*2^k (k=-2..2), 1-3 callers with random arrival gaps from '
                '{0, 1/8, 1/4, 1/2, 1, 2, 4} s under a virtual clock and random schedules, plus simultaneous bursts of count+2 calls; '
                'arrivals at and around token boundaries on a clock of integer ticks of 2^-30 s: the bucket drained by a burst, then 1-3 callers '
                'arriving at (next token due) - eps for eps in {0, 2^-30, 2^-21, 2^-20, 2^-20+2^-24, 2^-19, 2^-10} s (0, ~1 ns, ~0.5 us, ~0.95 us, '
                '~1.01 us, ~1.9 us, ~1 ms), followed by immediate calls, by calls eps after the token was taken and by several callers at the same '
                'instant, plus random patterns with gaps m*period +- eps, 0 and eps; the window bound count + rate*W is decided on exact rationals; '
                'several functions on one cache (monitors only): 2-3 functions throttled without name= at different rates (directed: 1 per 8 s, 4 per 1 s, 2 per 2 s; random: '
                'counts 1-4, periods count*2^k, k=-2..3) whose qualified names differ only in the class / enclosing function / module level (same bare name) or whose '
                'names differ, 2-4 callers (own / shared Cache, FanoutCache) calling them in bursts, steadily and alternately: each function\'s starts obey its own bound.  '
                'non-trivial = more calls than count.  distinct = distinct case description.')
    hist = base_hist()
    rng = ctx.rng
    L = 8 if ctx.quick else 11
    acases = list(avg_enum(L)) + [avg_gen(rng) for _ in range(200 if ctx.quick else 2000)]
    acases += avg_seq_special() + [avg_seq_gen(rng) for _ in range(40 if ctx.quick else 600)] + avg_contention(3 if ctx.quick else 1)
    acases += avg_file_overlap(ctx, 2 if ctx.quick else 1) + avg_file_gen(ctx, 60 if ctx.quick else 600)
    avg_run(ctx, res, acases, hist)
    tcases = thr_special() + [thr_gen(rng) for _ in range(250 if ctx.quick else 2500)]
    tcases += thr_boundary() + [thr_gen_fine(rng) for _ in range(60 if ctx.quick else 1200)]
    tcases += thr_multi_special() + thr_multi_gen(ctx, 60 if ctx.quick else 900)
    thr_run(ctx, res, tcases, hist)
    res.extra['exhaustive'] = False
    res.extra['enumerated_schedule_length'] = L
    finish(res, hist)
    return res


def search(ctx, broken):
    res = fw.Result()
    hist = base_hist()
    avg_run(ctx, res, avg_seq_special() + avg_contention(2) + avg_file_overlap(ctx, 1) + list(avg_enum(9)) + [avg_gen(ctx.rng) for _ in range(300)]
            + [avg_seq_gen(ctx.rng) for _ in range(100)] + avg_file_gen(ctx, 150), hist, correspond=False)
    thr_run(ctx, res, thr_special() + thr_boundary() + [thr_gen(ctx.rng) for _ in range(400)] + [thr_gen_fine(ctx.rng) for _ in range(300)]
            + thr_multi_special() + thr_multi_gen(ctx, 200), hist, correspond=False)
    return res


def replay(payload):
    case = payload.get('case', {})
    d = tempfile.mkdtemp(prefix='c20r-')
    try:
        if case.get('check') == 'averager':
            out = avg_execute(case, d)
            bad = avg_monitor(case, out)
            print('results:', [[(op, res) for op, e0, e1, res in rec] for rec in out['records'] if rec], 'final pop:', out['final_pop'])
        elif case.get('check') == 'throttle':
            out = thr_execute(case, d)
            bad, slack = thr_monitor(case, out)
            print('starts (caller, time-t0):', [(c, t - out['t0']) for c, t in out['starts']], 'slack:', None if slack is None else float(slack))
        else:
            print('replay payload:', payload)
            return True
        for sig, desc in bad:
            print('MONITOR %s: %s' % (sig, desc))
        return not bad
    finally:
        shutil.rmtree(d, ignore_errors=True)
