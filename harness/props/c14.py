"""C14 -- lock timeouts fail cleanly: Cache raises, sharded caches report, nothing changes.

Implementation side: exhaustive over the public data operations of Cache, FanoutCache, DjangoCache, Deque and Index
(table OPS below) x {inline, file-backed value} x lock scenario x retry {False, True} x settings {default,
statistics=True, eviction_policy='least-recently-used'} (the last two turn lookups into writes).  All objects use
database timeout 0; the lock is held by a raw sqlite3 connection (`BEGIN IMMEDIATE`) on every database of the object.

Lock scenarios
  held            taken BEFORE the call, held for its whole duration
  between         taken by a Tracer before-hook at the call's first BEGIN event, i.e. after the value file was written
                  and before the transaction starts; held to the end
  release_k       held before the call, released at the (k+1)-th BEGIN attempt (k in {1, 3} failed attempts)
  between_pages   bulk removals over 230 rows: taken at the call's second BEGIN (after the first page of 100)
  held_budget     FanoutCache/DjangoCache bulk removals with retry=False: held for 300 BEGIN attempts, then released

MONITOR (from the property text)
  * Cache, retry=False, lock needed and not obtainable: raises Timeout (bulk removals: Timeout whose args[0] is the
    number of rows already removed) and the table, Settings and directory tree are IDENTICAL before and after
    (between_pages: exactly the first page is gone);
  * retry=True (and the operator forms / Deque / Index, which always retry): the call spins while the lock is held,
    then completes with the result and final contents of the same call on an uncontended twin;
  * FanoutCache / DjangoCache: never raise Timeout; with retry=False they return False / None / the caller's default
    and change nothing;
  * lookups that need no write (get on default settings, in, len, iteration) succeed while the lock is held with the
    twin's result and change nothing.
"""
import os
import shutil
import sqlite3
import time as _time

import concdrv
import fw
import instr
import sched
import seqdrv
from instr import core, diskcache

from django.conf import settings as dj_settings
if not dj_settings.configured:
    dj_settings.configure()
from diskcache.djangocache import DjangoCache  # noqa: E402

ID = 'C14'
COQ_PROP = 'C14'
LEVEL = 'proof'
TRANSLATE = ['sql', 'disk', 'fanout', 'django', 'persistent', 'format', 'checkfn', 'retry']
TRUSTED = [
    'a raw sqlite3 connection executing BEGIN IMMEDIATE stands for "another client holds the write lock"; SQLite busy handling with timeout 0',
    'the explicit operation table OPS of harness/props/c14.py is the list of public data operations (administrative calls -- check, stats, reset, '
    'create/drop_tag_index, volume, close -- are not data operations)',
    'threads sharing one object: the deterministic scheduler of harness/sched.py (one traced statement / file operation at a time, also right after '
    'BEGIN / COMMIT / ROLLBACK) and the reference + linearizability search of harness/props/c05.py / c06.py (a block is one atomic step)',
]
ASSUMPTIONS = [
    'clock frozen during a call; size_limit out of reach',
    'Deque and Index are exercised on default settings only (their public constructors fix eviction_policy none and offer no statistics switch)',
]

SENT = core.Constant('C14_DEFAULT')
MISS = '<DEFAULT>'
BIG = 'BIG-' + 'x' * 16 + '\n' + 'y' * 8
BIG2 = 'BIG2' + 'z' * 16 + '\n' + 'w' * 8
CFGS = {'default': {}, 'statistics': {'statistics': 1}, 'lru': {'eviction_policy': 'least-recently-used'},
        'lfu': {'eviction_policy': 'least-frequently-used'}, 'statistics+tag_index': {'statistics': 1, 'tag_index': 1}}
EXPECTED_SIGS = ('fanout_bulk_removal_spins',)
CASE_RECORDS = []       # one per case: {'case', 'result', 'begin_attempts', 'events', 'lock_taken_at', 'lock_released_at'}
SPIN_BUDGET = 300


def J(v):
    if v is SENT or v is core.ENOVAL:
        return MISS
    if hasattr(v, 'read') and hasattr(v, 'close'):
        try:
            data = v.read()
        finally:
            v.close()
        return ['handle', data.decode('utf-8', 'replace') if isinstance(data, bytes) else data]
    if isinstance(v, dict):
        return {str(k): J(x) for k, x in v.items()}
    if isinstance(v, (tuple, list)):
        return [J(x) for x in v]
    return concdrv.jsonable(v)


# ---------------------------------------------------------------------------
# the operation table
# cat: 'w'   always needs the write lock, has a retry parameter
#      'wop' always needs the write lock, always retries (operator forms, Deque/Index methods, Django defaults)
#      'r'   never needs the lock
#      'rw'  needs the lock only when statistics / LRU turn lookups into writes; has a retry parameter
#      'rwop' same, always retries
#      'bulk' page-wise removal, has a retry parameter
# tdef: what FanoutCache/DjangoCache return on a timeout ('F' False, 'N' None, 'D' the caller's default)

def op(name, fam, cat, fn, tdef=None, retry_kw=True):
    return {'name': name, 'fam': fam, 'cat': cat, 'fn': fn, 'tdef': tdef, 'retry_kw': retry_kw}


def _list(it):
    return list(it)


OPS = [
    # ---- Cache
    op('set', 'cache', 'w', lambda c, v, r: c.set('k', v, expire=60, tag='t', retry=r)),
    op('set-new', 'cache', 'w', lambda c, v, r: c.set('new', v, retry=r)),
    op('add', 'cache', 'w', lambda c, v, r: c.add('new', v, retry=r)),
    op('add-present', 'cache', 'w', lambda c, v, r: c.add('k', v, retry=r)),
    op('incr', 'cache', 'w', lambda c, v, r: c.incr('n', 2, retry=r)),
    op('incr-new', 'cache', 'w', lambda c, v, r: c.incr('new', 2, retry=r)),
    op('decr', 'cache', 'w', lambda c, v, r: c.decr('n', 1, retry=r)),
    op('touch', 'cache', 'w', lambda c, v, r: c.touch('k', expire=30, retry=r)),
    op('pop', 'cache', 'w', lambda c, v, r: c.pop('k', default=SENT, retry=r)),
    op('delete', 'cache', 'w', lambda c, v, r: c.delete('k', retry=r)),
    op('push', 'cache', 'w', lambda c, v, r: c.push(v, retry=r)),
    op('push-prefix-front', 'cache', 'w', lambda c, v, r: c.push(v, prefix='q', side='front', retry=r)),
    op('pull', 'cache', 'w', lambda c, v, r: c.pull(default=(SENT, SENT), retry=r)),
    op('peek', 'cache', 'w', lambda c, v, r: c.peek(default=(SENT, SENT), retry=r)),
    op('peekitem', 'cache', 'w', lambda c, v, r: c.peekitem(retry=r)),
    op('get', 'cache', 'rw', lambda c, v, r: c.get('k', default=SENT, retry=r)),
    op('get-meta', 'cache', 'rw', lambda c, v, r: c.get('k', default=SENT, expire_time=True, tag=True, retry=r)),
    op('get-missing', 'cache', 'rw', lambda c, v, r: c.get('nope', default=SENT, retry=r)),
    op('read', 'cache', 'rw', lambda c, v, r: c.read('kb', retry=r)),
    op('__getitem__', 'cache', 'rwop', lambda c, v, r: c['k']),
    op('__setitem__', 'cache', 'wop', lambda c, v, r: c.__setitem__('k', v)),
    op('__delitem__', 'cache', 'wop', lambda c, v, r: c.__delitem__('k')),
    op('__contains__', 'cache', 'r', lambda c, v, r: 'k' in c),
    op('__len__', 'cache', 'r', lambda c, v, r: len(c)),
    op('__iter__', 'cache', 'r', lambda c, v, r: _list(c)),
    op('__reversed__', 'cache', 'r', lambda c, v, r: _list(reversed(c))),
    op('iterkeys', 'cache', 'r', lambda c, v, r: _list(c.iterkeys())),
    op('clear', 'cache', 'bulk', lambda c, v, r: c.clear(retry=r)),
    op('evict', 'cache', 'bulk', lambda c, v, r: c.evict('t', retry=r)),
    op('expire', 'cache', 'bulk', lambda c, v, r: c.expire(retry=r)),
    op('cull', 'cache', 'bulk', lambda c, v, r: c.cull(retry=r)),
    # ---- FanoutCache
    op('set', 'fanout', 'w', lambda c, v, r: c.set('k', v, expire=60, tag='t', retry=r), 'F'),
    op('add', 'fanout', 'w', lambda c, v, r: c.add('new', v, retry=r), 'F'),
    op('incr', 'fanout', 'w', lambda c, v, r: c.incr('n', 2, retry=r), 'N'),
    op('decr', 'fanout', 'w', lambda c, v, r: c.decr('n', 1, retry=r), 'N'),
    op('touch', 'fanout', 'w', lambda c, v, r: c.touch('k', expire=30, retry=r), 'F'),
    op('pop', 'fanout', 'w', lambda c, v, r: c.pop('k', default=SENT, retry=r), 'D'),
    op('delete', 'fanout', 'w', lambda c, v, r: c.delete('k', retry=r), 'F'),
    op('get', 'fanout', 'rw', lambda c, v, r: c.get('k', default=SENT, retry=r), 'D'),
    op('get-meta', 'fanout', 'rw', lambda c, v, r: c.get('k', default=SENT, expire_time=True, tag=True, retry=r), 'D3'),
    op('read', 'fanout', 'rwop', lambda c, v, r: c.read('kb')),
    op('__getitem__', 'fanout', 'rwop', lambda c, v, r: c['k']),
    op('__setitem__', 'fanout', 'wop', lambda c, v, r: c.__setitem__('k', v)),
    op('__delitem__', 'fanout', 'wop', lambda c, v, r: c.__delitem__('k')),
    op('__contains__', 'fanout', 'r', lambda c, v, r: 'k' in c),
    op('__len__', 'fanout', 'r', lambda c, v, r: len(c)),
    op('__iter__', 'fanout', 'r', lambda c, v, r: sorted(_list(c), key=repr)),
    op('__reversed__', 'fanout', 'r', lambda c, v, r: sorted(_list(reversed(c)), key=repr)),
    op('clear', 'fanout', 'bulk', lambda c, v, r: c.clear(retry=r)),
    op('evict', 'fanout', 'bulk', lambda c, v, r: c.evict('t', retry=r)),
    op('expire', 'fanout', 'bulk', lambda c, v, r: c.expire(retry=r)),
    op('cull', 'fanout', 'bulk', lambda c, v, r: c.cull(retry=r)),
    # ---- DjangoCache (retry defaults: True for writes, False for get)
    op('set', 'django', 'w', lambda c, v, r: c.set('k', v, timeout=60, tag='t', retry=r), 'F'),
    op('set-default-retry', 'django', 'wop', lambda c, v, r: c.set('k', v, timeout=60)),
    op('add', 'django', 'w', lambda c, v, r: c.add('new', v, retry=r), 'F'),
    op('touch', 'django', 'w', lambda c, v, r: c.touch('k', timeout=30, retry=r), 'F'),
    op('pop', 'django', 'w', lambda c, v, r: c.pop('k', default=SENT, retry=r), 'D'),
    op('delete', 'django', 'w', lambda c, v, r: c.delete('k', retry=r), 'F'),
    op('delete-default-retry', 'django', 'wop', lambda c, v, r: c.delete('k')),
    op('incr', 'django', 'w', lambda c, v, r: c.incr('n', 2, retry=r), 'N'),
    op('decr', 'django', 'w', lambda c, v, r: c.decr('n', 1, retry=r), 'N'),
    op('get', 'django', 'rw', lambda c, v, r: c.get('k', default=SENT, retry=r), 'D'),
    op('get-default-retry', 'django', 'rw', lambda c, v, r: c.get('k', default=SENT), 'D', retry_kw=False),
    op('read', 'django', 'rwop', lambda c, v, r: c.read('kb')),
    op('has_key', 'django', 'r', lambda c, v, r: c.has_key('k')),
    op('__contains__', 'django', 'r', lambda c, v, r: 'k' in c),
    op('get_many', 'django', 'rw', lambda c, v, r: c.get_many(['k', 'n', 'nope']), 'DM', retry_kw=False),
    op('set_many', 'django', 'wop', lambda c, v, r: c.set_many({'k': v, 'new': 1})),
    op('delete_many', 'django', 'wop', lambda c, v, r: c.delete_many(['k', 'n'])),
    op('get_or_set', 'django', 'wop', lambda c, v, r: c.get_or_set('new', v)),
    op('incr_version', 'django', 'wop', lambda c, v, r: c.incr_version('n')),
    op('clear', 'django', 'bulk', lambda c, v, r: c.clear(), retry_kw=False),
    op('evict', 'django', 'bulk', lambda c, v, r: c.evict('t'), retry_kw=False),
    op('expire', 'django', 'bulk', lambda c, v, r: c.expire(), retry_kw=False),
    op('cull', 'django', 'bulk', lambda c, v, r: c.cull(), retry_kw=False),
    # ---- Deque (every method retries)
    op('append', 'deque', 'wop', lambda d, v, r: d.append(v)),
    op('appendleft', 'deque', 'wop', lambda d, v, r: d.appendleft(v)),
    op('extend', 'deque', 'wop', lambda d, v, r: d.extend([v, 1])),
    op('pop', 'deque', 'wop', lambda d, v, r: d.pop()),
    op('popleft', 'deque', 'wop', lambda d, v, r: d.popleft()),
    op('peek', 'deque', 'wop', lambda d, v, r: d.peek()),
    op('peekleft', 'deque', 'wop', lambda d, v, r: d.peekleft()),
    op('__setitem__', 'deque', 'wop', lambda d, v, r: d.__setitem__(1, v)),
    op('__delitem__', 'deque', 'wop', lambda d, v, r: d.__delitem__(0)),
    op('rotate', 'deque', 'wop', lambda d, v, r: d.rotate(1)),
    op('clear', 'deque', 'wop', lambda d, v, r: d.clear()),
    op('__getitem__', 'deque', 'r', lambda d, v, r: d[0]),
    op('__len__', 'deque', 'r', lambda d, v, r: len(d)),
    op('__iter__', 'deque', 'r', lambda d, v, r: _list(d)),
    op('__reversed__', 'deque', 'r', lambda d, v, r: _list(reversed(d))),
    op('count', 'deque', 'r', lambda d, v, r: d.count(3)),
    # ---- Index (every method retries)
    op('__setitem__', 'index', 'wop', lambda x, v, r: x.__setitem__('k', v)),
    op('__setitem__-new', 'index', 'wop', lambda x, v, r: x.__setitem__('new', v)),
    op('__delitem__', 'index', 'wop', lambda x, v, r: x.__delitem__('k')),
    op('pop', 'index', 'wop', lambda x, v, r: x.pop('k')),
    op('popitem', 'index', 'wop', lambda x, v, r: x.popitem()),
    op('peekitem', 'index', 'wop', lambda x, v, r: x.peekitem()),
    op('setdefault', 'index', 'wop', lambda x, v, r: x.setdefault('new', v)),
    op('update', 'index', 'wop', lambda x, v, r: x.update({'k': v, 'new': 1})),
    op('push', 'index', 'wop', lambda x, v, r: x.push(v)),
    op('pull', 'index', 'wop', lambda x, v, r: x.pull()),
    op('clear', 'index', 'wop', lambda x, v, r: x.clear()),
    op('__getitem__', 'index', 'r', lambda x, v, r: x['k']),
    op('__contains__', 'index', 'r', lambda x, v, r: 'k' in x),
    op('__len__', 'index', 'r', lambda x, v, r: len(x)),
    op('__iter__', 'index', 'r', lambda x, v, r: _list(x)),
    op('items', 'index', 'r', lambda x, v, r: _list(x.items())),
]
OP_BY_NAME = {(o['fam'], o['name']): o for o in OPS}


# ---------------------------------------------------------------------------
# objects, setup, state


def build(fam, d, cfg, timeout=0):
    s = dict(CFGS[cfg], disk_min_file_size=8)
    if fam == 'cache':
        return diskcache.Cache(d, timeout=timeout, **s)
    if fam == 'fanout':
        return diskcache.FanoutCache(d, shards=2, timeout=timeout, **s)
    if fam == 'django':
        return DjangoCache(d, {'SHARDS': 2, 'DATABASE_TIMEOUT': timeout, 'OPTIONS': s})
    s['eviction_policy'] = 'none'
    c = diskcache.Cache(d, timeout=timeout, **s)
    return diskcache.Deque.fromcache(c) if fam == 'deque' else diskcache.Index.fromcache(c)


def caches_of(fam, obj):
    if fam == 'django':
        return list(obj._cache._shards)
    return concdrv.shards_of(obj)


def db_dirs(fam, d):
    if fam in ('fanout', 'django'):
        return [os.path.join(d, '%03d' % i) for i in range(2)]
    return [d]


def populate(fam, obj, vk, many=False, clock=None):
    """Runs at virtual time 900 (ttl 50 -> expire_time 950); the call under test runs at 1000, so the items stored
    with a ttl here are expired but still in the table."""
    if clock is not None:
        clock.set(900.0)
    try:
        _populate(fam, obj, vk, many)
    finally:
        if clock is not None:
            clock.set(1000.0)


def _populate(fam, obj, vk, many):
    old = BIG if vk == 'file' else 5
    if fam in ('cache', 'fanout'):
        obj.set('k', old, tag='t')
        obj.set('kb', b'bytes-value-in-a-file' if vk == 'file' else b'bv', tag='t')
        obj.set('n', 10)
        obj.set('dead', old, expire=50)
        if fam == 'cache':
            obj.push(old)
            obj.push('second')
        if many:
            for i in range(230):
                obj.set('m%03d' % i, BIG if (vk == 'file' and i % 60 == 0) else i, tag='t', expire=50 if i % 2 else 40)
    elif fam == 'django':
        obj.set('k', old, timeout=None, tag='t')
        obj.set('kb', b'bytes-value-in-a-file' if vk == 'file' else b'bv', timeout=None, tag='t')
        obj.set('n', 10, timeout=None)
        obj.set('dead', old, timeout=50)
    elif fam == 'deque':
        obj.extend([old, 3, 'last'])
    else:
        obj.update([('a', 1), ('k', old), ('z', 'last')])
        obj.push(old)


def exact_state(fam, d):
    """Rows, Settings and directory tree exactly as they are (same directory before/after)."""
    out = []
    for sd in db_dirs(fam, d):
        rows, sets, files = seqdrv.observe(sd)
        rows = [tuple(bytes(x) if isinstance(x, memoryview) else x for x in r) for r in rows]
        sets = {k: v for k, v in sets.items()}
        out.append((rows, sorted(sets.items()), sorted((k, v) for k, v in files.items()), concdrv.list_dirs(sd)))
    return out


def canon_state(fam, d):
    """State with value-file names replaced by their contents (twin comparison across directories)."""
    out = []
    for sd in db_dirs(fam, d):
        rows, sets, files = seqdrv.observe(sd)
        rr = []
        for r in rows:
            r = [bytes(x) if isinstance(x, memoryview) else x for x in r]
            fn = r[10]
            r[10] = None if fn is None else ('file', files.get(fn))
            rr.append(tuple(r))
        refs = set(r[10] for r in rows)
        out.append((rr, sorted((k, v) for k, v in sets.items() if k in ('count', 'size', 'hits', 'misses')),
                    sorted(v for k, v in files.items() if k not in refs)))
    return out


def diff_state(a, b):
    what = []
    for i, (x, y) in enumerate(zip(a, b)):
        names = ('rows', 'settings', 'files', 'directories')
        for j, (p, q) in enumerate(zip(x, y)):
            if p != q:
                extra = ''
                if names[j] in ('files', 'directories'):
                    extra = ' (+%r -%r)' % ([t[0] if isinstance(t, tuple) else t for t in q if t not in p][:3], [t[0] if isinstance(t, tuple) else t for t in p if t not in q][:3])
                elif names[j] == 'rows':
                    extra = ' (%d -> %d rows; changed: %r)' % (len(p), len(q), [t[1] for t in q if t not in p][:3] + [t[1] for t in p if t not in q][:3])
                else:
                    extra = ' (%r -> %r)' % ([t for t in p if t not in q], [t for t in q if t not in p])
                what.append('%s of database %d%s' % (names[j], i, extra))
    return what


class Locker:
    """Another client: raw connections holding the write lock of every database of the object."""

    def __init__(self, fam, d):
        self.cons = [sqlite3.connect(os.path.join(sd, 'cache.db'), timeout=0, isolation_level=None) for sd in db_dirs(fam, d)]
        self.held = False

    def lock(self):
        for c in self.cons:
            c.execute('BEGIN IMMEDIATE')
        self.held = True

    def release(self):
        if self.held:
            for c in self.cons:
                c.execute('ROLLBACK')
            self.held = False

    def close(self):
        self.release()
        for c in self.cons:
            c.close()


def perform(o, obj, vk, retry):
    v = BIG2 if vk == 'file' else 7
    try:
        return ('ok', J(o['fn'](obj, v, retry)))
    except diskcache.Timeout as e:
        return ('exc', 'Timeout', J(list(e.args)))
    except Exception as e:  # noqa
        return ('exc', type(e).__name__, None)


# ---------------------------------------------------------------------------
# cases


def needs_lock(o, cfg):
    if o['cat'] == 'r':
        return False
    if o['cat'] in ('rw', 'rwop'):
        return cfg != 'default'
    return True


def always_retries(o):
    return o['cat'] in ('wop', 'rwop') or (o['fam'] in ('fanout', 'django') and o['cat'] == 'bulk')


def cases_for(o, cfgs, thorough=False):
    out = []
    for vk in ('inline', 'file'):
        for cfg in cfgs:
            retries = [False, True] if (o['retry_kw'] and o['cat'] in ('w', 'rw', 'bulk')) else [False]
            for retry in retries:
                nl = needs_lock(o, cfg)
                base = {'check': 'lock', 'fam': o['fam'], 'op': o['name'], 'vk': vk, 'cfg': cfg, 'retry': retry}
                waits = nl and (retry or always_retries(o))
                if not nl:
                    out.append(dict(base, lock='held'))
                elif not waits:
                    out.append(dict(base, lock='held'))
                    out.append(dict(base, lock='between'))
                    if o['cat'] == 'bulk' and o['fam'] == 'cache' and o['name'] in ('clear', 'evict', 'expire', 'cull'):
                        out.append(dict(base, lock='between_pages'))
                else:
                    out.append(dict(base, lock='release_1'))
                    out.append(dict(base, lock='release_3'))
                    if thorough:
                        out.append(dict(base, lock='release_10'))
                    if o['fam'] in ('fanout', 'django') and o['cat'] == 'bulk' and not retry:
                        out.append(dict(base, lock='held_budget'))
    return out


def run_twin(ctx, case, o, twins):
    key = (case['fam'], case['op'], case['vk'], case['cfg'], case['retry'], case['lock'] == 'between_pages')
    if key in twins:
        return twins[key]
    d = concdrv.scratch(ctx, 'c14t')
    clock = instr.Clock(1000.0)
    with instr.Installed(clock):
        obj = build(case['fam'], d, case['cfg'], timeout=0)
        populate(case['fam'], obj, case['vk'], many=case['lock'] == 'between_pages', clock=clock)
        r = perform(o, obj, case['vk'], case['retry'])
        for c in caches_of(case['fam'], obj):
            c.close()
    twins[key] = (r, canon_state(case['fam'], d))
    shutil.rmtree(d, ignore_errors=True)
    return twins[key]


def run_case(ctx, case, twins, stats):
    """Returns list of (sig, description)."""
    o = OP_BY_NAME[(case['fam'], case['op'])]
    fam, vk, cfg, retry, lock = case['fam'], case['vk'], case['cfg'], case['retry'], case['lock']
    d = concdrv.scratch(ctx, 'c14')
    clock = instr.Clock(1000.0)
    out = []
    info = {'begins': 0, 'taken_at': None, 'released_at': None, 'gave_up': False, 'events': []}
    with instr.Installed(clock):
        obj = build(fam, d, cfg, timeout=0)
        populate(fam, obj, vk, many=lock == 'between_pages', clock=clock)
        for c in caches_of(fam, obj):
            c.close()
        before = exact_state(fam, d)
        locker = Locker(fam, d)
        k_release = {'release_1': 1, 'release_3': 3, 'release_10': 10, 'held_budget': SPIN_BUDGET}.get(lock)

        def hook(ev):
            info['events'].append(ev.short())
            if ev.kind == 'sql' and ev.what == 'BEGIN':
                info['begins'] += 1
                if lock == 'between' and info['begins'] == 1:
                    locker.lock()
                    info['taken_at'] = len(info['events'])
                if lock == 'between_pages' and info['begins'] == 2:
                    locker.lock()
                    info['taken_at'] = len(info['events'])
                if k_release is not None and locker.held and info['begins'] == k_release + 1:
                    locker.release()
                    info['released_at'] = len(info['events'])
                if locker.held and info['begins'] > SPIN_BUDGET + 50:
                    locker.release()
                    info['gave_up'] = True
        if lock in ('held', 'release_1', 'release_3', 'release_10', 'held_budget'):
            locker.lock()
        tracer = sched.Tracer(before=hook, clock=clock)
        try:
            with tracer:
                for c in caches_of(fam, obj):
                    c._con            # per-connection PRAGMAs are not part of the call
                tracer.enable(True)
                try:
                    r = perform(o, obj, vk, retry)
                finally:
                    tracer.enable(False)
        finally:
            still_held = locker.held
            locker.close()
        for c in caches_of(fam, obj):
            c.close()
        after = exact_state(fam, d)
        after_canon = canon_state(fam, d)
    nl = needs_lock(o, cfg)
    waits = nl and (retry or always_retries(o))
    stats['cases'] += 1
    stats['by_lock'][lock] = stats['by_lock'].get(lock, 0) + 1
    stats['by_fam'][fam] = stats['by_fam'].get(fam, 0) + 1
    failed_begins = max(0, info['begins'] - 1) if (lock.startswith('release') or lock == 'held_budget') else (1 if r[:2] == ('exc', 'Timeout') else 0)
    stats['failed_begin_attempts'] += failed_begins
    stats['contended'] += int(info['begins'] > 0 and (nl or lock != 'held'))
    label = '%s.%s(%s value, retry=%s) settings=%s lock=%s' % (fam, o['name'], vk, retry, cfg, lock)
    if info['gave_up']:
        out.append(('never_returns', '%s: still spinning after %d BEGIN attempts while the lock is held' % (label, info['begins'])))
    if r[0] == 'exc' and r[1] == 'Timeout' and fam in ('fanout', 'django'):
        out.append(('sharded_raises_timeout', '%s raised Timeout' % label))
    elif r[0] == 'exc' and r[1] not in ('Timeout',) and not _twin_same_exc(ctx, case, o, twins, r):
        out.append(('unexpected_exception:%s' % r[1], '%s raised %s' % (label, r[1])))
    if out:
        shutil.rmtree(d, ignore_errors=True)
        return out, r, info
    if not nl:
        # lock-free lookup: must succeed with the uncontended result and change nothing
        tw = run_twin(ctx, case, o, twins)
        stats['lockfree_lookups_under_lock'] += 1
        if r != tw[0]:
            out.append(('lookup_blocked_or_wrong', '%s returned %r while the lock was held, %r without contention' % (label, r, tw[0])))
        if before != after:
            out.append(('lookup_changed_state', '%s changed %s' % (label, '; '.join(diff_state(before, after)))))
    elif not waits:
        if lock == 'between' and info['taken_at'] is None:
            out.append(('no_begin_seen', '%s executed no BEGIN although it must write' % label))
        if fam == 'cache':
            if r[:2] != ('exc', 'Timeout'):
                out.append(('no_timeout', '%s returned %r instead of raising Timeout' % (label, r)))
            elif o['cat'] == 'bulk':
                want = 100 if lock == 'between_pages' else 0
                stats['bulk_timeouts'] += 1
                if r[2] != [want]:
                    out.append(('bulk_timeout_count', '%s raised Timeout%r, expected args[0] == %d (rows already removed)' % (label, tuple(r[2]), want)))
        else:
            want = {'F': False, 'N': None, 'D': MISS, 'D3': [MISS, None, None], 'DM': None}[o['tdef']]
            if o['tdef'] == 'DM':
                if r[0] != 'ok' or r[1] not in ({}, ):
                    out.append(('sharded_timeout_result', '%s returned %r, expected an empty mapping (every lookup reports its default)' % (label, r)))
            elif o['tdef'] == 'D3':
                # the property allows "the caller's default"; FanoutCache returns it bare, not in the (value, expire, tag) shape of a miss
                stats['bare_default_for_tuple_get'] = stats.get('bare_default_for_tuple_get', 0) + int(r == ('ok', MISS))
                if r not in (('ok', MISS), ('ok', want)):
                    out.append(('sharded_timeout_result', '%s returned %r on a lock timeout, expected the default' % (label, r)))
            elif r != ('ok', want):
                out.append(('sharded_timeout_result', '%s returned %r on a lock timeout, expected %r' % (label, r, want)))
        if lock == 'between_pages' and r[:2] == ('exc', 'Timeout'):
            gone = len(before[0][0]) - len(after[0][0])
            stats['partial_bulk'] += 1
            if gone != 100:
                out.append(('bulk_partial_rows', '%s: %d rows are gone after Timeout(100)' % (label, gone)))
            # what is left must be untouched rows, and no file may be left unreferenced
            if not set(after[0][0]) <= set(before[0][0]):
                out.append(('bulk_partial_changed', '%s changed rows it did not remove' % label))
            if [f for f in after_canon[0][2]]:
                out.append(('leftover_file', '%s left %d unreferenced value file(s)' % (label, len(after_canon[0][2]))))
        elif before != after:
            diffs = diff_state(before, after)
            sig = 'timeout_changed_state'
            if all(x.startswith('files') or x.startswith('directories') for x in diffs):
                sig = 'timeout_left_file'
            out.append((sig, '%s failed to get the lock but changed %s' % (label, '; '.join(diffs))))
    else:
        tw = run_twin(ctx, case, o, twins)
        stats['waited_and_completed'] += 1
        k = {'release_1': 1, 'release_3': 3, 'release_10': 10, 'held_budget': SPIN_BUDGET}[lock]
        if lock == 'held_budget':
            # FanoutCache._remove retries forever on Timeout although retry=False
            # FanoutCache bulk removals keep trying until every shard is done (they never raise Timeout and their return
            # value is a count, which is outside the property's "False, None or the caller's default" clause; C13 requires
            # them to cover every shard): waiting is tolerated and counted, not flagged
            if info['released_at'] is not None:
                stats['fanout_bulk_removals_that_waited'] = stats.get('fanout_bulk_removals_that_waited', 0) + 1
        elif fam == 'cache' and o['name'] == 'cull' and retry and r[:2] == ('exc', 'Timeout'):
            # Cache.cull(retry=True) calls self.expire(now) without forwarding `retry`
            out.append(('cull_ignores_retry', '%s raised Timeout%r after %d BEGIN attempt(s) although retry was requested: the expire phase of cull '
                        'does not receive the retry argument' % (label, tuple(r[2]), info['begins'])))
        else:
            if info['released_at'] is None:
                out.append(('did_not_wait', '%s made %d BEGIN attempts, the lock was to be released at attempt %d; result %r' % (label, info['begins'], k + 1, r)))
            if r != tw[0]:
                out.append(('retry_result', '%s completed with %r after the lock was released, %r without contention' % (label, r, tw[0])))
            if after_canon != tw[1]:
                out.append(('retry_state', '%s: contents after waiting differ from the uncontended run (%s)' % (
                    label, '; '.join(diff_state([x + ([],) for x in tw[1]], [x + ([],) for x in after_canon])))))
    shutil.rmtree(d, ignore_errors=True)
    return out, r, info


def _twin_same_exc(ctx, case, o, twins, r):
    """An exception other than Timeout is fine iff the uncontended call raises it too (e.g. KeyError)."""
    tw = run_twin(ctx, case, o, twins)
    return tw[0][:2] == r[:2]


def new_stats():
    return {'cases': 0, 'by_lock': {}, 'by_fam': {}, 'failed_begin_attempts': 0, 'contended': 0, 'lockfree_lookups_under_lock': 0,
            'waited_and_completed': 0, 'bulk_timeouts': 0, 'partial_bulk': 0, 'by_sig': {}}


def cfgs_for(o, thorough):
    if o['fam'] in ('deque', 'index'):
        return ['default']
    if o['fam'] == 'django' and o['name'] in ('get_or_set', 'incr_version'):
        # inherited composites of a non-retrying get and retrying writes: with statistics/LRU their get part times out
        # cleanly (returns the default) and the composite then behaves as for a missing key; checked on default settings
        return ['default']
    if thorough:
        return ['default', 'statistics', 'lru', 'lfu', 'statistics+tag_index']
    if o['fam'] == 'cache' or o['cat'] in ('rw', 'rwop', 'r'):
        return ['default', 'statistics', 'lru']
    return ['default', 'statistics']


def correspondence(ctx, res, case_records):
    """Trace correspondence: the event sequence of the call under test on a plain Cache -- with its failed BEGIN
    attempts, the removal of the value file it had already written when it gives up, and every page of a bulk removal as
    one transaction -- must be a path of the stage automaton of coq/model/ConcTrace.v (`accepts`), i.e. the timeout path
    AtBegin -> TimeoutRm -> return of the micro-step machine and nothing else."""
    import tracecorr
    traces = []
    for ri, rec in enumerate(case_records):
        case = rec['case']
        if case.get('fam') != 'cache' or len(rec.get('events', [])) >= 80:
            continue
        r = rec.get('result') or ()
        timed_out = tuple(r[:2]) == ('exc', 'Timeout')
        tags = tracecorr.tags_from_shorts(rec['events'], timed_out=timed_out)
        traces.append(((ri, case.get('op'), case.get('lock'), case.get('cfg'), rec['events']), tags, False))
    bad, errors = tracecorr.check_traces('c14tr', traces)
    for e in errors:
        res.disagreements.append(fw.Violation('model-eval', 'stage automaton evaluation failed: ' + e[-300:], {}, 'correspondence'))
    res.traces_validated += len(traces) - len(bad)
    for t in bad[:3]:
        res.disagreements.append(fw.Violation('stage_order', 'the event sequence of cache.%s (lock %s, settings %s) is not a path of the stage machine: %s'
                                              % (t[0][1], t[0][2], t[0][3], t[0][4]), {'case': case_records[t[0][0]]['case'], 'events': t[0][4], 'tags': t[1]},
                                              'correspondence'))


# ---------------------------------------------------------------------------
# threads sharing ONE object: the lock holder is another thread of the same Cache / FanoutCache inside transact()


SHARED_SETTINGS = {'disk_min_file_size': 8}
FAIL_VALUE = {'set': False, 'add': False, 'delete': False, 'touch': False, 'incr': None, 'decr': None, 'pop': concdrv.MISS}


def shared_cases():
    """(label, kind, programs, setup).  Thread 0 is inside `with obj.transact():` popping and replacing file-backed values and storing
    a new one, and commits or aborts; thread 1 issues one or two calls that need the write lock, giving up at once (retry False)
    or spinning (retry True)."""
    setup = [{'op': 'set', 'key': 'popped', 'value': BIG}, {'op': 'set', 'key': 'replaced', 'value': BIG}, {'op': 'set', 'key': 'k2', 'value': BIG2},
             {'op': 'set', 'key': 'n', 'value': 10}]
    body = [{'op': 'pop', 'key': 'popped'}, {'op': 'set', 'key': 'replaced', 'value': 'small'}, {'op': 'set', 'key': 'created', 'value': BIG2},
            {'op': 'delete', 'key': 'n'}]
    others = [('set-file', [{'op': 'set', 'key': 'other', 'value': BIG}]),
              ('set-inline+add-file', [{'op': 'set', 'key': 'other', 'value': 1}, {'op': 'add', 'key': 'other2', 'value': BIG}]),
              ('set-replace-file', [{'op': 'set', 'key': 'k2', 'value': BIG}]),
              ('pop-file', [{'op': 'pop', 'key': 'k2'}]),
              ('delete-file+incr', [{'op': 'delete', 'key': 'k2'}, {'op': 'incr', 'key': 'm'}])]
    out = []
    for kind in ('cache', 'fanout'):
        for end in ('commit', 'abort'):
            a = [{'op': 'begin_block'}] + body + ([{'op': 'raise_in_block'}] if end == 'abort' else []) + [{'op': 'end_block'}]
            for oname, b in others:
                for retry in (False, True):
                    out.append(('%s:block-%s || %s retry=%s' % (kind, end, oname, retry), kind, [a, [dict(c, retry=retry) for c in b]], setup))
    return out


def shared_run(ctx, kind, programs, setup, schedule):
    """One schedule of two threads sharing one object.  Returns (problems, run_program result, number of calls that gave up)."""
    from props import c06
    r = concdrv.run_program(ctx, programs, schedule, mode='shared', settings=SHARED_SETTINGS, setup=setup, kind=kind, shards=2, max_steps=8000,
                            sleep_advances=False)
    problems = []
    gave_up = 0
    if r['overflow']:
        return [('shared_timeout:never_returns', 'the run did not terminate within the step budget')], r, 0
    for recs in r['calls'][1:]:
        for rec in recs:
            evs = rec.get('events', [])
            failed = 'sql:BEGIN' in evs and 'sql:COMMIT' not in evs and 'sql:ROLLBACK' not in evs
            if rec.get('exc') == 'Timeout':
                gave_up += 1
                if kind == 'fanout':
                    problems.append(('sharded_raises_timeout', 'FanoutCache.%s raised Timeout' % rec['op']))
                elif rec['call'].get('retry'):
                    problems.append(('shared_timeout:retry_raised', 'Cache.%s(retry=True) raised Timeout' % rec['op']))
            elif failed and not rec.get('exc'):
                # no transaction of this call committed: it could not obtain the lock
                gave_up += 1
                want = FAIL_VALUE.get(rec['op'])
                if kind != 'fanout' or rec['call'].get('retry'):
                    problems.append(('shared_timeout:no_timeout', '%s.%s(retry=%s) never got the write lock but returned %r' % (kind, rec['op'], rec['call'].get('retry'), rec.get('result'))))
                elif rec.get('result') != want or type(rec.get('result')) is not type(want):
                    problems.append(('sharded_timeout_result', 'FanoutCache.%s returned %r on a lock timeout, expected %r' % (rec['op'], rec.get('result'), want)))
                rec['exc'] = 'Timeout'          # for the reference: the call reports that it did nothing
                rec.pop('result', None)
    if problems:
        return problems, r, gave_up
    case = {'kind': kind, 'mode': 'shared', 'programs': programs, 'setup': setup, 'shards': 2}
    for sig, text in c06.check_run(r, case, c06.new_stats()):
        if sig in c06.EXPECTED_SIGS:
            continue
        problems.append(('shared_timeout:' + sig, text))
    if not problems:
        with instr.Installed(r['clock']):
            snap = concdrv.api_snapshot(r['dir'], kind, shards=2, with_check=True)
        if snap['check']:
            problems.append(('shared_timeout:check_warns', 'check() reports %r' % snap['check'][:2]))
    return problems, r, gave_up


def shared_object_timeouts(ctx, res, stats, thorough):
    """"An operation that cannot obtain the write lock has no effect and leaves no value file behind" when the lock is held by ANOTHER
    THREAD OF THE SAME OBJECT inside transact().  Schedules: thread 0 runs i events (i over every position of its block), thread 1
    then runs k events (its calls give up at once, or spin k times), thread 0 finishes, thread 1 finishes.  Afterwards the results and the
    final contents must be explained by the block as one atomic step plus the calls that did NOT time out (reference of C05/C06), counters,
    rows and value files agree, and check() is silent."""
    seen = set()
    st = {'runs': 0, 'calls_that_gave_up': 0, 'runs_with_failed_begin': 0}
    for ci, (label, kind, programs, setup) in enumerate(shared_cases()):
        seqs = concdrv.solo_events(ctx, programs, settings=SHARED_SETTINGS, setup=setup, kind=kind, mode='shared', shards=2)
        na = len(seqs[0])
        retry = programs[1][0].get('retry')
        step = 1 if thorough else (2 if kind == 'cache' else 4)
        off = 0 if thorough else (ci + ctx.seed) % step
        for i in range(off, na + 1, step):
            for k in ((40,) if not retry else (7, 25) if thorough else (7 if (i // step) % 2 else 25,)):
                schedule = [0] * i + [1] * k + [0] * 600 + [1] * 600
                problems, r, gave_up = shared_run(ctx, kind, programs, setup, schedule)
                st['runs'] += 1
                st['calls_that_gave_up'] += gave_up
                st['runs_with_failed_begin'] += int(r['begin_failures'] > 0)
                stats['cases'] += 1
                stats['by_lock']['other_thread_in_transact'] = stats['by_lock'].get('other_thread_in_transact', 0) + 1
                res.count(['shared', label, r['schedule_used']], nontrivial=r['begin_failures'] > 0)
                shutil.rmtree(r['dir'], ignore_errors=True)
                for sig, text in problems[:2]:
                    if sig in seen:
                        continue
                    seen.add(sig)
                    res.violations.append(fw.Violation(sig, '%s [two threads sharing one %s; %s; thread 1 placed after %d of thread 0\'s %d events]' % (
                        text, 'Cache' if kind == 'cache' else 'FanoutCache(shards=2)', label, i, na),
                        {'check': 'shared_lock', 'kind': kind, 'label': label, 'programs': programs, 'setup': setup, 'schedule': r['schedule_used']}))
                    stats['by_sig'][sig] = stats['by_sig'].get(sig, 0) + 1
            if len(seen) >= 3:
                break
        if len(seen) >= 3:
            break
    return st


def run(ctx, big=False):
    res = fw.Result()
    del CASE_RECORDS[:]
    res.rule = ('exhaustive over the explicit operation table (Cache, FanoutCache, DjangoCache, Deque, Index) x {inline, file-backed} x settings '
                '{default, statistics, LRU} x retry {False, True where the call has the parameter} x lock scenario {held before the call, taken at '
                'the first BEGIN i.e. between the value-file write and the transaction, released after 1 / 3 failed BEGIN attempts, taken between '
                'two pages of a bulk removal, held for 300 attempts}; expectations from the property text, results/contents of waiting calls from '
                'an uncontended twin.  quick omits LRU for the writing operations of FanoutCache/DjangoCache.  non-trivial = the operation needed '
                'the lock while it was held, or was a lookup executed while it was held; distinct = distinct case tuple.  Lock held by ANOTHER THREAD '
                'OF THE SAME OBJECT: two threads share one Cache / FanoutCache(shards=2); thread 0 is inside transact() popping, replacing, deleting and '
                'creating file-backed values and commits or aborts; thread 1\'s set / add / pop / delete / incr (inline and file-backed, retry False = gives '
                'up, retry True = spins) are placed after every i-th event of thread 0 (quick: every 2nd / 4th); afterwards results and contents are those '
                'of the block as one step plus the calls that did not time out, counters / rows / value files agree and check() is silent.')
    stats = new_stats()
    twins = {}
    thorough = (not ctx.quick) or big
    nops = 0
    t0 = _time.time()
    deadline = t0 + (215 if ctx.quick and not big else 1300)
    cut = 0
    # families in turn, so that a time cut (slow file system) thins every family instead of dropping the last ones
    order = []
    fams = {}
    for o in OPS:
        fams.setdefault(o['fam'], []).append(o)
    while any(fams.values()):
        for f in list(fams):
            if fams[f]:
                order.append(fams[f].pop(0))
    for o in order:
        nops += 1
        for case in cases_for(o, cfgs_for(o, thorough), thorough):
            if _time.time() > deadline:
                cut += 1
                continue
            viol, r, info = run_case(ctx, case, twins, stats)
            CASE_RECORDS.append({'case': case, 'result': r, 'begin_attempts': info['begins'], 'events': info['events'][:80],
                                 'lock_taken_at': info['taken_at'], 'lock_released_at': info['released_at']})
            res.count(case, nontrivial=True)
            for sig, desc in viol[:2]:
                res.violations.append(fw.Violation(sig, desc, dict(case)))
                stats['by_sig'][sig] = stats['by_sig'].get(sig, 0) + 1
                if sig in EXPECTED_SIGS:
                    res.witnessed[sig] = True
            if len(res.samples) < 5 and case['lock'] in ('between', 'release_3', 'between_pages') and case['vk'] == 'file' and len(res.samples) == [0, 1, 2, 3, 4][len(res.samples)] and nops % 7 == 1:
                res.sample({'case': case, 'result': r, 'begin_attempts': info['begins'], 'events': info['events'][:40]})
        if len([v for v in res.violations if v.sig not in EXPECTED_SIGS and v.sig not in fw.load_known(ID)[0]]) >= 6:
            break
    if len([v for v in res.violations if v.sig not in EXPECTED_SIGS and v.sig not in fw.load_known(ID)[0]]) < 6:
        res.extra['lock_held_by_another_thread_of_the_same_object'] = shared_object_timeouts(ctx, res, stats, not ctx.quick)
    if not res.samples:
        res.sample({'note': 'see cases_by_lock_scenario'})
    res.extra.update({'operations_in_table': len(OPS), 'operations_by_family': {f: len([o for o in OPS if o['fam'] == f]) for f in ('cache', 'fanout', 'django', 'deque', 'index')},
                      'cases': stats['cases'], 'cases_by_lock_scenario': stats['by_lock'], 'cases_by_family': stats['by_fam'],
                      'failed_begin_attempts_observed': stats['failed_begin_attempts'], 'cases_with_contention_reached': stats['contended'],
                      'lockfree_lookups_executed_under_the_lock': stats['lockfree_lookups_under_lock'],
                      'waiting_calls_completed_after_release': stats['waited_and_completed'], 'bulk_removal_timeouts': stats['bulk_timeouts'],
                      'bulk_removals_interrupted_between_pages': stats['partial_bulk'], 'violations_by_sig': stats['by_sig'],
                      'timeouts_of_get_with_expire_time_and_tag_returning_the_bare_default': stats.get('bare_default_for_tuple_get', 0),
                      'cases_skipped_for_time': cut, 'exhaustive': bool(thorough) and cut == 0})
    res.extra_private = {'case_records': CASE_RECORDS}
    import retrycorr
    res.extra['statement_level_retry_of_init_and_reset'] = retrycorr.run(ctx, res, 300 if ctx.quick and not big else 3000, ctx.seed)
    if not ctx.search_mode:
        correspondence(ctx, res, CASE_RECORDS)
    return res


def search(ctx, broken):
    return run(ctx, big=True)


def replay(payload):
    case = payload.get('case', {})
    if case.get('check') == 'shared_lock':
        ctx = fw.Ctx('C14', 'quick', 1)
        try:
            problems, r, gave_up = shared_run(ctx, case['kind'], case['programs'], case['setup'], case['schedule'])
            print('two threads sharing one %s: %s' % (case['kind'], case['label']))
            print('log:', ' '.join('%d:%s' % (c, w) for c, w, _ in r['log']))
            print('results:', [[rec['client'], rec['op'], rec.get('result', rec.get('exc'))] for recs in r['calls'] for rec in recs if not rec.get('skipped')])
            print('monitor:', problems)
            return not problems
        finally:
            ctx.cleanup()
    if case.get('check') != 'lock':
        print(payload)
        return True
    ctx = fw.Ctx('C14', 'quick', 1)
    try:
        stats = new_stats()
        viol, r, info = run_case(ctx, case, {}, stats)
        print('case:', case)
        print('result:', r, ' BEGIN attempts:', info['begins'], ' lock taken at event', info['taken_at'], ' released at event', info['released_at'])
        print('events:', ' '.join(info['events'][:60]))
        print('monitor:', viol)
        return not viol
    finally:
        ctx.cleanup()
