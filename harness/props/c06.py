"""C06 -- transaction blocks are all-or-nothing, isolated, nestable and thread-owned.

Implementation side: a block client (client 0: optional calls, one transact block with body of 1-4 calls, nested
blocks up to depth 3, an optional raise point after any call, then read-back calls), a concurrent reader (client 1)
and a concurrent writer (client 2) under the deterministic scheduler, on Cache.transact, Deque.transact,
Index.transact and FanoutCache.transact, with threads owning their objects ('own') or sharing ONE object ('shared').

MONITORS (decided from the implementation's behaviour alone):
  (i)   abort: the state seen through the API after an aborted block (keys, values obtained BY READING THEM, expiry,
        tags, len, Settings counters, value files) equals the state before it (runs without a concurrent writer);
        in every run the final bookkeeping must be consistent (count/size/files vs rows);
  (ii)  commit / isolation: the whole block is ONE atomic action in a linearizability search (props.c05.linearize)
        of all clients' results + final contents: a reader can therefore see none or all of a block's effects; and
        in the event log no other client's INSERT/UPDATE/DELETE/COMMIT lies between the block's BEGIN and its
        COMMIT/ROLLBACK;
  (iii) nesting: between the outermost begin and end the block client executes exactly one BEGIN (per shard) and
        exactly one COMMIT xor ROLLBACK (per shard), at the outermost exit; inner enters/exits execute no statement;
  (iv)  thread ownership (shared object): a call of another thread while the block is open performs its own BEGIN
        (spins / Timeout) and executes no writing statement before the block's COMMIT/ROLLBACK.
Known defect D8 is classified: an aborted block that replaced / deleted a FILE-BACKED value leaves the restored row
without its file (sig abort_lost_file; pop/pull variant abort_lost_file_pop); an aborted block that stored a new
file-backed value leaves that file behind (sig abort_orphan_file).  Everything else gets another sig.
"""
import os
import random
import shutil
import tempfile
import time as _time

import concdrv
import fw
import instr
import seqdrv
from concdrv import MISS
from instr import diskcache
from props import c05
from props.c05 import Action, linearize, make_ref, observed_of, final_matches

ID = 'C06'
COQ_PROP = 'C06'
LEVEL = 'proof'
TRANSLATE = ['sql', 'disk', 'persistent', 'fanout', 'format']
TRUSTED = list(c05.TRUSTED) + [
    'the reference Deque (list) and Index (ordered dictionary) of harness/props/c05.py as the reading of "contents" for Deque/Index blocks',
]
ASSUMPTIONS = [
    'an exception raised inside nested blocks propagates to the outermost block (it is not caught between two block levels)',
    'default settings (no statistics, least-recently-stored), so lookups take no lock; clock frozen during a run '
    '(the culling family adds size_limit=1 and cull_limit 1-3 on the clients\' objects, the policy stays least-recently-stored)',
    'FanoutCache blocks: concurrent writers use retry=True (a timed-out FanoutCache call is indistinguishable from a miss; see C14)',
    'maintenance family (another client\'s check / check(fix=True) against a block): monitor only; what check() itself returns or raises while others work is not '
    'decided here (on the unchanged tree check(fix=True) can raise OperationalError from its VACUUM and FileNotFoundError from its directory pruning)',
]

SETTINGS = {'disk_min_file_size': 8}
EXPECTED_SIGS = ('iter_not_atomic', 'fanout_commit_not_atomic')
TRACE_RECORDS = []
OK_EXC = ('Timeout', 'KeyError', 'TypeError', 'IndexError', 'ValueError', 'ProgrammingError', 'InterfaceError')
WRITE_SQL = ('sql:INSERT', 'sql:UPDATE', 'sql:DELETE', 'sql:UPDATE-SETTINGS', 'sql:COMMIT', 'sql:ROLLBACK')
RELEASING = ('set', 'setitem', 'add', 'delete', 'delitem', 'incr', 'decr', 'pop', 'pull', 'popleft', 'popitem', 'clear',
             'setdefault', 'update', 'rotate', 'reverse', 'remove')
POPPING = ('pop', 'pull', 'popleft', 'popitem', 'rotate')


# ---------------------------------------------------------------------------
# actions: a block is one atomic action


def block_spans(recs):
    """[(begin rec, [inner recs], closing rec or None, aborted)] for every outermost block that opened."""
    out = []
    i = 0
    while i < len(recs):
        r = recs[i]
        if r['op'] == 'begin_block' and not r.get('skipped') and r['depth'] == 0 and not r.get('exc'):
            inner, closing, abort = [], None, False
            j = i + 1
            while j < len(recs):
                q = recs[j]
                if q.get('skipped'):
                    j += 1
                    continue
                if q['op'] == 'raise_in_block' and q.get('result') == 'raised-and-caught':
                    inner.append(q)         # left an inner block only and was caught inside the enclosing one
                    j += 1
                    continue
                if q['op'] == 'raise_in_block':
                    closing, abort = q, True
                    break
                if q['op'] == 'end_block' and q['depth'] == 0:
                    closing = q
                    break
                inner.append(q)
                j += 1
            out.append((r, inner, closing, abort))
            i = j + 1
        else:
            i += 1
    return out


def actions_with_blocks(calls):
    acts = []
    for recs in calls:
        in_block = set()
        for b, inner, closing, abort in block_spans(recs):
            in_block.add(b['index'])
            in_block.update(q['index'] for q in inner)
            if closing is not None:
                in_block.add(closing['index'])
            steps = [(q['call'], observed_of(q)) for q in inner if q['op'] not in concdrv.BLOCK_OPS]
            lasts = [q['last'] for q in [b] + inner + ([closing] if closing else []) if q.get('last') is not None]
            firsts = [q['first'] for q in [b] + inner + ([closing] if closing else []) if q.get('first') is not None]
            if not lasts:
                continue            # a block that executed nothing at all (reported by the nesting checks)
            b = dict(b, first=min(firsts))      # (entering the block normally executes BEGIN; if it did not, the block starts at its first event)
            acts.append(Action('%d.%d' % (b['client'], b['index']), b['client'], b['first'], max(lasts), steps, abort=abort,
                               label='block%s[%s]' % ('!' if abort else '', ','.join(c['op'] for c, _ in steps))))
        for r in recs:
            if r['index'] in in_block or r.get('skipped') or r.get('pending') or r['op'] in concdrv.BLOCK_OPS or r.get('first') is None:
                continue
            acts.append(Action('%d.%d' % (r['client'], r['index']), r['client'], r['first'], r['last'], [(r['call'], observed_of(r))]))
    return acts


_DISK = []


def shard_of(key, shards):
    if not _DISK:
        _DISK.append(instr.core.Disk(tempfile.gettempdir()))
    return _DISK[0].hash(key) % shards


def fanout_split_explains(calls, init, fin, shards):
    """Is the run explained when every COMMITTED block is one atomic action PER SHARD (all with the block's time span) and
    reads that visit several shards (len, iteration) are left unconstrained?"""
    acts = []
    for recs in calls:
        in_block = set()
        for b, inner, closing, abort in block_spans(recs):
            in_block.add(b['index'])
            in_block.update(q['index'] for q in inner)
            if closing is not None:
                in_block.add(closing['index'])
            lasts = [q['last'] for q in [b] + inner + ([closing] if closing else []) if q.get('last') is not None]
            firsts = [q['first'] for q in [b] + inner + ([closing] if closing else []) if q.get('first') is not None]
            if not lasts:
                continue
            b = dict(b, first=min(firsts))
            body = [q for q in inner if q['op'] not in concdrv.BLOCK_OPS]
            if abort or any('key' not in q['call'] for q in body):
                acts.append(Action('%d.%d' % (b['client'], b['index']), b['client'], b['first'], max(lasts), [(q['call'], observed_of(q)) for q in body], abort=abort))
                continue
            for sh in range(shards):
                steps = [(q['call'], observed_of(q)) for q in body if shard_of(q['call']['key'], shards) == sh]
                if steps:
                    acts.append(Action('%d.%d.s%d' % (b['client'], b['index'], sh), b['client'], b['first'], max(lasts), steps))
        for r_ in recs:
            if r_['index'] in in_block or r_.get('skipped') or r_.get('pending') or r_['op'] in concdrv.BLOCK_OPS or r_.get('first') is None:
                continue
            acts.append(Action('%d.%d' % (r_['client'], r_['index']), r_['client'], r_['first'], r_['last'], [(r_['call'], observed_of(r_))]))
    return linearize(acts, init, fin, wild=('len', 'iter', 'reversed')) is not None


# ---------------------------------------------------------------------------
# bookkeeping at quiescence (count / size / files vs rows), per database directory


def consistency(directory, kind, shards):
    dirs = [os.path.join(directory, '%03d' % i) for i in range(shards)] if kind == 'fanout' else [directory]
    out = []
    for d in dirs:
        rows, sets, files = seqdrv.observe(d)
        if sets['count'] != len(rows):
            out.append(('count_drift', 'Settings.count=%r but %d rows' % (sets['count'], len(rows))))
        if sets['size'] != sum(r[8] for r in rows):
            out.append(('size_drift', 'Settings.size=%r but SUM(size)=%d' % (sets['size'], sum(r[8] for r in rows))))
        refs = set(r[10] for r in rows if r[10] is not None)
        for r in rows:
            if r[10] is not None and r[10] not in files:
                out.append(('missing_file', 'row %d (key %r) refers to a value file that does not exist' % (r[0], r[1])))
        for fn in files:
            if fn not in refs:
                out.append(('unknown_file', 'value file %s (%d bytes) is referenced by no row' % (fn, len(files[fn]))))
    return out


# ---------------------------------------------------------------------------
# the monitor for one run


def check_run(r, case, stats):
    kind, mode, programs, setup = case['kind'], case['mode'], case['programs'], case['setup']
    shards = case.get('shards', 2)
    out = []
    if r['overflow']:
        return [('step_budget_overflow', 'the run did not terminate within the step budget')]
    for i, e in enumerate(r['errors']):
        if e is not None:
            out.append(('client_error', 'client %d died with %s' % (i, e)))
    for recs in r['calls']:
        for rec in recs:
            if rec.get('exc') and rec['exc'] not in OK_EXC:
                out.append(('unexpected_exception:%s' % rec['exc'], 'client %d call %d (%s) raised %s' % (rec['client'], rec['index'], rec['op'], rec['exc'])))
    if out:
        return out
    log = r['log']
    spans = block_spans(r['calls'][0])
    aborted = any(a for _, _, _, a in spans)
    nshards = shards if kind == 'fanout' else 1
    for b, inner, closing, abort in spans:
        stats['blocks'] += 1
        stats['aborted' if abort else 'committed'] += 1
        depth = max([q['depth'] + (1 if q['op'] == 'begin_block' else 0) for q in inner] + [1])
        stats['by_depth'][str(depth)] = stats['by_depth'].get(str(depth), 0) + 1
        nbody = len([q for q in inner if q['op'] not in concdrv.BLOCK_OPS])
        stats['by_body'][str(nbody)] = stats['by_body'].get(str(nbody), 0) + 1
        # (iii) nesting
        begins = [e for e in b['events'] if e == 'sql:BEGIN']
        ends = [e for e in (closing['events'] if closing else []) if e in ('sql:COMMIT', 'sql:ROLLBACK')]
        want_end = 'sql:ROLLBACK' if abort else 'sql:COMMIT'
        if closing is not None and ends != [want_end] * nshards:
            out.append(('outermost_exit_statements', 'the outermost %s executed %r, expected %d x %s' % (
                'raise' if abort else 'exit', ends, nshards, want_end)))
        if len(begins) < nshards:
            out.append(('block_without_begin', 'entering the outermost block executed %d BEGIN, expected at least %d' % (len(begins), nshards)))
        for q in inner:
            evs = [e for e in q.get('events', []) if e in ('sql:BEGIN', 'sql:COMMIT', 'sql:ROLLBACK')]
            if evs:
                out.append(('inner_transaction_statement', 'inside the open block, %s at depth %d executed %r' % (q['op'], q['depth'], evs)))
            if q['op'] in ('begin_block', 'end_block') and [e for e in q.get('events', []) if e.startswith('sql:')]:
                out.append(('inner_block_statement', 'an inner block %s executed statements %r' % (q['op'], q['events'])))
        # (ii)/(iv) isolation in the log: nobody else writes between BEGIN and COMMIT/ROLLBACK
        if kind != 'fanout' and closing is not None and closing.get('last') is not None:
            lo = b['last'] if b.get('last') is not None else (closing['first'] or 0)
            hi = max(s for s in range(closing['first'], closing['last'] + 1) if log[s][0] == 0 and log[s][1] in ('sql:COMMIT', 'sql:ROLLBACK')) \
                if any(log[s][0] == 0 and log[s][1] in ('sql:COMMIT', 'sql:ROLLBACK') for s in range(closing['first'], closing['last'] + 1)) else closing['last']
            for s in range(lo + 1, hi):
                cid, what, _ = log[s]
                if cid != 0 and what in WRITE_SQL:
                    sig = 'foreign_statement_in_block' if mode == 'own' else 'foreign_thread_joined_block'
                    out.append((sig, 'client %d executed %s at step %d while client 0\'s block was open (steps %d..%d)' % (cid, what, s, lo, hi)))
                    break
            others = sum(1 for s in range(lo + 1, hi) if log[s][0] != 0)
            stats['foreign_events_inside_blocks'] += others
            stats['foreign_begin_attempts_inside_blocks'] += sum(1 for s in range(lo + 1, hi) if log[s][0] != 0 and log[s][1] == 'sql:BEGIN')
    log_viol, out = out, []
    # final contents through the API + bookkeeping
    try:
        with instr.Installed(r['clock']):
            snap = r['snapshot'] = concdrv.api_snapshot(r['dir'], kind, shards=shards, with_check=bool(case.get('with_check')))
    except Exception as e:  # noqa
        return [('unusable_after_run', 'the directory cannot be opened/read after all clients finished: %r' % e)]
    # (i) abort = snapshot before equals snapshot after (no concurrent writer, block client otherwise read-only)
    if aborted and case.get('flavour') == 'abort_solo' and r.get('before') is not None:
        stats['abort_snapshots_compared'] += 1
        diffs = [k for k in ('items', 'len', 'counters', 'files') + (('check',) if case.get('with_check') else ()) if r['before'].get(k) != snap.get(k)]
        if diffs:
            out.append(('abort_changed_state', 'after the aborted block the %s differ: before %r, after %r' % (
                '/'.join(diffs), {k: r['before'][k] for k in diffs}, {k: snap[k] for k in diffs})))
    for sig, text in consistency(r['dir'], kind, shards)[:3]:
        out.append((sig, text))
    # (ii) atomicity: linearizability with the block as one action
    acts = actions_with_blocks(r['calls'])
    init = init_ref(case)
    fin = final_matches(kind, snap)
    res = linearize(acts, init, fin)
    if res is None:
        sig = 'block_not_atomic' if spans else 'not_linearizable'
        # lock-free multi-statement reads: finding iter_not_atomic of C05 (Deque indexing = len + key scan + lookup)
        multi = ('iter', 'items', 'reversed') + (('getitem', 'count') if kind == 'deque' else ())
        # reads of OTHER clients that hit a vanished value file while a block containing a file-releasing call was open
        def failed_open(evs):
            return any(e == 'file:open-read' and (i + 1 == len(evs) or evs[i + 1] != 'file:read') for i, e in enumerate(evs))
        early = set()
        for b, inner, closing, abort in spans:
            if closing is None or not any(q['op'] in RELEASING for q in inner):
                continue
            lo, hi = b['last'] if b.get('last') is not None else 0, closing['last'] if closing.get('last') is not None else len(log)
            ends = [s_ for s_ in range(closing.get('first') or 0, (closing.get('last') or -1) + 1)
                    if log[s_][0] == 0 and log[s_][1] in ('sql:COMMIT', 'sql:ROLLBACK')]
            if ends:
                hi = min(ends)          # (removals after the COMMIT are the ordinary cleanup of a committed block)
            # steps at which a client's attempt to open a value file failed (the next event of that client is not the read)
            failed_steps = {}
            last_open = {}
            for s_, (cid_, what_, _d) in enumerate(log):
                if cid_ in last_open and what_ != 'file:read':
                    failed_steps.setdefault(cid_, []).append(last_open[cid_])
                last_open.pop(cid_, None)
                if what_ == 'file:open-read':
                    last_open[cid_] = s_
            for cid_, s_ in last_open.items():
                failed_steps.setdefault(cid_, []).append(s_)
            for recs in r['calls'][1:]:
                for rec in recs:
                    if rec.get('first') is None:
                        continue
                    if any(lo <= s_ <= hi and rec['first'] <= s_ <= rec['last'] for s_ in failed_steps.get(rec['client'], [])):
                        early.add(id(rec['call']))      # the open failed while the block's transaction was still open
        if kind == 'fanout' and fanout_split_explains(r['calls'], init, fin, shards):
            sig = 'fanout_commit_not_atomic'
        elif linearize(acts, init, None) is not None:
            sig = 'final_contents_unexplained'
        elif early and linearize(acts, init, fin, wild=lambda c: id(c) in early) is not None:
            sig = 'uncommitted_removal_visible'
        elif any(c['op'] in multi for a in acts if not a.abort and len(a.steps) == 1 for c, _ in a.steps) and \
                linearize([a for a in acts], init, fin,
                          wild=lambda c: c['op'] in multi and not any(c is cc for b, inner, _, _ in spans for cc in [q['call'] for q in inner])) is not None:
            sig = 'iter_not_atomic'
        if sig == 'fanout_commit_not_atomic':
            out.append((sig, 'FanoutCache.transact commits its shards one after the other: a reader between two of the COMMITs sees the block applied '
                        'on one shard and not yet on another (explained once the block is split into one atomic action per shard); results: %s'
                        % '; '.join('c%s %s -> %s' % (a.aid, a.label, [o[1] for _, o in a.steps]) for a in acts)))
        elif sig == 'uncommitted_removal_visible':
            out.append((sig, 'a reader overlapping an open block found the value file of an item already removed by a call inside the block '
                        '(the file is unlinked when the inner call returns, before the block commits): it saw a state that is neither before '
                        'nor after the block; results: %s' % '; '.join('c%s %s -> %s' % (a.aid, a.label, [o[1] for _, o in a.steps]) for a in acts)))
        else:
            out.append((sig, 'no order with the block as one atomic action explains the results (%s) and the final contents %s' % (
                '; '.join('c%s %s -> %s' % (a.aid, a.label, [o[1] for _, o in a.steps]) for a in acts), [[x[0], x[1], x[2]] for x in snap['items']])))
    if out:
        out = classify(out, r, case, snap, spans)
    return log_viol + out


def init_ref(case):
    """the reference contents after the setup; when the setup ran under settings of its own (cull_limit), the reference setup does too"""
    kind, ss = case['kind'], case.get('setup_settings')
    if not ss or kind not in ('cache', 'fanout'):
        return make_ref(kind, case['setup'])
    ref = make_ref(kind, None)
    ref.cull_limit = ss.get('cull_limit', 10)
    for call in case['setup']:
        try:
            ref.apply(call)
        except c05.Raise:
            pass
    ref.cull_limit = (case.get('settings') or {}).get('cull_limit', 10)
    return ref


def filed_value(v):
    return isinstance(v, str) and len(v) >= SETTINGS['disk_min_file_size']


def classify(out, r, case, snap, spans):
    """(Until the repair recorded under C06-F1 this re-attributed the violations of an aborted block that had released a value
    file to that defect.  Nothing is re-attributed any more: whatever the monitors find is reported under its own signature.)"""
    return out


# ---------------------------------------------------------------------------
# generators


def val(rng, tag, filed=None):
    if filed is None:
        filed = rng.random() < 0.5
    if not filed:
        return rng.choice([rng.randrange(1, 9), 'v' + tag])
    return ('F' + tag + '-' * 10) if rng.random() < 0.8 else ('G' + tag + '=' * 8 + '\n' + '+' * 6)


def body_call(rng, kind, tag, keys):
    if kind in ('cache', 'fanout'):
        op = rng.choices(['set', 'add', 'incr', 'get', 'pop', 'delete', 'touch', 'contains', 'clear', 'evict', 'expire'], [30, 8, 12, 16, 10, 12, 4, 8, 2, 4, 2])[0]
        if op in ('clear', 'expire'):
            return {'op': op, 'retry': True}           # bulk removals: their batches are transactions nested in the block
        if op == 'evict':
            return {'op': 'evict', 'tag': 'grp', 'retry': True}
        c = {'op': op, 'key': rng.choice(keys)}
        if op in ('set', 'add'):
            c['value'] = val(rng, tag)
            if rng.random() < 0.3:
                c['tag'] = 'grp'
        if op in ('set', 'add', 'touch'):
            c['expire'] = rng.choice([None, None, None, 100])
        if op == 'incr':
            c['default'] = rng.choice([0, 0, None])
        if op not in ('get', 'contains'):
            c['retry'] = True
        return c
    if kind == 'deque':
        op = rng.choices(['append', 'appendleft', 'pop', 'popleft', 'peek', 'len', 'getitem', 'setitem', 'iter'], [22, 14, 14, 14, 6, 6, 8, 10, 6])[0]
        c = {'op': op}
        if op in ('append', 'appendleft', 'setitem'):
            c['value'] = val(rng, tag)
        if op in ('getitem', 'setitem'):
            c['index'] = rng.choice([0, 1, -1])
        return c
    if kind == 'index':
        op = rng.choices(['setitem', 'getitem', 'delitem', 'pop', 'popitem', 'setdefault', 'contains', 'len', 'iter'], [30, 12, 12, 10, 8, 8, 8, 6, 6])[0]
        c = {'op': op}
        if op not in ('popitem', 'len', 'iter'):
            c['key'] = rng.choice(keys)
        if op == 'setitem':
            c['value'] = val(rng, tag)
        if op == 'setdefault':
            c['default'] = val(rng, tag)
        if op == 'pop' and rng.random() < 0.5:
            c['default'] = 'dflt'
        if op == 'popitem':
            c['last'] = rng.random() < 0.5
        return c
    raise ValueError(kind)


def reader_call(rng, kind, keys):
    if kind in ('cache', 'fanout'):
        op = rng.choices(['get', 'contains', 'len', 'iter'], [60, 20, 10, 10 if kind == 'cache' else 0])[0]
        c = {'op': op}
        if op in ('get', 'contains'):
            c['key'] = rng.choice(keys)
        return c
    if kind == 'deque':
        return {'op': rng.choice(['len', 'iter', 'iter', 'getitem']), 'index': rng.choice([0, -1])}
    op = rng.choices(['get', 'contains', 'len', 'iter', 'items'], [50, 15, 10, 10, 15])[0]
    c = {'op': op}
    if op in ('get', 'contains'):
        c['key'] = rng.choice(keys)
    return c


def writer_call(rng, kind, tag, keys):
    if kind in ('cache', 'fanout'):
        op = rng.choice(['set', 'set', 'incr', 'delete'])
        c = {'op': op, 'key': rng.choice(keys), 'retry': True if kind == 'fanout' else rng.random() < 0.7}
        if op == 'set':
            c['value'] = val(rng, tag)
        return c
    if kind == 'deque':
        op = rng.choice(['append', 'appendleft', 'pop', 'popleft'])
        c = {'op': op}
        if op.startswith('append'):
            c['value'] = val(rng, tag)
        return c
    op = rng.choice(['setitem', 'setitem', 'delitem', 'pop'])
    c = {'op': op, 'key': rng.choice(keys)}
    if op == 'setitem':
        c['value'] = val(rng, tag)
    if op == 'pop':
        c['default'] = 'dflt'
    return c


def gen_block(rng, kind, keys):
    """body of 1-4 calls with nested blocks (depth <= 3) and an optional raise point after some call"""
    nbody = rng.choices([1, 2, 3, 4], [25, 35, 25, 15])[0]
    body = [body_call(rng, kind, 'b%d' % i, keys) for i in range(nbody)]
    raise_after = rng.choice([None] + list(range(nbody))) if rng.random() < 0.6 else None
    prog = [{'op': 'begin_block'}]
    depth = 1
    for i, c in enumerate(body):
        if depth < 3 and rng.random() < 0.35:
            prog.append({'op': 'begin_block'})
            depth += 1
        prog.append(c)
        if raise_after == i:
            prog.append({'op': 'raise_in_block', 'base': True} if rng.random() < 0.3 else
                        ({'op': 'raise_in_block', 'caught': True} if depth >= 2 and rng.random() < 0.5 else {'op': 'raise_in_block'}))
        if depth > 1 and rng.random() < 0.4:
            prog.append({'op': 'end_block'})
            depth -= 1
    while depth > 0:
        prog.append({'op': 'end_block'})
        depth -= 1
    return prog, raise_after is not None


def gen_setup(rng, kind, keys):
    if kind in ('cache', 'fanout'):
        return [dict({'op': 'set', 'key': k, 'value': val(rng, 's' + k, filed=rng.random() < 0.6)}, **({'tag': 'grp'} if rng.random() < 0.4 else {}))
                for k in keys if rng.random() < 0.75]
    if kind == 'deque':
        return [{'op': 'append', 'value': val(rng, 's%d' % i, filed=rng.random() < 0.6)} for i in range(rng.randrange(0, 4))]
    return [{'op': 'setitem', 'key': k, 'value': val(rng, 's' + k, filed=rng.random() < 0.6)} for k in keys if rng.random() < 0.75]


def readback(kind, keys):
    if kind in ('cache', 'fanout'):
        return [c for k in keys for c in ({'op': 'contains', 'key': k}, {'op': 'get', 'key': k})] + [{'op': 'len'}]
    if kind == 'deque':
        return [{'op': 'len'}, {'op': 'iter'}]
    return [{'op': 'len'}, {'op': 'items'}]


def gen_case(rng, kind):
    keys = ['a', 'b'] if kind != 'fanout' else ['a', 'b', 'c', 'd']
    block, aborts = gen_block(rng, kind, keys)
    with_reader = rng.random() < 0.7
    with_writer = rng.random() < 0.5
    flavour = 'abort_solo' if (aborts and not with_writer) else ('abort_writer' if aborts else 'commit')
    programs = [block + readback(kind, keys)]
    programs.append([reader_call(rng, kind, keys) for _ in range(rng.randrange(2, 5))] if with_reader else [])
    programs.append([writer_call(rng, kind, 'w%d' % i, keys) for i in range(rng.randrange(1, 3))] if with_writer else [])
    while programs and not programs[-1]:
        programs.pop()
    setup = gen_setup(rng, kind, keys)
    total = [14 * len(p) + 6 for p in programs]
    if rng.random() < 0.5:
        schedule = concdrv.random_schedule(rng, total, slack=0)
    else:
        schedule, left = [], list(total)
        while any(left):
            c = rng.choice([i for i, k in enumerate(left) if k])
            k = min(left[c], rng.randrange(1, 9))
            schedule += [c] * k
            left[c] -= k
    return {'check': 'block', 'kind': kind, 'mode': rng.choice(['own', 'shared']), 'programs': programs, 'setup': setup,
            'schedule': schedule, 'flavour': flavour, 'shards': 2}


BIG, BIG2 = 'BIG' + 'x' * 20, 'BIG2' + 'y' * 20


def fanout_witness():
    """keys k0 / k1 living in shard 0 / shard 1 of a 2-shard FanoutCache; the block sets both; the reader looks k1 up, then k0, right
    after the block's FIRST COMMIT (ExitStack leaves the shard transactions in reverse order: shard 1 commits first)."""
    ks = {}
    for k in 'abcdefgh':
        ks.setdefault(shard_of(k, 2), k)
    k0, k1 = ks[0], ks[1]
    return {'check': 'block', 'kind': 'fanout', 'mode': 'own', 'setup': [{'op': 'set', 'key': k0, 'value': 'old0'}, {'op': 'set', 'key': k1, 'value': 'old1'}],
            'flavour': 'commit', 'shards': 2, 'until_first': 'sql:COMMIT',
            'programs': [[{'op': 'begin_block'}, {'op': 'set', 'key': k0, 'value': 'new0', 'retry': True}, {'op': 'set', 'key': k1, 'value': 'new1', 'retry': True},
                          {'op': 'end_block'}], [{'op': 'get', 'key': k1}, {'op': 'get', 'key': k0}]],
            'schedule': None}


def witnesses():
    """Minimal witnesses of D8, replayed every run: (sig, case)."""
    def solo(kind, setup, body, readback_):
        return {'check': 'block', 'kind': kind, 'mode': 'own', 'setup': setup, 'schedule': [], 'flavour': 'abort_solo', 'shards': 2,
                'programs': [[{'op': 'begin_block'}] + body + [{'op': 'raise_in_block'}, {'op': 'end_block'}] + readback_]}
    rb = [{'op': 'contains', 'key': 'k'}, {'op': 'get', 'key': 'k'}]
    return [
        ('abort_lost_file', solo('cache', [{'op': 'set', 'key': 'k', 'value': BIG}], [{'op': 'set', 'key': 'k', 'value': BIG2, 'retry': True}], rb)),
        ('abort_lost_file', solo('cache', [{'op': 'set', 'key': 'k', 'value': BIG}], [{'op': 'delete', 'key': 'k', 'retry': True}], rb)),
        ('abort_lost_file_pop', solo('cache', [{'op': 'set', 'key': 'k', 'value': BIG}], [{'op': 'pop', 'key': 'k', 'retry': True}], rb)),
        ('abort_lost_file_pop', solo('deque', [{'op': 'append', 'value': BIG}], [{'op': 'popleft'}], [{'op': 'len'}, {'op': 'iter'}])),
        ('abort_lost_file', solo('index', [{'op': 'setitem', 'key': 'k', 'value': BIG}], [{'op': 'setitem', 'key': 'k', 'value': 5}], [{'op': 'contains', 'key': 'k'}, {'op': 'get', 'key': 'k'}])),
        ('abort_orphan_file', solo('cache', [], [{'op': 'set', 'key': 'k', 'value': BIG, 'retry': True}], rb)),
        # a COMMITTED Deque block {popleft; append}: the reader runs after popleft unlinked the file, before the COMMIT
        ('uncommitted_removal_visible',
         {'check': 'block', 'kind': 'deque', 'mode': 'own', 'setup': [{'op': 'append', 'value': BIG}], 'flavour': 'commit', 'shards': 2,
          'programs': [[{'op': 'begin_block'}, {'op': 'popleft'}, {'op': 'append', 'value': 'new'}, {'op': 'end_block'}], [{'op': 'iter'}, {'op': 'len'}]],
          'schedule': [0] * 7 + [1] * 12 + [0] * 20}),
        # a COMMITTED FanoutCache block over two shards: the reader runs between the COMMITs of the two shards
        ('fanout_commit_not_atomic', fanout_witness()),
        # a COMMITTED Cache block {delete a; set c}: the reader's iteration reads MAX(rowid) before and its page after the COMMIT
        ('iter_not_atomic',
         {'check': 'block', 'kind': 'cache', 'mode': 'own', 'setup': [{'op': 'set', 'key': 'a', 'value': 1}, {'op': 'set', 'key': 'b', 'value': 2}],
          'flavour': 'commit', 'shards': 2,
          'programs': [[{'op': 'begin_block'}, {'op': 'delete', 'key': 'a', 'retry': True}, {'op': 'set', 'key': 'c', 'value': 3, 'retry': True}, {'op': 'end_block'}],
                       [{'op': 'iter'}]],
          'schedule': [1] + [0] * 30 + [1] * 5}),
    ]


def corpus():
    """Hand-picked non-defect cases."""
    t = True
    return [
        # reader between two effects of a committed block
        {'check': 'block', 'kind': 'cache', 'mode': 'own', 'setup': [{'op': 'set', 'key': 'a', 'value': 1}, {'op': 'set', 'key': 'b', 'value': 1}],
         'programs': [[{'op': 'begin_block'}, {'op': 'set', 'key': 'a', 'value': 2, 'retry': t}, {'op': 'set', 'key': 'b', 'value': 2, 'retry': t}, {'op': 'end_block'}],
                      [{'op': 'get', 'key': 'b'}, {'op': 'get', 'key': 'a'}, {'op': 'get', 'key': 'b'}, {'op': 'get', 'key': 'a'}]],
         'schedule': [0] * 6 + [1] + [0] * 6 + [1, 1] + [0] * 30 + [1] * 10, 'flavour': 'commit', 'shards': 2},
        # writer on the shared object while the block is open
        {'check': 'block', 'kind': 'cache', 'mode': 'shared', 'setup': [{'op': 'set', 'key': 'a', 'value': 1}],
         'programs': [[{'op': 'begin_block'}, {'op': 'incr', 'key': 'a', 'retry': t}, {'op': 'begin_block'}, {'op': 'incr', 'key': 'a', 'retry': t}, {'op': 'end_block'},
                       {'op': 'end_block'}, {'op': 'get', 'key': 'a'}], [], [{'op': 'incr', 'key': 'a', 'retry': t}, {'op': 'set', 'key': 'b', 'value': 'w', 'retry': False}]],
         'schedule': [0, 0, 2, 2, 0, 2, 0, 2, 2, 0, 0, 2, 0, 2] + [0] * 20, 'flavour': 'commit', 'shards': 2},
        # aborted nested block with inline values only: must be a perfect no-op
        {'check': 'block', 'kind': 'cache', 'mode': 'shared', 'setup': [{'op': 'set', 'key': 'a', 'value': 1}, {'op': 'set', 'key': 'b', 'value': 'vb'}],
         'programs': [[{'op': 'begin_block'}, {'op': 'set', 'key': 'a', 'value': 7, 'retry': t}, {'op': 'begin_block'}, {'op': 'delete', 'key': 'b', 'retry': t},
                       {'op': 'begin_block'}, {'op': 'incr', 'key': 'c', 'retry': t}, {'op': 'raise_in_block'}, {'op': 'end_block'}, {'op': 'end_block'}, {'op': 'end_block'}]
                      + readback('cache', ['a', 'b', 'c']), [{'op': 'get', 'key': 'a'}, {'op': 'contains', 'key': 'b'}, {'op': 'len'}]],
         'schedule': [0, 0, 0, 1, 0, 0, 0, 1, 0, 0, 1] + [0] * 30, 'flavour': 'abort_solo', 'shards': 2},
        # the same kind of abort by an exception that is not an Exception (KeyboardInterrupt, SystemExit, ...), then more work by the
        # same client and by another one: the block must be rolled back, the lock released, later calls committed
        {'check': 'block', 'kind': 'cache', 'mode': 'own', 'setup': [{'op': 'set', 'key': 'a', 'value': 1}],
         'programs': [[{'op': 'begin_block'}, {'op': 'set', 'key': 'a', 'value': 7, 'retry': t}, {'op': 'incr', 'key': 'c', 'retry': t},
                       {'op': 'raise_in_block', 'base': True}, {'op': 'end_block'}, {'op': 'set', 'key': 'd', 'value': 4, 'retry': False}]
                      + readback('cache', ['a', 'c', 'd']), [{'op': 'set', 'key': 'e', 'value': 5, 'retry': False}, {'op': 'get', 'key': 'a'}, {'op': 'get', 'key': 'd'}]],
         'schedule': [0] * 60 + [1] * 20, 'flavour': 'abort_then_work', 'shards': 2},
        # bulk removals (their 100-row batches are transactions nested in the block) over file-backed values inside a block that then raises:
        # the rows come back and their value files must still be there
        {'check': 'block', 'kind': 'cache', 'mode': 'own',
         'setup': [{'op': 'set', 'key': 'k', 'value': BIG, 'tag': 'grp'}, {'op': 'set', 'key': 'm', 'value': BIG2}, {'op': 'set', 'key': 'e', 'value': BIG, 'expire': -1}],
         'programs': [[{'op': 'begin_block'}, {'op': 'evict', 'tag': 'grp', 'retry': t}, {'op': 'expire', 'retry': t}, {'op': 'clear', 'retry': t}, {'op': 'raise_in_block'},
                       {'op': 'end_block'}] + readback('cache', ['k', 'm']), [{'op': 'get', 'key': 'k'}]],
         'schedule': [0] * 80 + [1] * 10, 'flavour': 'abort_solo', 'shards': 2},
        {'check': 'block', 'kind': 'index', 'mode': 'own', 'setup': [{'op': 'setitem', 'key': 'k', 'value': BIG}, {'op': 'setitem', 'key': 'm', 'value': 5}],
         'programs': [[{'op': 'begin_block'}, {'op': 'clear'}, {'op': 'raise_in_block'}, {'op': 'end_block'}] + readback('index', ['k', 'm'])],
         'schedule': [], 'flavour': 'abort_solo', 'shards': 2},
        {'check': 'block', 'kind': 'deque', 'mode': 'own', 'setup': [{'op': 'append', 'value': BIG}, {'op': 'append', 'value': 2}],
         'programs': [[{'op': 'begin_block'}, {'op': 'clear'}, {'op': 'raise_in_block'}, {'op': 'end_block'}] + readback('deque', [])],
         'schedule': [], 'flavour': 'abort_solo', 'shards': 2},
        # an inner call raises AFTER it announced the removal of the file it was going to replace (a tag SQLite cannot bind makes the
        # UPDATE fail), the program catches the exception and the block commits: the row still refers to the old file, which must stay
        {'check': 'block', 'kind': 'cache', 'mode': 'own', 'setup': [{'op': 'set', 'key': 'k', 'value': BIG}, {'op': 'set', 'key': 'm', 'value': BIG2}],
         'programs': [[{'op': 'begin_block'}, {'op': 'set', 'key': 'k', 'value': 1, 'tag': [1], 'retry': t}, {'op': 'add', 'key': 'n', 'value': 3, 'tag': {'x': 1}, 'retry': t},
                       {'op': 'set', 'key': 'm', 'value': 2, 'retry': t}, {'op': 'end_block'}] + readback('cache', ['k', 'm', 'n']),
                      [{'op': 'get', 'key': 'k'}]],
         'schedule': [0] * 80 + [1] * 10, 'flavour': 'commit', 'shards': 2},
        # an exception leaves a NESTED block and is caught inside the enclosing one (which then commits everything); a later block
        # of the same thread raises and must be rolled back as a whole
        {'check': 'block', 'kind': 'cache', 'mode': 'own', 'setup': [{'op': 'set', 'key': 'a', 'value': 1}],
         'programs': [[{'op': 'begin_block'}, {'op': 'set', 'key': 'a', 'value': 2, 'retry': t}, {'op': 'begin_block'}, {'op': 'incr', 'key': 'c', 'retry': t},
                       {'op': 'raise_in_block', 'caught': True}, {'op': 'end_block'}, {'op': 'set', 'key': 'b', 'value': 2, 'retry': t}, {'op': 'end_block'},
                       {'op': 'begin_block'}, {'op': 'set', 'key': 'd', 'value': 4, 'retry': t}, {'op': 'delete', 'key': 'a', 'retry': t}, {'op': 'raise_in_block'},
                       {'op': 'end_block'}] + readback('cache', ['a', 'b', 'c', 'd']), [{'op': 'get', 'key': 'd'}, {'op': 'get', 'key': 'a'}]],
         'schedule': [0] * 80 + [1] * 20, 'flavour': 'abort_then_work', 'shards': 2},
        {'check': 'block', 'kind': 'index', 'mode': 'own', 'setup': [{'op': 'setitem', 'key': 'a', 'value': 1}],
         'programs': [[{'op': 'begin_block'}, {'op': 'begin_block'}, {'op': 'setitem', 'key': 'c', 'value': 3}, {'op': 'raise_in_block', 'caught': True},
                       {'op': 'end_block'}, {'op': 'end_block'},
                       {'op': 'begin_block'}, {'op': 'setitem', 'key': 'd', 'value': 4}, {'op': 'raise_in_block'}, {'op': 'end_block'}] + readback('index', ['a', 'c', 'd'])],
         'schedule': [], 'flavour': 'abort_then_work', 'shards': 2},
    ]


def cull_abort_cases(thorough=False):
    """Aborted blocks in which a WRITE CULLS file-backed items automatically (nobody asked for their removal): the store of
    set / add / incr runs the per-write culling, which removes (a) expired rows and (b), once the volume exceeds size_limit under
    an evicting policy, live rows -- up to cull_limit of them.  The block then raises: the rows come back with the ROLLBACK and so
    must their values ("including large values removed inside the block").  The setup runs without a size limit and with cull_limit 0 (it removes
    nothing, not even the rows stored as already expired); the clients' objects carry size_limit=1, cull_limit 1..3.  Cache and FanoutCache (Index / Deque never evict and
    cannot store expiring items); nesting depth 1..3; the culling call first / after another write / before another write;
    new value inline or file-backed.  Afterwards: abort snapshot equality (items read through the API, counters, files, the
    warnings of check()), bookkeeping, and the read-back of every live key explained by "the block did nothing"."""
    t = True
    out = []
    live = ['a', 'b', 'c', 'd']
    for kind in ('cache', 'fanout'):
        for variant in ('evict', 'expired', 'both'):
            for trig in ('set', 'add', 'incr', 'setitem'):
                for depth in ((1, 2, 3) if thorough else (1, 2)):
                    for cull_limit in ((1, 2, 3) if thorough else (2,)):
                        for filed_new in (False, True):
                            if trig == 'incr' and filed_new:
                                continue
                            if not thorough and (depth + filed_new + len(trig) + len(variant) + len(kind)) % 2 and trig != 'set':
                                continue        # (quick tier: half of the non-set combinations)
                            setup = [{'op': 'set', 'key': k, 'value': 'S' + k + '-' * (10 + i), 'retry': t} for i, k in enumerate(live)]
                            setup.insert(2, {'op': 'set', 'key': 'i', 'value': 3, 'retry': t})
                            if variant in ('expired', 'both'):
                                setup += [{'op': 'set', 'key': 'x', 'value': 'X' + '=' * 12, 'expire': -1, 'retry': t},
                                          {'op': 'set', 'key': 'y', 'value': 'Y' + '=' * 14, 'expire': -2, 'tag': 'grp', 'retry': t}]
                            settings = dict(SETTINGS, cull_limit=cull_limit)
                            if variant in ('evict', 'both'):
                                settings['size_limit'] = 1
                            c = {'op': trig, 'key': 'n'}
                            if trig != 'incr':
                                c['value'] = ('N' + '+' * 15) if filed_new else 7
                            if trig != 'setitem':
                                c['retry'] = t
                            body = [c]
                            if depth == 2:
                                body = [{'op': 'set', 'key': 'i', 'value': 4, 'retry': t}, {'op': 'begin_block'}, c, {'op': 'end_block'}]
                            elif depth == 3:
                                body = [{'op': 'begin_block'}, {'op': 'begin_block'}, c, {'op': 'end_block'}, {'op': 'set', 'key': 'i', 'value': 5, 'retry': t}, {'op': 'end_block'}]
                            opens = sum(1 for q in body if q['op'] == 'begin_block') - sum(1 for q in body if q['op'] == 'end_block')
                            prog = [{'op': 'begin_block'}] + body + [{'op': 'raise_in_block'}] + [{'op': 'end_block'}] * (opens + 1)
                            out.append({'check': 'block', 'kind': kind, 'mode': 'own', 'setup': setup, 'schedule': [], 'flavour': 'abort_solo', 'shards': 2,
                                        'settings': settings, 'setup_settings': dict(SETTINGS, cull_limit=0), 'with_check': True, 'family': 'cull_abort:' + variant,
                                        'programs': [prog + readback(kind, live + ['i', 'n'])]})
    return out


def handover_cases(ctx):
    """Two threads sharing ONE Cache object: a single write (client 1) ends while the block client (client 0) is queueing
    for the lock.  The scheduler can switch threads right after a BEGIN / COMMIT / ROLLBACK statement has executed
    (sched.Tracer after_txn), so every placement of the block's BEGIN relative to the writer's COMMIT and to the
    ownership bookkeeping around them is tried."""
    t = True
    out = []
    for writer in ([{'op': 'set', 'key': 'a', 'value': 1, 'retry': t}], [{'op': 'delete', 'key': 'zz', 'retry': t}]):
        programs = [[{'op': 'begin_block'}, {'op': 'set', 'key': 'b', 'value': 2, 'retry': False}, {'op': 'incr', 'key': 'c', 'retry': False},
                     {'op': 'end_block'}] + readback('cache', ['a', 'b', 'c']), writer]
        seqs = concdrv.solo_events(ctx, programs, settings=SETTINGS, setup=[], kind='cache', mode='shared')
        for i in range(1, len(seqs[1]) + 1):
            for j in range(1, 7):
                for k in range(0, 3):
                    out.append({'check': 'block', 'kind': 'cache', 'mode': 'shared', 'setup': [], 'programs': programs, 'flavour': 'handover', 'shards': 2,
                                'schedule': [1] * i + [0] * j + [1] * k + [0] * 3 + [1] * 40 + [0] * 120})
    # two threads sharing ONE object, BOTH with a block of their own (the second one raises): the second block must wait for the
    # first (a transaction belongs to the thread that opened it), and its abort must undo all of its writes
    for kind, k1, k2, k3 in (('fanout', 'a', 'b', 'c'), ('cache', 'a', 'b', 'c'), ('index', 'a', 'b', 'c')):
        wr = (lambda k, v: {'op': 'setitem', 'key': k, 'value': v}) if kind == 'index' else (lambda k, v: {'op': 'set', 'key': k, 'value': v, 'retry': t})
        # (each client starts with a lookup: a client is parked at its first EVENT, so without it the second client would already be
        #  past the Python-level entry of its block before the first client has executed anything)
        programs = [[{'op': 'contains', 'key': k1}, {'op': 'begin_block'}, wr(k1, 1), wr(k2, 2), {'op': 'end_block'}] + readback(kind, [k1, k2, k3]),
                    [{'op': 'contains', 'key': k3}, {'op': 'begin_block'}, wr(k3, 3), wr(k1, 9), {'op': 'raise_in_block'}, {'op': 'end_block'}] + readback(kind, [k1, k3])]
        seqs = concdrv.solo_events(ctx, programs, settings=SETTINGS, setup=[], kind=kind, mode='shared')
        for i in range(0, len(seqs[0]) + 1, 2):
            for j in (1, 3, 6, 12):
                out.append({'check': 'block', 'kind': kind, 'mode': 'shared', 'setup': [], 'programs': programs, 'flavour': 'two_blocks', 'shards': 2,
                            'schedule': [0] * i + [1] * j + [0] * 400 + [1] * 400})
    return out


# ---------------------------------------------------------------------------
# maintenance by another client while a block is open: the library's own check() / check(fix=True) (Cache, FanoutCache, the cache of a
# Deque / Index) is "another client's action" like any write.  Client 0 runs a block that stores, replaces and pops FILE-BACKED values
# (and commits or raises); client 1 runs check.  Every placement of the block inside the check and of the check inside the block.


def maint_interp(obj, kind, calls, records):
    """a client program for sched.Scheduler: the calls of concdrv.apply_call plus begin_block / end_block / raise_in_block and
    {'op': 'check', 'fix': bool, 'retry': bool}; exceptions of single calls are caught by the program, like `try: ... except Exception`"""
    stack = []
    skip = False
    for j, call in enumerate(calls):
        op = call['op']
        rec = {'index': j, 'op': op}
        records.append(rec)
        if skip and op != 'end_block':
            rec['skipped'] = True
            continue
        try:
            if op == 'begin_block':
                cm = obj.transact() if kind in ('deque', 'index', 'fanout') else obj.transact(retry=True)
                cm.__enter__()
                stack.append(cm)
                rec['result'] = 'opened'
            elif op == 'end_block':
                if skip:
                    skip = False
                    rec['skipped'] = True
                elif stack:
                    stack.pop().__exit__(None, None, None)
                    rec['result'] = 'closed'
            elif op == 'raise_in_block':
                exc = concdrv.BlockAbort('raise_in_block')
                while stack:
                    stack.pop().__exit__(type(exc), exc, None)
                rec['result'] = 'raised'
                skip = True
            elif op == 'check':
                target = obj.cache if kind in ('deque', 'index') else obj
                ws = target.check(fix=call.get('fix', False), retry=call.get('retry', False))
                rec['result'] = sorted(set(w.category.__name__ for w in ws))
            else:
                rec['result'] = concdrv.jsonable(concdrv.apply_call(obj, call, kind))
        except Exception as e:  # noqa
            rec['exc'] = type(e).__name__
    while stack:
        try:
            stack.pop().__exit__(None, None, None)
        except Exception:  # noqa
            pass
    return records


def maint_run(ctx, case, schedule):
    """-> dict(dir, calls=[records per client], errors, log, overflow, schedule_used, clock)"""
    import sched
    kind, shards = case['kind'], case.get('shards', 2)
    d = concdrv.scratch(ctx, 'c06m')
    clock = instr.Clock(c05.NOW)
    with instr.Installed(clock):
        so = concdrv.make_object(kind, d, SETTINGS, timeout=60, shards=shards)
        try:
            concdrv.run_sequential(so, kind, case['setup'])
        finally:
            concdrv.close_object(so)
        if schedule is None:            # reference: the programs one after the other, no scheduler
            recs = []
            for prog in case['programs']:
                o = concdrv.make_object(kind, d, SETTINGS, timeout=60, shards=shards)
                try:
                    recs.append(maint_interp(o, kind, prog, []))
                finally:
                    concdrv.close_object(o)
            return {'dir': d, 'calls': recs, 'errors': [None] * len(recs), 'log': [], 'overflow': False, 'schedule_used': [], 'clock': clock}
        objs = [concdrv.make_object(kind, d, SETTINGS, timeout=0, shards=shards) for _ in case['programs']]
        for o in objs:
            concdrv.close_object(o)
        s = sched.Scheduler(clock, max_steps=6000, sleep_advances=False, after_txn=True)
        recs = [[] for _ in objs]

        def prog(i):
            def p():
                try:
                    return maint_interp(objs[i], kind, case['programs'][i], recs[i])
                finally:
                    concdrv.close_object(objs[i])
            return p
        r = s.run([prog(i) for i in range(len(objs))], list(schedule), warmups=[concdrv.warm(o) for o in objs])
        for o in objs:
            concdrv.close_object(o)
    return {'dir': d, 'calls': recs, 'errors': [None if e is None else repr(e) for e in r['errors']], 'log': r['log'], 'overflow': r['overflow'],
            'schedule_used': r['schedule_used'], 'clock': clock}


def maint_snapshot(r, case):
    with instr.Installed(r['clock']):
        snap = concdrv.api_snapshot(r['dir'], case['kind'], shards=case.get('shards', 2), with_check=True)
    snap['items'] = sorted(snap['items'], key=repr)
    snap['check'] = [w for w in snap['check'] if not w.startswith('EmptyDirWarning')]          # (an empty directory is harmless)
    return snap


_MAINT_REF = {}


def maint_check(ctx, case, stats=None):
    """Run one scheduled case and decide it.  What the block client's program leaves behind does not depend on the other client (check
    changes nothing in a consistent directory; the block waits for the lock): the reference is the two programs run one after the other.
    -> [(sig, desc)]"""
    kind = case['kind']
    refkey = repr((kind, case.get('shards', 2), case['setup'], case['programs']))
    if refkey not in _MAINT_REF:
        ref = maint_run(ctx, case, None)
        _MAINT_REF.clear()
        _MAINT_REF[refkey] = maint_snapshot(ref, case)
        shutil.rmtree(ref['dir'], ignore_errors=True)
    want = _MAINT_REF[refkey]
    r = maint_run(ctx, case, case['schedule'])
    out = []
    try:
        if r['overflow']:
            return [('step_budget_overflow', 'the run did not terminate within the step budget')], r
        for i, e in enumerate(r['errors']):
            if e is not None:
                out.append(('client_error', 'client %d died with %s' % (i, e)))
        for i, recs in enumerate(r['calls']):
            for rec in recs:
                # (what check() itself answers or raises while others work is not this property's business -- on the unchanged tree
                #  check(fix=True) can raise OperationalError from its VACUUM while the lock is held and FileNotFoundError when a committed
                #  block's own file cleanup prunes a directory first; only what it does to the BLOCK is decided here)
                if rec.get('exc') and rec['exc'] not in OK_EXC and rec['op'] != 'check':
                    out.append(('unexpected_exception:%s' % rec['exc'], 'client %d call %d (%s) raised %s' % (i, rec['index'], rec['op'], rec['exc'])))
        if out:
            return out, r
        try:
            snap = maint_snapshot(r, case)
        except Exception as e:  # noqa
            return [('unusable_after_run', 'the directory cannot be opened/read after all clients finished: %r' % e)], r
        aborted = any(rec['op'] == 'raise_in_block' and rec.get('result') == 'raised' for rec in r['calls'][0])
        chk = ['%s(fix=%s) -> %s' % (rec['op'], case['programs'][1][rec['index']].get('fix', False), rec.get('result', rec.get('exc')))
               for rec in r['calls'][1] if rec['op'] == 'check']
        where = 'client 1: %s; steps of client 0 / 1: %s' % ('; '.join(chk), ''.join(str(c) for c in r['schedule_used'][:120]))
        if snap['items'] != want['items'] or snap['len'] != want['len']:
            lost = [x for x in want['items'] if x not in snap['items']]
            extra = [x for x in snap['items'] if x not in want['items']]
            out.append(('block_torn_by_check' if not aborted else 'aborted_block_torn_by_check',
                        'a block that %s while another client ran check: afterwards the cache holds %s where the block alone leaves %s (len %d / %d) [%s]'
                        % ('raised' if aborted else 'completed', [x[:3] for x in extra] or 'nothing else', [x[:3] for x in lost] or 'the same', snap['len'], want['len'], where)))
        for sig, text in consistency(r['dir'], kind, case.get('shards', 2))[:2]:
            out.append((sig, '%s [after a block overlapped by another client\'s check; %s]' % (text, where)))
        if snap['check'] and not out:
            out.append(('check_reports_after_block', 'check() on the quiescent directory reports %s [%s]' % (snap['check'][:3], where)))
        if stats is not None:
            stats['maintenance_runs'] = stats.get('maintenance_runs', 0) + 1
            stats['maintenance_check_outcomes'] = stats.get('maintenance_check_outcomes', {})
            for rec in r['calls'][1]:
                if rec['op'] == 'check':
                    k = rec.get('exc') or 'returned'
                    stats['maintenance_check_outcomes'][k] = stats['maintenance_check_outcomes'].get(k, 0) + 1
        return out, r
    finally:
        shutil.rmtree(r['dir'], ignore_errors=True)


def maint_programs(kind, abort, fix, retry):
    t = True
    if kind in ('cache', 'fanout'):
        keys = ['j', 'k', 'old', 'p', 'q'] if kind == 'cache' else ['j', 'k', 'old', 'p', 'q', 'r']
        setup = [{'op': 'set', 'key': 'old', 'value': BIG}, {'op': 'set', 'key': 'p', 'value': BIG2}, {'op': 'set', 'key': 'q', 'value': 3}]
        body = [{'op': 'set', 'key': 'j', 'value': 1, 'retry': t}, {'op': 'set', 'key': 'k', 'value': 'K' + BIG, 'retry': t},
                {'op': 'set', 'key': 'old', 'value': 'N' + BIG2, 'retry': t}, {'op': 'pop', 'key': 'p', 'retry': t}, {'op': 'incr', 'key': 'q', 'retry': t}]
        if kind == 'fanout':
            body.append({'op': 'add', 'key': 'r', 'value': 'R' + BIG, 'retry': t})
    elif kind == 'index':
        setup = [{'op': 'setitem', 'key': 'old', 'value': BIG}, {'op': 'setitem', 'key': 'p', 'value': BIG2}]
        body = [{'op': 'setitem', 'key': 'j', 'value': 1}, {'op': 'setitem', 'key': 'k', 'value': 'K' + BIG}, {'op': 'setitem', 'key': 'old', 'value': 'N' + BIG2},
                {'op': 'pop', 'key': 'p'}]
    else:
        setup = [{'op': 'append', 'value': BIG}, {'op': 'append', 'value': 2}]
        body = [{'op': 'append', 'value': 'K' + BIG}, {'op': 'appendleft', 'value': 1}, {'op': 'setitem', 'index': 1, 'value': 'N' + BIG2}, {'op': 'pop'}]
    block = [{'op': 'begin_block'}] + body + ([{'op': 'raise_in_block'}] if abort else []) + [{'op': 'end_block'}]
    return setup, [block, [{'op': 'check', 'fix': fix, 'retry': retry}]]


def maintenance_cases(ctx, thorough):
    """For kind x {commit, abort} x check(fix) x check(retry): the check's first i events, then the block's first j events, then the rest of the
    check, then the rest of the block -- and the mirror image (block first).  Events include the points right after BEGIN / COMMIT / ROLLBACK."""
    out = []
    plans = [('cache', False, True, False), ('cache', True, True, True), ('fanout', False, True, False), ('cache', False, False, False)]
    if thorough:
        plans = [(k, a, f, rt) for k in ('cache', 'fanout', 'index', 'deque') for a in (False, True) for f in (True, False) for rt in (False, True)]
    else:
        plans += [[('index', False, True, False), ('deque', True, True, False)][ctx.seed % 2]]
    tail = ([1] * 30 + [0] * 30) * 60
    for kind, abort, fix, retry in plans:
        setup, programs = maint_programs(kind, abort, fix, retry)
        base = {'check': 'maintenance', 'kind': kind, 'shards': 2, 'setup': setup, 'programs': programs}
        solo = maint_run(ctx, base, [0] * 3000 + [1] * 3000)
        n = [sum(1 for c, _, _ in solo['log'] if c == i) for i in (0, 1)]
        shutil.rmtree(solo['dir'], ignore_errors=True)
        # the check's prefix: every event of it (FanoutCache, quick tier: every second); the block's prefix: a third, two thirds, all of it
        # (thorough: every second position)
        js = sorted(set(range(0, n[0] + 1, 2))) if thorough else [n[0] // 3, 2 * n[0] // 3, n[0]]
        for i in range(0, n[1] + 1, 1 if thorough or kind != 'fanout' else 2):
            for j in js:
                out.append(dict(base, schedule=[1] * i + [0] * j + [1] * 400 + tail, label='check %d events, block %d events, rest of check' % (i, j)))
        iss = range(0, n[1] + 1) if thorough else [2, n[1] // 2, n[1]]
        for j in range(1, n[0] + 1, 1 if thorough else 3):
            for i in iss:
                out.append(dict(base, schedule=[0] * j + [1] * i + [0] * 400 + tail, label='block %d events, check %d events, rest of block' % (j, i)))
    if thorough:
        random.Random(ctx.seed).shuffle(out)          # the time budget of the thorough tier then samples every plan alike
    return out


def maintenance(ctx, res, stats, thorough, deadline):
    seen = set()
    n = 0
    for case in maintenance_cases(ctx, thorough):
        label = case.pop('label')
        viol, r = maint_check(ctx, case, stats)
        n += 1
        res.count(['maintenance', case['kind'], case['programs'], r['schedule_used']], nontrivial=True)
        for sig, desc in viol[:2]:
            if sig not in seen:
                seen.add(sig)
                res.violations.append(fw.Violation(sig, '%s [%s, %s]' % (desc, label, case['kind']), dict(case, schedule=r['schedule_used'], label=label)))
        if _time.time() > deadline:
            stats['maintenance_cut_short'] = True
            break
    stats['maintenance_cases'] = n


# ---------------------------------------------------------------------------
# running


def new_stats():
    return {'runs': 0, 'blocks': 0, 'aborted': 0, 'committed': 0, 'by_depth': {}, 'by_body': {}, 'by_kind': {}, 'by_mode': {}, 'by_flavour': {},
            'contended': 0, 'foreign_events_inside_blocks': 0, 'foreign_begin_attempts_inside_blocks': 0,
            'abort_snapshots_compared': 0, 'overflow': 0, 'known_by_sig': {}, 'aborted_touching_files': 0}


def run_case(ctx, res, stats, case, label, record=True):
    kind, mode = case['kind'], case['mode']
    settings = case.get('settings') or SETTINGS
    if case.get('schedule') is None and case.get('until_first'):
        # client 0 runs up to and including its first event of the given kind, then client 1 runs to its end, then client 0
        seqs = concdrv.solo_events(ctx, case['programs'], settings=SETTINGS, setup=case['setup'], kind=kind, mode=mode, shards=case.get('shards', 2))
        i = seqs[0].index(case['until_first']) + 1 if case['until_first'] in seqs[0] else len(seqs[0])
        case = dict(case, schedule=[0] * i + [1] * 200 + [0] * 400)
    d = concdrv.scratch(ctx, 'c06')
    clock = instr.Clock(c05.NOW)
    before = None
    # the state before the block, through the API (quiescent: taken after the setup, before any client starts)
    if case.get('flavour') == 'abort_solo':
        with instr.Installed(clock):
            # (the setup runs under 'setup_settings' when the case has them -- e.g. without a size limit, so that the setup itself
            #  evicts nothing -- and the clients under 'settings')
            so = concdrv.make_object(kind, d, case.get('setup_settings') or settings, timeout=60, shards=case.get('shards', 2))
            try:
                concdrv.run_sequential(so, kind, case['setup'])
            finally:
                concdrv.close_object(so)
            if case.get('settings'):
                concdrv.close_object(concdrv.make_object(kind, d, settings, timeout=60, shards=case.get('shards', 2)))   # the clients' settings, stored
            before = concdrv.api_snapshot(d, kind, shards=case.get('shards', 2), with_check=bool(case.get('with_check')))
        r = concdrv.run_program(ctx, case['programs'], case['schedule'], mode=mode, settings=settings, setup=None, kind=kind,
                                shards=case.get('shards', 2), directory=d, max_steps=8000)
    else:
        r = concdrv.run_program(ctx, case['programs'], case['schedule'], mode=mode, settings=settings, setup=case['setup'], kind=kind,
                                shards=case.get('shards', 2), directory=d, max_steps=8000)
    r['before'] = before
    stats['runs'] += 1
    for k, v in (('by_kind', kind), ('by_mode', mode), ('by_flavour', case.get('flavour', '?'))):
        stats[k][v] = stats[k].get(v, 0) + 1
    stats['contended'] += int(r['begin_failures'] > 0)
    stats['overflow'] += int(r['overflow'])
    viol = check_run(r, case, stats)
    if case.get('family', '').startswith('cull_abort'):
        # (not vacuous: a call inside the block deleted rows nobody asked it to delete)
        stats['culling_blocks'] = stats.get('culling_blocks', 0) + int(any('sql:DELETE' in rec.get('events', []) for rec in r['calls'][0]))
    case = dict(case, schedule=r['schedule_used'])
    nontrivial = len([p for p in case['programs'] if p]) > 1 or case.get('flavour', '').startswith('abort')
    res.count([case['programs'], case['setup'], case['schedule'], kind, mode], nontrivial=nontrivial)
    if record:
        TRACE_RECORDS.append(c05.trace_record(r, case['programs'], case['schedule'], case['setup'], mode, settings, kind))
    for sig, desc in viol[:3]:
        res.violations.append(fw.Violation(sig, '%s [%s, %s/%s]' % (desc, label, kind, mode), dict(case, label=label)))
        stats['known_by_sig'][sig] = stats['known_by_sig'].get(sig, 0) + 1
    if len(res.samples) < 4 and len([p for p in case['programs'] if p]) > 1 and r['begin_failures'] > 0:
        res.sample({'kind': kind, 'mode': mode, 'programs': case['programs'], 'setup': case['setup'], 'schedule_used': r['schedule_used'][:80],
                    'results': [[[rec['op'], rec.get('result', rec.get('exc')), rec.get('first'), rec.get('last')] for rec in recs if not rec.get('skipped')]
                                for recs in r['calls']]})
    shutil.rmtree(d, ignore_errors=True)
    return viol


def run(ctx, big=False):
    res = fw.Result()
    del TRACE_RECORDS[:]
    res.rule = ('block client (transact block with body of 1-4 calls over inline and file-backed values, nested blocks up to depth 3, raise point '
                'after any call or none, then read-back of every key) + optional concurrent reader (2-4 lookups) + optional concurrent writer '
                '(1-2 writes, retry on/off) under the deterministic scheduler; Cache/Deque/Index/FanoutCache.transact; threads with own objects '
                'or one shared object; random fine/coarse schedules + hand-picked ones.  Monitors: abort snapshot equality through the API, '
                'final bookkeeping, linearizability with the block as one atomic action, BEGIN/COMMIT/ROLLBACK placement in the event log, no '
                'foreign writing statement inside an open block.  non-trivial = at least two clients or an aborted block; distinct = distinct '
                '(programs, setup, executed schedule, kind, mode).  Maintenance: a block that stores, replaces and pops file-backed values (commit and raise; '
                'Cache, FanoutCache, Index, Deque) against another client\'s check() / check(fix=True) (retry on / off): the check\'s first i events, then the '
                'block\'s first j events, then the rest of each, and the mirror image, with scheduling points right after BEGIN / COMMIT / ROLLBACK; '
                'afterwards the contents read through the API are those the block alone leaves, the bookkeeping is consistent and check() is silent.  '
                'Culling inside an aborted block: Cache / FanoutCache blocks (nesting depth 1-3) in which a set / setitem / add / incr culls file-backed items nobody '
                'asked it to remove -- expired rows, and live rows evicted because the clients\' objects carry size_limit=1 (cull_limit 1-3; the setup ran without '
                'limit) -- and which then raise: items read through the API, counters, value files and the warnings of check() as before the block.')
    stats = new_stats()
    t0 = _time.time()
    thorough = (not ctx.quick) or big
    deadline = t0 + (200 if not thorough else (420 if ctx.quick else 800))
    for sig, case in witnesses():
        v = run_case(ctx, res, stats, case, 'witness:' + sig)
        hit = any(s == sig for s, _ in v)
        res.witnessed[sig] = res.witnessed.get(sig, False) or hit
        if not hit and sig in fw.load_known(ID)[0]:
            res.extra.setdefault('witnesses_no_longer_failing', []).append(sig)
    for case in corpus():
        run_case(ctx, res, stats, case, 'corpus')
    culls = cull_abort_cases(thorough)
    for n, case in enumerate(culls):
        run_case(ctx, res, stats, case, 'cull-abort:%d' % n, record=False)
    res.extra['cull_abort_cases'] = len(culls)
    res.extra['cull_abort_blocks_that_culled'] = stats.get('culling_blocks', 0)
    maintenance(ctx, res, stats, thorough, _time.time() + (60 if not thorough else 240))
    for n, case in enumerate(handover_cases(ctx)):
        run_case(ctx, res, stats, case, 'handover:%d' % n, record=n < 10)
        if c05.enough(res, ID, EXPECTED_SIGS):
            break
    plan = [('cache', 600), ('deque', 150), ('index', 150), ('fanout', 100)] if not thorough else \
        [('cache', 5000), ('deque', 1500), ('index', 1500), ('fanout', 1000)]
    for kind, n in plan:
        for k in range(n):
            case = gen_case(ctx.rng, kind)
            run_case(ctx, res, stats, case, 'random:%s:%d' % (kind, k), record=k < 40)
            if _time.time() > deadline or c05.enough(res, ID, EXPECTED_SIGS):
                break
    res.extra.update({
        'runs': stats['runs'], 'blocks': stats['blocks'], 'blocks_aborted': stats['aborted'], 'blocks_committed': stats['committed'],
        'blocks_by_nesting_depth': stats['by_depth'], 'blocks_by_body_size': stats['by_body'], 'runs_by_kind': stats['by_kind'],
        'runs_by_mode': stats['by_mode'], 'runs_by_flavour': stats['by_flavour'], 'runs_with_contention_reached': stats['contended'],
        'other_clients_events_inside_open_blocks': stats['foreign_events_inside_blocks'],
        'other_clients_begin_attempts_inside_open_blocks': stats['foreign_begin_attempts_inside_blocks'],
        'abort_snapshots_compared': stats['abort_snapshots_compared'],
        'step_budget_overflows': stats['overflow'], 'violations_by_sig': stats['known_by_sig'], 'trace_records': len(TRACE_RECORDS),
        'maintenance_cases': stats.get('maintenance_cases'), 'maintenance_check_outcomes': stats.get('maintenance_check_outcomes'),
        'maintenance_cut_short': stats.get('maintenance_cut_short', False)})
    res.extra_private = {'trace_records': TRACE_RECORDS}
    if not ctx.search_mode:
        correspondence(ctx, res, TRACE_RECORDS)
        block_correspondence(ctx, res, 250 if not thorough else 2500)
    return res


def correspondence(ctx, res, trace_records):
    """Trace correspondence with the stage automaton of coq/model/ConcTrace.v (which simulates the micro-step machine):
    a whole outermost block -- BEGIN of begin_block, the statements of the inner calls, their early file removals,
    COMMIT / ROLLBACK of the closing record -- is ONE writing call of the machine whose body is the composition of the
    inner calls (`accepts true`: removals before the commit decision allowed); every call outside a block is an
    ordinary call (`accepts false`).  Plus the lock discipline the machine proves, on the merged log."""
    import tracecorr
    traces = []
    for ri, rec in enumerate(trace_records):
        if rec.get('kind', 'cache') != 'cache':
            continue
        for recs in rec['calls']:
            block = None
            for c in recs:
                if c.get('skipped') or 'events' not in c:
                    continue
                op = c.get('op')
                if block is None and op == 'begin_block' and c.get('depth', 0) == 0 and c.get('exc') is None:
                    block = {'events': list(c['events']), 'first': c}
                    continue
                if block is not None:
                    block['events'] += c['events']
                    if (op == 'end_block' and c.get('depth', 0) == 0) or (op == 'raise_in_block' and c.get('result') == 'raised'):
                        tags = tracecorr.tags_from_shorts(block['events'])
                        traces.append(((ri, c.get('client'), block['first'].get('index'), 'block', block['events']), tags, True))
                        block = None
                    continue
                if op in tracecorr.SKIP_OPS or op in concdrv.BLOCK_OPS or op in getattr(concdrv, 'ITER_OPS', ()):
                    continue
                tags = tracecorr.tags_from_shorts(c['events'], timed_out=(c.get('exc') == 'Timeout'))
                traces.append(((ri, c.get('client'), c.get('index'), op, c['events']), tags, False))
        for prob in tracecorr.lock_discipline(rec['log'], rec['calls'])[:1]:
            res.disagreements.append(fw.Violation('lock_discipline', prob, {'programs': rec['programs'], 'schedule': rec['schedule_used'][:200],
                                                                           'mode': rec['mode']}, 'correspondence'))
    bad, errors = tracecorr.check_traces('c06tr', traces)
    for e in errors:
        res.disagreements.append(fw.Violation('model-eval', 'stage automaton evaluation failed: ' + e[-300:], {}, 'correspondence'))
    res.traces_validated += len(traces) - len(bad)
    for t in bad[:3]:
        res.disagreements.append(fw.Violation('stage_order', 'the event sequence of %s is not a path of the stage machine: %s' % (t[0][3], t[0][4]),
                                              {'record': t[0][0], 'client': t[0][1], 'call': t[0][2], 'events': t[0][4], 'tags': t[1]}, 'correspondence'))


def block_correspondence(ctx, res, n):
    """Blocks over the real transaction bodies (coq/model/TxnBlock.v w_block) against the implementation: one client runs a
    program of single calls and transact blocks (inner calls: set/add/delete/pop/touch/incr with inline NEW values over keys
    that hold inline and file-backed values; nested blocks; a raise after any inner call, caught inside or leaving the block);
    ConcRun.block_check follows the events of every block as ONE machine call (BEGIN, body, the early file removals of the
    inner calls, COMMIT / ROLLBACK) and then compares outcomes, rows, counters and, row by row, whether the value file
    exists -- so the dangling rows of findings C06-F1/F2 are reproduced by the model, not just tolerated."""
    import schedcorr
    rng = ctx.rng
    keys = ['a', 'b', 'c']
    terms, infos, cases = [], [], []
    st = {'runs': 0, 'blocks': 0, 'aborted': 0, 'early_removals': 0, 'skipped': {}, 'dangling_rows_after': 0}

    def wcall(tag):
        op = rng.choice(['set', 'set', 'add', 'delete', 'pop', 'touch', 'incr', 'incr', 'delitem'])
        c_ = {'op': op, 'key': rng.choice(keys)}
        if op in ('set', 'add'):
            c_['value'] = rng.choice([rng.randrange(1, 9), 'v' + tag])
            c_['expire'] = rng.choice([None, None, 100])
        if op == 'touch':
            c_['expire'] = rng.choice([None, 100])
        if op == 'incr':
            c_['delta'] = rng.choice([1, 2])
            c_['default'] = rng.choice([0, 0, None])
        if op not in ('delitem',):
            c_['retry'] = True
        return c_
    tries = 0
    while len(terms) < n and tries < 4 * n:
        tries += 1
        setup = []
        for k in keys:
            x = rng.random()
            if x < 0.4:
                setup.append({'op': 'set', 'key': k, 'value': 'S' + k + '#' * 14, 'retry': True})
            elif x < 0.7:
                setup.append({'op': 'set', 'key': k, 'value': rng.randrange(1, 5), 'retry': True})
        prog = []
        for b in range(rng.choice([1, 1, 2])):
            if rng.random() < 0.3:
                prog.append(wcall('p%d' % b))
            body = [wcall('b%d%d' % (b, i)) for i in range(rng.choice([1, 2, 2, 3]))]
            blk = [{'op': 'begin_block'}]
            depth = 1
            raise_at = rng.choice([None, None] + list(range(len(body))))
            for i, c_ in enumerate(body):
                if depth < 3 and rng.random() < 0.25:
                    blk.append({'op': 'begin_block'})
                    depth += 1
                blk.append(c_)
                if raise_at == i:
                    blk.append({'op': 'raise_in_block', 'caught': True} if depth >= 2 and rng.random() < 0.4 else {'op': 'raise_in_block'})
                    if blk[-1].get('caught'):
                        depth -= 1      # the inner block is left; its end_block is skipped by the interpreter
                        blk.append({'op': 'end_block'})
            while depth > 0:
                blk.append({'op': 'end_block'})
                depth -= 1
            prog += blk
        prog += [{'op': 'get', 'key': k} for k in keys]
        r = concdrv.run_program(ctx, [prog], [0] * 10, mode='own', settings=SETTINGS, setup=setup, kind='cache', max_steps=4000, sleep_advances=False)
        term, info = schedcorr.build_block(r, prog, setup, SETTINGS)
        shutil.rmtree(r['dir'], ignore_errors=True)
        if term is None:
            st['skipped'][info] = st['skipped'].get(info, 0) + 1
            continue
        st['runs'] += 1
        st['blocks'] += sum(1 for c_ in prog if c_['op'] == 'begin_block')
        st['aborted'] += sum(1 for (_, t_) in info['events'] if t_ == 'TRollback')
        st['early_removals'] += sum(1 for (_, t_) in info['events'] if t_ == 'TEarlyRm')
        rows, _, files = r['final']
        st['dangling_rows_after'] += sum(1 for row in rows if row[10] is not None and row[10] not in files)
        terms.append(term)
        infos.append(info)
        cases.append({'check': 'block-correspondence', 'program': prog, 'setup': setup, 'settings': SETTINGS})
    codes, errors = schedcorr.evaluate('c06bc', terms)
    for e in errors[:2]:
        res.disagreements.append(fw.Violation('model-eval', 'block correspondence could not be evaluated: ' + e[-300:], {}, 'correspondence'))
    bad = [i for i, c_ in enumerate(codes) if c_ != -1]
    res.traces_validated += len(terms) - len(bad)
    st['agree'] = len(terms) - len(bad)
    for i in bad[:3]:
        res.disagreements.append(fw.Violation('block_correspondence', 'the block model over the real bodies and the implementation differ: '
                                              + schedcorr.explain(codes[i], infos[i]), dict(cases[i], events=infos[i]['events'], code=codes[i]), 'correspondence'))
    res.extra['block_correspondence'] = st


def search(ctx, broken):
    return run(ctx, big=True)


def replay(payload):
    case = payload.get('case', {})
    if case.get('check') == 'maintenance':
        ctx = fw.Ctx('C06', 'quick', 1)
        try:
            viol, r = maint_check(ctx, case)
            for i, recs in enumerate(r['calls']):
                for rec in recs:
                    print('client %d call %d: %s -> %s' % (i, rec['index'], rec['op'], rec.get('result', rec.get('exc', 'skipped'))))
            print('steps:', ''.join(str(c) for c in r['schedule_used'][:200]))
            print('monitor:', viol)
            return not viol
        finally:
            ctx.cleanup()
    if case.get('check') != 'block':
        print(payload)
        return True
    ctx = fw.Ctx('C06', 'quick', 1)
    try:
        res = fw.Result()
        stats = new_stats()
        viol = run_case(ctx, res, stats, case, 'replay')
        t = TRACE_RECORDS[-1]
        for recs in t['calls']:
            for rec in recs:
                print('client %d call %d: %s %s -> %s   steps %s..%s %s' % (rec['client'], rec['index'], rec['op'],
                      {k: v for k, v in rec['call'].items() if k != 'op'}, rec.get('result', rec.get('exc')), rec.get('first'), rec.get('last'),
                      ' '.join(rec.get('events', []))))
        print('monitor:', viol)
        return not viol
    finally:
        ctx.cleanup()
