"""C13 -- a sharded cache is observably one cache with a fixed key-to-shard mapping."""
import io
import json
import math
import os
import pickle
import pickletools
import shutil
import sqlite3
import struct
import subprocess
import sys
import tempfile
import zlib
from fractions import Fraction

import fw
import instr
import val
from instr import core, diskcache
import diskcache.fanout as fanout_mod

ID = 'C13'
COQ_PROP = 'C13'
LEVEL = 'proof'
TRANSLATE = ['fanout', 'disk', 'format', 'sql']     # format: __getstate__ / __setstate__ / __init__ parameters (pickled handles)
TRUSTED = [
    'coq/model/Fanout.v: the dictionary-with-expiry that stands for one Cache (written from the documentation; Cache itself is C03) and the '
    'interpreter of the generated FanoutCache table; model shard/hash/shard_dir/adler32 compared with the implementation on every generated key',
    'codec functions utf8 / pack_d / pkk (UTF-8, struct.pack("!d"), optimized pickle) enter the model as data: the real bytes of every key',
    'C13_refines quantifies over an abstract key identity `cls`; C13_refines_pyval instantiates the routing of the code for any identity at least '
    'as fine as key_eq (C02_identity ties key_eq to the UNIQUE(key, raw) index)',
]
ASSUMPTIONS = [
    'no eviction and no culling interferes with the comparison against one cache (size limit large, cull_limit 0 in the equivalence stream): a shard '
    'culls against its own share of the limit, which the property allows',
    'bulk removals (1c): what cull() removes FOR SIZE is compared with one Cache per shard holding size_limit / shards (the division the property '
    'states), and with the unsharded cache only while no shard is above its share and the total is not above the limit; every write advances the '
    'clock, so store and access times are distinct (least-frequently-used ties are broken by row order on both sides)',
    'timeouts are injected at the shard-method boundary for _remove; real lock timeouts are C14',
    "unencodable text and streams are outside the key domain; float('nan') (the canonical quiet NaN) is inside it since the repair of C02-F2: "
    'Disk.put pickles it, so it is routed by adler32 of its pickle like every pickled key (C13_routing_nan); the recorded routing table '
    '(fixtures/routing.json, released routing) has no NaN entry and is unchanged',
    'Disk configurations: the Disk class is a constructor argument (not stored in the directory), so every later handle repeats it; the disk_ settings '
    '(compress level, pickle protocol) are stored and are NOT repeated.  Under JSONDisk two keys are the same key exactly when json.dumps gives the '
    'same text (so [1, "k"] and (1, "k") are one key, 1 and 1.0 are two); the Coq dictionary is not run on these histories',
    'falsy tags: a history draws at most one of the numeric tags 0 and 0.0 (SQLite compares them equal, the Coq dictionary compares tags structurally)',
    'two-handle settings histories: a write through a handle whose cull_limit is not 0 is done as one write into every shard at a standing clock '
    '(cull_limit 1000 > number of items), because a shard removes only its own expired / evictable items; size limits are only 0 (always over) or 2**40 '
    '(never over); the value a FanoutCache reports for size_limit (a share) is not compared with the unsharded one',
]

SHARD_COUNTS = [1, 2, 3, 8, 13]
FIXTURE = os.path.join(fw.VERIF, 'fixtures', 'routing.json')
SEEDS = ['0', '1', '12345', '4294967295']
PROTO = pickle.HIGHEST_PROTOCOL


# ---------------------------------------------------------------------------
# keys


def native_num(k):
    """stored natively and compared numerically: int64-range ints and floats other than NaN (Disk.put pickles NaN)"""
    return (type(k) is int and -2 ** 63 <= k <= 2 ** 63 - 1) or (type(k) is float and k == k)


def struct_repr(k):
    if isinstance(k, tuple):
        return 'tuple(' + ','.join(struct_repr(x) for x in k) + ')'
    if isinstance(k, frozenset):
        return 'frozenset(' + ','.join(sorted(struct_repr(x) for x in k)) + ')'
    if isinstance(k, float):
        return 'float:' + k.hex()
    return type(k).__name__ + ':' + repr(k)


def ident(k):
    """Key identity as documented: text, bytes and numbers as in Python; everything else by type and structure."""
    if native_num(k):
        return ('n', k)           # 1 == 1.0 and hash(1) == hash(1.0): one dictionary entry
    if type(k) is str:
        return ('s', k)
    if type(k) is bytes:
        return ('b', k)
    return ('o', struct_repr(k))


def equal_pair_of_finding(a, b):
    """Two different native numbers that are one key: an int with a float, or 0.0 with -0.0."""
    return native_num(a) and native_num(b) and a == b and (type(a) is not type(b) or
                                                           (type(a) is float and math.copysign(1, a) != math.copysign(1, b)))


def pk(k):
    return pickletools.optimize(pickle.dumps(k, protocol=PROTO))


STRS = ['', 'a', 'b', 'ab', 'a\x00', 'key', 'k1', 'k2', 'k3', '1', '1.0', '\xe9', '€', '\U0001F600', 'x' * 40]
BYTES = [b'', b'a', b'b', b'\x00', b'1', b'\xff\xfe', b'key', b'x' * 40]
INTS = [0, 1, -1, 2, 3, 7, 10, 255, 2 ** 31, 2 ** 32 - 2, 2 ** 32 - 1, 2 ** 32, 2 ** 33 - 1, -(2 ** 32) + 1, 2 ** 53, 2 ** 63 - 1, -2 ** 63]
BIGINTS = [2 ** 63, -2 ** 63 - 1, 2 ** 64, 10 ** 30]
FLOATS = [0.5, -0.5, 1.5, 2.25, -3.75, 1e-3, 5e-324, float('inf'), float('-inf'), 123456.789]
NAN_KEYS = [float('nan')]      # not part of fixed_keys(): the recorded table is the released routing, where a NaN key was stored as NULL
OTHERS = [None, True, False, (), (1,), (1.0,), ('a', 2), (None,), ((1,), 2), (b'a',), frozenset({1})]
FINDING_KEYS = [0, 0.0, -0.0, 1, 1.0, -1, -1.0, 2, 2.0, 2 ** 53, float(2 ** 53), 10, 10.0]
HASHSEED_KEYS = [frozenset({'a', 'b', 'c', 'dd'}), (frozenset({'x', 'y', 'zz', 'www'}), 1)]


def fixed_keys():
    """The recorded routing table (fixtures/routing.json) is over this list, in this order."""
    ks = list(STRS) + list(BYTES) + list(INTS) + list(BIGINTS) + list(FLOATS) + \
        [0.0, -0.0, 1.0, 2.0, float(2 ** 53), 1e300] + list(OTHERS)
    ks += [pk(k) for k in (None, True, (1,), 2 ** 63, 'a', 1.5)]      # bytes equal to other keys' serialised forms
    return ks


def key_class(k):
    if type(k) is str:
        return 'str'
    if type(k) is bytes:
        return 'bytes'
    if type(k) is int:
        return 'int64' if native_num(k) else 'bigint(pickled)'
    if type(k) is float:
        return 'float' if k == k else 'pickled:float(nan)'
    return 'pickled:' + type(k).__name__


def gen_pool(rng, size, finding=False):
    if finding:
        pool = rng.sample(FINDING_KEYS, min(size, len(FINDING_KEYS)))
        return pool + rng.sample(STRS, 2)
    pool = []
    srcs = [STRS, STRS, BYTES, INTS, INTS, BIGINTS, FLOATS + NAN_KEYS, OTHERS, OTHERS]
    while len(pool) < size:
        src = rng.choice(srcs)
        k = rng.choice(src)
        if rng.random() < 0.08:
            k = pk(k)
        if rng.random() < 0.15 and src is INTS:
            k = rng.randrange(-2 ** 63, 2 ** 63)
        if rng.random() < 0.1 and src is STRS:
            k = ''.join(rng.choice('abc\xe9€') for _ in range(rng.randrange(1, 6)))
        if any(val.same(k, p) for p in pool):
            continue
        if any(equal_pair_of_finding(k, p) for p in pool):      # the known finding has its own stream
            continue
        pool.append(k)
    return pool


# ---------------------------------------------------------------------------
# Disk configurations: the serialisation is a setting of the cache (a Disk subclass such as the shipped JSONDisk with its compress
# level; disk_pickle_protocol).  "Which shard holds a key is a fixed function of the key ... for keys the cache treats as equal":
# the cache compares keys by what ITS Disk makes of them, so the routing must be that Disk's hash.
# A configuration is None (all defaults), {'json': compress_level} or {'proto': pickle_protocol}.

DISK_CONFIGS = [{'json': 1}, {'proto': 0}, {'json': 0}, {'proto': 2}, {'json': 6}, {'proto': PROTO}, {'json': 9}]
# keys JSONDisk accepts; several spellings of one key (JSON has one array type and only text object keys)
JSON_KEYS = ['', 'a', 'ab', 'k1', '\xe9', '\u20ac', 'x' * 40, 0, 1, -1, 2 ** 40, 1.5, 1.0, True, False, None,
             [1, 'k'], (1, 'k'), [2, 'k'], (2, 'k'), [3, 'k'], (3, 'k'), [], (), [[1], 2], ((1,), 2), [1, [2, 3]], (1, (2, 3)),
             {'1': 'x'}, {1: 'x'}, {'2': 'x'}, {2: 'x'}, {'a': [1, 2]}, {'a': (1, 2)}, [None], (None,), ['a', 'b', 'c'], ('a', 'b', 'c')]
PROTO_KEYS = OTHERS + BIGINTS + NAN_KEYS + ['a', '\u20ac', b'a', 0, 7, 2 ** 32, 1.5, ('a', (2, 3.5), None), (2 ** 70, b'x')]


def disk_label(dc):
    if not dc:
        return 'Disk'
    return 'JSONDisk(compress_level=%d)' % dc['json'] if 'json' in dc else 'Disk(pickle_protocol=%d)' % dc['proto']


def disk_settings(dc):
    """the constructor arguments of Cache / FanoutCache for a configuration"""
    if not dc:
        return {}
    if 'json' in dc:
        return {'disk': diskcache.JSONDisk, 'disk_compress_level': dc['json']}
    return {'disk_pickle_protocol': dc['proto']}


def disk_reopen_settings(dc):
    """what a later handle has to repeat: the Disk class (it is not stored in the directory); the disk_ settings are stored"""
    return {'disk': diskcache.JSONDisk} if dc and 'json' in dc else {}


def own_disk(dc, directory):
    """a Disk of the configuration built by the harness (never handed to a cache): its hash is the routing the property promises"""
    if dc and 'json' in dc:
        return diskcache.JSONDisk(directory, compress_level=dc['json'])
    return diskcache.Disk(directory, pickle_protocol=dc['proto'] if dc else PROTO)


def ident_for(dc):
    """key identity under a configuration: JSONDisk compares keys by their JSON text, every pickle protocol by type and structure"""
    if dc and 'json' in dc:
        return lambda k: ('j', json.dumps(k))
    return ident


def gen_disk_pool(rng, dc, size):
    if 'json' in dc:
        pool = []
        while len(pool) < size:
            i = rng.randrange(len(JSON_KEYS))
            group = [JSON_KEYS[i]]
            if rng.random() < 0.7:      # the other spellings of that key
                group = [k for k in JSON_KEYS if json.dumps(k) == json.dumps(JSON_KEYS[i])]
            for k in group:
                if not any(val.same(k, p) for p in pool):
                    pool.append(k)
        return pool
    return gen_pool(rng, size)


def disk_history_ops(dc, ops):
    """JSONDisk keeps every value as compressed JSON: counters (incr / decr) and raw reads (read=True, Cache.read) are not part of
    what it offers, and a value handed over as a stream is stored raw and cannot be decoded by a plain lookup -- those calls become
    plain lookups / plain stores."""
    if 'json' not in dc:
        return ops
    out = []
    for o in ops:
        o = dict(o)
        if o['op'] in ('incr', 'decr'):
            o = {'op': 'get', 'k': o['k'], 'adv': o.get('adv', 0)}
        elif o['op'] == 'read':
            o['op'] = 'getitem'
        if o.get('rd'):
            del o['rd']
            if 'vb' in o:
                o['v'] = 'v-' + o.pop('vb')[:6]
        out.append(o)
    return out


# ---------------------------------------------------------------------------
# reference: one dictionary with expiry, written from the property text / documentation


class Ref:
    def __init__(self, identf=None):
        self.d = {}          # ident -> [key, value, expire_time|None, tag, stored-from-a-stream]   (insertion ordered)
        self.hits = 0
        self.misses = 0
        self.ident = identf or ident      # key identity: the documented one, or the one of the configured Disk (ident_for)

    def _live(self, e, now):
        return e is not None and (e[2] is None or e[2] > now)

    def set(self, k, v, ttl, tag, now, stream=False):
        e = self.d.get(self.ident(k))
        exp = None if ttl is None else now + ttl
        if e is None:
            self.d[self.ident(k)] = [k, v, exp, tag, stream]
        else:
            e[1:] = [v, exp, tag, stream]
        return True

    def add(self, k, v, ttl, tag, now, stream=False):
        if self._live(self.d.get(self.ident(k)), now):
            return False
        return self.set(k, v, ttl, tag, now, stream)

    @staticmethod
    def _meta(e, o):
        """The extra tuple members a lookup with expire_time=True / tag=True returns (documented order: value, expire_time, tag)."""
        o = o or {}
        m = ()
        if o.get('et'):
            m += (None if e is None else e[2],)
        if o.get('tg'):
            m += (None if e is None else e[3],)
        return m

    @staticmethod
    def _miss(o):
        o = o or {}
        if o.get('dflt', 'sent') == 'omit':      # no default given: None is returned
            return ('val', None) + Ref._meta(None, o)
        return ('missing',) + Ref._meta(None, o)

    def get(self, k, now, count=True, o=None):
        e = self.d.get(self.ident(k))
        if self._live(e, now):
            self.hits += count
            kind = 'handle' if (o or {}).get('rd') and e[4] else 'val'      # read=True: an open file for a value kept in a file
            return (kind, e[1]) + self._meta(e, o)
        self.misses += count
        return self._miss(o)

    def contains(self, k, now):
        return self._live(self.d.get(self.ident(k)), now)

    def touch(self, k, ttl, now):
        e = self.d.get(self.ident(k))
        if not self._live(e, now):
            return False
        e[2] = None if ttl is None else now + ttl
        return True

    def incr(self, k, delta, default, now):
        e = self.d.get(self.ident(k))
        if self._live(e, now):
            if type(e[1]) is not int:
                return ('exc', 'TypeError')
            e[1] += delta
            return ('val', e[1])
        if default is None:
            return ('exc', 'KeyError')
        if e is None:
            self.d[self.ident(k)] = [k, default + delta, None, None, False]
        else:
            e[1:] = [default + delta, None, None, False]
        return ('val', default + delta)

    def pop(self, k, now, o=None):
        e = self.d.get(self.ident(k))
        if self._live(e, now):
            del self.d[self.ident(k)]
            return ('val', e[1]) + self._meta(e, o)
        return self._miss(o)

    def delete(self, k, now):
        return self.pop(k, now)[0] == 'val'

    def clear(self):
        n = len(self.d)
        self.d.clear()
        return n

    def expire(self, now):
        dead = [i for i, e in self.d.items() if not self._live(e, now)]
        for i in dead:
            del self.d[i]
        return len(dead)

    def evict(self, tag):
        hit = [i for i, e in self.d.items() if e[3] == tag]
        for i in hit:
            del self.d[i]
        return len(hit)

    def keys(self):
        return [e[0] for e in self.d.values()]


# ---------------------------------------------------------------------------
# histories


OPS = ['set', 'set', 'set', 'setitem', 'add', 'get', 'get', 'getitem', 'contains', 'touch', 'incr', 'decr', 'pop', 'delete',
       'delitem', 'len', 'iter', 'reversed', 'expire', 'evict', 'clear', 'stats', 'volume', 'check', 'get', 'pop', 'read']
TTLS = [None, None, 0.5, 1.5, 2.5, 7.5]
TAGS = [None, None, 't1', 't2']
# tags that are false in a boolean context and are not None: ordinary tag values (the tag column takes the same native types as a
# key: int, float, str, bytes).  A history uses at most ONE of the two numeric ones: SQLite compares 0 and 0.0 equal, the Coq
# dictionary compares tags structurally, and the property says nothing about tags that are equal numbers of different types.
FALSY_TAGS = [0, 0.0, '', b'']


def falsy_tags(rng):
    """a non-empty selection of FALSY_TAGS with at most one numeric member"""
    pool = [rng.choice([0, 0.0]), '', b'']
    return rng.sample(pool, rng.choice([1, 2, 3]))


def tag_json(t):
    """tags inside a replay case (JSON): bytes as {'bytes': hex}"""
    return {'bytes': t.hex()} if isinstance(t, bytes) else t


def tag_value(t):
    return bytes.fromhex(t['bytes']) if isinstance(t, dict) else t
MISSING = ('missing',)
# how a lookup passes its default: the harness sentinel by keyword / positionally / no default at all (None comes back) / another object
DEFAULT_MODES = ['sent', 'sent', 'pos', 'omit', 'obj']
RETRY_OPS = ('set', 'add', 'touch', 'incr', 'decr', 'get', 'pop', 'delete')


def gen_history(rng, nops, npool):
    h = []
    tags = TAGS + (falsy_tags(rng) if rng.random() < 0.5 else [])
    evict_tags = ['t1', 't2', 't3'] + [t for t in tags if t is not None and t not in ('t1', 't2')]
    for _ in range(nops):
        op = rng.choice(OPS)
        if op == 'clear' and rng.random() < 0.6:
            op = 'set'
        o = {'op': op, 'k': rng.randrange(npool), 'adv': rng.choice([0, 0, 0, 1, 1, 2, 5])}
        if op in ('set', 'add', 'setitem'):
            o['v'] = rng.choice([rng.randrange(-5, 100), rng.randrange(-5, 100), 'v%d' % rng.randrange(5)])
        if op in ('set', 'add') and rng.random() < 0.2:
            # read=True: the value is handed over as a binary stream and kept in a file
            o['rd'] = True
            o['vb'] = bytes(rng.randrange(256) for _ in range(rng.choice([0, 1, 5, 40]))).hex()
            del o['v']
        if op in ('set', 'add', 'touch'):
            o['ttl'] = rng.choice(TTLS)
        if op in ('set', 'add'):
            o['tag'] = tag_json(rng.choice(tags))
        if op in ('incr', 'decr'):
            o['delta'] = rng.choice([1, 1, 2, -3, 10])
            o['default'] = rng.choice([0, 0, 5, None])
        if op in ('get', 'pop') and rng.random() < 0.6:
            # every optional parameter of the lookups: expire_time / tag alone and together, read (get), the ways of giving a default
            et, tg = rng.choice([(True, False), (False, True), (True, True), (False, False)])
            if et:
                o['et'] = True
            if tg:
                o['tg'] = True
            if op == 'get' and rng.random() < 0.4:
                o['rd'] = True
            o['dflt'] = rng.choice(DEFAULT_MODES)
        if op in RETRY_OPS and rng.random() < 0.15:
            o['retry'] = rng.random() < 0.7
        if op == 'evict':
            o['tag'] = tag_json(rng.choice(evict_tags))
        if op in ('expire', 'evict', 'clear'):
            o['fault'] = rng.choice([None, None, [rng.randrange(13), rng.randrange(0, 3), rng.randrange(1, 3)]])   # shard, partial, times
        h.append(o)
    return h


def op_label(o, full=False):
    """Operation name with the optional flags it was called with (the violation signature is per flag variant);
    full: also the way the default was given and retry (evidence histogram)."""
    s = o['op']
    for f, name in (('et', 'expire_time'), ('tg', 'tag'), ('rd', 'read')):
        if o.get(f):
            s += '+' + name
    if full and o.get('dflt', 'sent') != 'sent' and o['op'] in ('get', 'pop'):
        s += '+default:' + o['dflt']
    if full and 'retry' in o:
        s += '+retry'
    return s


def out(f):
    """Run f, map the outcome to a small algebra."""
    try:
        return ('val', f())
    except KeyError:
        return ('exc', 'KeyError')
    except TypeError:
        return ('exc', 'TypeError')
    except core.Timeout as e:
        return ('exc', 'Timeout')


def same_out(a, b):
    if a[0] != b[0]:
        return False
    if a[0] in ('val', 'handle'):
        return val.same(a[1], b[1]) and a[2:] == b[2:]      # a[2:]: expire time / tag a lookup returns beside the value
    return a[1:] == b[1:]


SENT = object()
OTHER_DEFAULT = ('a default that is never stored',)


def lookup(c, meth, key, o):
    """get / pop with the optional parameters the operation asks for; the outcome is
    (kind, value, *metadata): kind 'val' | 'handle' (an open file: its content) | 'missing' (the default object came back)."""
    mode = o.get('dflt', 'sent')
    dflt = OTHER_DEFAULT if mode == 'obj' else SENT
    args, kw = [key], {}
    if mode == 'pos':
        args.append(dflt)
    elif mode != 'omit':
        kw['default'] = dflt
    if o.get('rd'):
        kw['read'] = True
    if o.get('et'):
        kw['expire_time'] = True
    if o.get('tg'):
        kw['tag'] = True
    if 'retry' in o:
        kw['retry'] = o['retry']
    x = out(lambda: getattr(c, meth)(*args, **kw))
    if x[0] != 'val':
        return x
    r = x[1]
    nmeta = bool(o.get('et')) + bool(o.get('tg'))
    meta = ()
    if nmeta:
        if type(r) is not tuple or len(r) != 1 + nmeta:
            return ('malformed', repr(r)[:80])
        r, meta = r[0], tuple(r[1:])
    if mode != 'omit' and r is dflt:
        return ('missing',) + meta
    if hasattr(r, 'read') and hasattr(r, 'close'):
        try:
            data = r.read()
        finally:
            r.close()
        return ('handle', data) + meta
    return ('val', r) + meta


def model_view(o, a):
    """The operation and outcome as the Coq dictionary model (value-only lookups) sees them."""
    op = o['op']
    if op == 'read':
        return dict(o, op='getitem'), (('val', a[1]) if a[0] == 'handle' else a)
    if op in ('get', 'pop') and a[0] in ('val', 'handle', 'missing'):
        if a[0] == 'missing' or (o.get('dflt') == 'omit' and a[1] is None):
            return o, MISSING
        return o, ('val', a[1])
    return o, a


class Flaky:
    """Fault injection at the shard-method boundary: the first `times` calls of shard.<name> remove up to `partial`
    items (clear only), then raise Timeout(<number removed>); later calls go through."""

    def __init__(self, shard, name, partial, times):
        self.shard, self.name, self.partial, self.times = shard, name, partial, times
        self.real = getattr(shard, name)
        self.calls = 0
        setattr(shard, name, self)

    def __call__(self, *a, **kw):
        self.calls += 1
        if self.calls <= self.times:
            removed = 0
            if self.name == 'clear':
                for key in list(self.shard)[:self.partial]:
                    if self.shard.delete(key, retry=True):
                        removed += 1
            raise core.Timeout(removed)
        return self.real(*a, **kw)

    def restore(self):
        delattr(self.shard, self.name)


def stored_value(o):
    return bytes.fromhex(o['vb']) if 'vb' in o else o['v']


def apply_op(target, kind, o, key, now, stats_on, identf=ident):
    """kind: 'fanout' | 'cache' | 'ref'.  identf: the key identity iteration results are compared under.  Returns a comparable outcome."""
    op = o['op']
    if kind == 'ref':
        r = target
        if op == 'set':
            return ('val', r.set(key, stored_value(o), o['ttl'], tag_value(o['tag']), now, bool(o.get('rd'))))
        if op == 'setitem':
            r.set(key, o['v'], None, None, now)
            return ('val', None)
        if op == 'add':
            return ('val', r.add(key, stored_value(o), o['ttl'], tag_value(o['tag']), now, bool(o.get('rd'))))
        if op == 'get':
            return r.get(key, now, stats_on, o)
        if op == 'read':
            x = r.get(key, now, stats_on, {'rd': True})
            return x if x[0] != 'missing' else ('exc', 'KeyError')
        if op == 'getitem':
            x = r.get(key, now, stats_on)
            return x if x[0] == 'val' else ('exc', 'KeyError')
        if op == 'contains':
            return ('val', r.contains(key, now))
        if op == 'touch':
            return ('val', r.touch(key, o['ttl'], now))
        if op in ('incr', 'decr'):
            return r.incr(key, o['delta'] if op == 'incr' else -o['delta'], o['default'], now)
        if op == 'pop':
            return r.pop(key, now, o)
        if op == 'delete':
            return ('val', r.delete(key, now))
        if op == 'delitem':
            return ('val', None) if r.delete(key, now) else ('exc', 'KeyError')
        if op == 'len':
            return ('val', len(r.d))
        if op in ('iter', 'reversed'):
            return ('keys', sorted(repr(identf(k)) for k in r.keys()))
        if op == 'expire':
            return ('val', r.expire(now))
        if op == 'evict':
            return ('val', r.evict(tag_value(o['tag'])))
        if op == 'clear':
            return ('val', r.clear())
        if op == 'stats':
            return ('val', (r.hits, r.misses) if stats_on else (0, 0))
        return ('skip',)
    c = target
    rt = {'retry': o['retry']} if 'retry' in o else {}
    if op in ('set', 'add'):
        kw = dict(rt)
        if o.get('rd'):
            kw['read'] = True
        return out(lambda: getattr(c, op)(key, io.BytesIO(stored_value(o)) if o.get('rd') else o['v'], expire=o['ttl'], tag=tag_value(o['tag']), **kw))
    if op == 'setitem':
        def f():
            c[key] = o['v']
        return out(f)
    if op == 'get':
        return lookup(c, 'get', key, o)
    if op == 'read':
        x = out(lambda: c.read(key))
        if x[0] == 'val' and hasattr(x[1], 'read') and hasattr(x[1], 'close'):
            try:
                return ('handle', x[1].read())
            finally:
                x[1].close()
        return x
    if op == 'getitem':
        return out(lambda: c[key])
    if op == 'contains':
        return out(lambda: key in c)
    if op == 'touch':
        return out(lambda: c.touch(key, expire=o['ttl'], **rt))
    if op == 'incr':
        return out(lambda: c.incr(key, o['delta'], o['default'], **rt))
    if op == 'decr':
        return out(lambda: c.decr(key, o['delta'], o['default'], **rt))
    if op == 'pop':
        return lookup(c, 'pop', key, o)
    if op == 'delete':
        return out(lambda: c.delete(key, **rt))
    if op == 'delitem':
        def f():
            del c[key]
        return out(f)
    if op == 'len':
        return out(lambda: len(c))
    if op == 'iter':
        return ('keys', sorted(repr(identf(k)) for k in c))
    if op == 'reversed':
        return ('keys', sorted(repr(identf(k)) for k in reversed(c)))
    if op == 'expire':
        return out(lambda: c.expire())
    if op == 'evict':
        return out(lambda: c.evict(tag_value(o['tag'])))
    if op == 'clear':
        return out(lambda: c.clear())
    if op == 'stats':
        return out(lambda: tuple(c.stats(enable=stats_on)))
    return ('skip',)


def shard_dirs(directory):
    return sorted(n for n in os.listdir(directory) if os.path.isdir(os.path.join(directory, n)) and n.isdigit())


def aggregate_checks(fc, o, stats_on=False):
    """Aggregates cover every shard exactly once (decided on the implementation: FanoutCache against its own shards)."""
    op = o['op']
    bad = []
    shards = fc._shards
    if op == 'len':
        if len(fc) != sum(len(s) for s in shards):
            bad.append('len(fanout)=%d but the shards hold %s' % (len(fc), [len(s) for s in shards]))
    elif op == 'iter':
        a, b = list(fc), [k for s in shards for k in s]
        if len(a) != len(b) or not all(val.same(x, y) for x, y in zip(a, b)):
            bad.append('iteration is not the chain of the shards: %r vs %r' % (a[:6], b[:6]))
    elif op == 'reversed':
        a, b = list(reversed(fc)), list(reversed([k for s in shards for k in s]))
        if len(a) != len(b) or not all(val.same(x, y) for x, y in zip(a, b)):
            bad.append('reversed iteration is not the reverse of the iteration: %r vs %r' % (a[:6], b[:6]))
    elif op == 'volume':
        if fc.volume() != sum(s.volume() for s in shards):
            bad.append('volume() is not the sum over the shards')
    elif op == 'stats':
        per = [tuple(s.stats(enable=stats_on)) for s in shards]
        want = (sum(p[0] for p in per), sum(p[1] for p in per))
        got = tuple(fc.stats(enable=stats_on))
        if got != want:
            bad.append('stats()=%r but the shards report %r' % (got, per))
    elif op == 'check':
        w = fc.check()
        if list(w) != []:
            bad.append('check() reports %r' % (w[:3],))
    return bad


def run_history(case, base=None, mrec=None):
    """Returns (violation description | None, per-op record).  case: {'shards', 'keys_hex', 'ops', 'stats', 'cull'}."""
    keys = [pickle.loads(bytes.fromhex(x)) for x in case['keys_hex']]
    n = case['shards']
    stats_on = bool(case.get('stats'))
    own = base is None
    base = base or tempfile.mkdtemp(prefix='c13h-')
    d1 = tempfile.mkdtemp(prefix='f-', dir=base)
    d2 = tempfile.mkdtemp(prefix='c-', dir=base)
    clock = instr.Clock(1000.25)
    settings = dict(eviction_policy='none', size_limit=2 ** 40, statistics=stats_on)
    if not case.get('cull'):
        settings['cull_limit'] = 0
    settings.update(disk_settings(case.get('disk')))
    identf = ident_for(case.get('disk'))
    record = []
    bad = None
    with instr.Installed(clock, extra_modules=[fanout_mod]):
        fc = diskcache.FanoutCache(d1, shards=n, **settings)
        sc = diskcache.Cache(d2, **settings)
        ref = Ref(identf)
        try:
            for i, o in enumerate(case['ops']):
                clock.advance(o.get('adv', 0))
                now = clock.now
                key = keys[o['k'] % len(keys)]
                flaky = None
                if o.get('fault') and o['op'] in ('expire', 'evict', 'clear'):
                    sh, partial, times = o['fault']
                    flaky = Flaky(fc._shards[sh % n], o['op'], partial, times)
                try:
                    a = apply_op(fc, 'fanout', o, key, now, stats_on, identf)
                    agg = aggregate_checks(fc, o, stats_on)
                finally:
                    if flaky is not None:
                        flaky.restore()
                b = apply_op(sc, 'cache', o, key, now, stats_on, identf)
                c = apply_op(ref, 'ref', o, key, now, stats_on, identf)
                record.append((o['op'], a))
                if mrec is not None:
                    extra = None
                    if o['op'] == 'iter':
                        extra = list(fc)
                    elif o['op'] == 'reversed':
                        extra = list(reversed(fc))
                    mo, ma = model_view(o, a)
                    mrec.append((mo, o['k'] % len(keys), now, ma, extra))
                if case.get('cull') and o['op'] in ('len', 'iter', 'reversed', 'expire', 'clear', 'evict'):
                    # with culling on, a shard culls only its own expired items: the number of expired leftovers
                    # (which len / iteration / the counts include) legitimately differs from one cache
                    b = c = a
                if agg:
                    bad = {'at': i, 'op': op_label(o), 'why': agg[0], 'kind': 'aggregate'}
                    break
                if a[0] == 'skip':
                    continue
                if not same_out(a, c):
                    bad = {'at': i, 'op': op_label(o), 'why': 'FanoutCache returned %r, one dictionary returns %r' % (a, c), 'kind': 'reference'}
                    break
                if not same_out(a, b):
                    bad = {'at': i, 'op': op_label(o), 'why': 'FanoutCache returned %r, a single Cache %sreturned %r' % (
                        a, 'with the same %s ' % disk_label(case['disk']) if case.get('disk') else '', b), 'kind': 'single-cache'}
                    break
        finally:
            fc.close()
            sc.close()
    shutil.rmtree(d1, ignore_errors=True)
    shutil.rmtree(d2, ignore_errors=True)
    if own:
        shutil.rmtree(base, ignore_errors=True)
    return bad, record


def shrink(case, base, budget=60):
    """Delete operations while the history still fails."""
    ops = list(case['ops'])
    bad, _ = run_history(case, base)
    if bad is None:
        return case, None
    ops = ops[:bad['at'] + 1]
    i = len(ops) - 2
    while i >= 0 and budget > 0:
        trial = dict(case, ops=ops[:i] + ops[i + 1:])
        budget -= 1
        b, _ = run_history(trial, base)
        if b is not None:
            ops = trial['ops']
            bad = b
        i -= 1
    for o in ops:
        if o.get('adv'):
            trial_ops = [dict(x, adv=0) if x is o else x for x in ops]
            b, _ = run_history(dict(case, ops=trial_ops), base)
            if b is not None:
                ops, bad = trial_ops, b
    return dict(case, ops=ops), bad


def sig_of(case, bad):
    keys = [pickle.loads(bytes.fromhex(x)) for x in case['keys_hex']]
    used = [keys[o['k'] % len(keys)] for o in case['ops'] if o['op'] not in ('len', 'iter', 'reversed', 'expire', 'evict', 'clear', 'stats', 'volume', 'check')]
    dc = case.get('disk')
    if dc and 'json' in dc:       # JSONDisk: 1 and 1.0 are two keys ('1' and '1.0'), the recorded finding is about the native key columns
        return 'one_cache:%s:%s:JSONDisk' % (bad['kind'], bad['op'])
    for a in used:
        for b in used:
            if equal_pair_of_finding(a, b):
                return 'route_int_float_equal'
    return 'one_cache:%s:%s%s' % (bad['kind'], bad['op'], ':pickle_protocol' if dc else '')


def monitor_equivalence(ctx, res, nhist, nops, hist, modelcases=None):
    base = ctx.scratch('c13eq')
    nshrunk = 0
    for hno in range(nhist):
        n = SHARD_COUNTS[hno % len(SHARD_COUNTS)]
        finding_stream = (hno % 12 == 11)
        cull = (hno % 7 == 6)
        dc = DISK_CONFIGS[(hno // 5) % len(DISK_CONFIGS)] if (hno % 5 == 3 and not finding_stream) else None
        if dc is not None:
            # the shard count moves with the configuration, so that every configuration meets every shard count
            n = SHARD_COUNTS[(hno // 5 + hno // (5 * len(DISK_CONFIGS))) % len(SHARD_COUNTS)]
            pool = gen_disk_pool(ctx.rng, dc, ctx.rng.randrange(5, 11))
        else:
            pool = gen_pool(ctx.rng, ctx.rng.randrange(4, 10), finding=finding_stream)
        case = {'check': 'history', 'shards': n, 'stats': hno % 2 == 0, 'cull': cull,
                'keys': [repr(k)[:60] for k in pool], 'keys_hex': [pickle.dumps(k, protocol=4).hex() for k in pool],
                'ops': gen_history(ctx.rng, nops, len(pool)), 'stream': 'int_float_pairs' if finding_stream else 'main'}
        if dc is not None:
            case.update({'disk': dc, 'ops': disk_history_ops(dc, case['ops']), 'stream': disk_label(dc).split('(')[0] + ('' if 'json' in dc else '(pickle_protocol)')})
        mrec = [] if (modelcases is not None and not cull and dc is None) else None
        bad, record = run_history(case, base, mrec)
        if bad is None and mrec:
            modelcases.append((n, pool, mrec))
        for (op, a) in record:
            hist['ops'][op] = hist['ops'].get(op, 0) + 1
            hist['outcomes'][a[0]] = hist['outcomes'].get(a[0], 0) + 1
        hist['shards'][str(n)] = hist['shards'].get(str(n), 0) + 1
        hist['streams'][case['stream'] + ('+cull' if cull else '')] = hist['streams'].get(case['stream'] + ('+cull' if cull else ''), 0) + 1
        for k in pool:
            hist['key_classes'][key_class(k)] = hist['key_classes'].get(key_class(k), 0) + 1
        hist['faults'] += sum(1 for o in case['ops'] if o.get('fault'))
        for o in case['ops']:
            lab = op_label(o, full=True)
            if '+' in lab:
                hist['variants'][lab] = hist['variants'].get(lab, 0) + 1
        res.count(['hist', n, case['keys_hex'], case['ops']], nontrivial=len(record) > 5)
        if hno == 0:
            res.sample({'history': {'shards': n, 'keys': case['keys'], 'ops': case['ops'][:8], 'outcomes': [repr(a)[:60] for _, a in record[:8]]}})
        if bad is not None:
            if nshrunk < 4:
                nshrunk += 1
                small, sbad = shrink(case, base)
                if sbad is not None:
                    case, bad = small, sbad
            case = dict(case, failure=bad)
            res.violations.append(fw.Violation(sig_of(case, bad), 'history on %d shards%s, operation %d (%s): %s' % (
                case['shards'], ' with %s' % disk_label(case['disk']) if case.get('disk') else '', bad['at'], bad['op'], bad['why']), case))


# ---------------------------------------------------------------------------
# bulk removals (cull / expire / evict / clear): every shard exactly once, each shard against its own share of the size limit


BULK_POLICIES = ['least-recently-stored', 'least-recently-used', 'least-frequently-used', 'none']
BULK_SHARE = 2 ** 18            # the share of the size limit one shard gets in the skewed scenarios (bytes)
BULK_FILE = 40000               # a value of this many bytes is kept in a file (disk_min_file_size is 32768)
BULK_OPS = ('cull', 'expire', 'evict', 'clear')


def bulk_key_pool(disk, n, per_shard=30):
    """keys of several classes, grouped by the shard they are routed to (Disk.hash % shards; monitor_placement checks that
    routing on its own by watching which database receives the row)"""
    per = {i: [] for i in range(n)}
    j = 0
    while any(len(v) < per_shard for v in per.values()):
        for k in (j, 'k%d' % j, b'k%d' % j, (j, 'x'), j + 0.5):
            i = core.Disk.hash(disk, k) % n
            if len(per[i]) < per_shard:
                per[i].append(k)
        j += 1
    return per


def gen_bulk_case(rng, n, disk):
    """Writes under the virtual clock (expiry times, tags, small inline values and values kept in files), spread evenly or skewed
    towards a few shards so that those exceed their share while the total stays below the total limit, then cull() / expire() /
    evict(tag) / clear(); possibly a second round."""
    per = bulk_key_pool(disk, n)
    scenario = rng.choice(['expired', 'expired', 'skew', 'skew', 'mixed', 'over'])
    policy = rng.choice(BULK_POLICIES[:3] + BULK_POLICIES)
    cull_limit = 0 if rng.random() < 0.8 else 10
    total = 2 ** 30 if (scenario == 'expired' and rng.random() < 0.5) else BULK_SHARE * n
    keys, steps = [], []
    tags = TAGS + (falsy_tags(rng) if rng.random() < 0.5 else [])
    evict_tags = ['t1', 't2', 't3'] + [t for t in tags if t is not None and t not in ('t1', 't2')]

    fresh = {i: 0 for i in range(n)}

    def write(shard, size, ttl=None, tag=None, distinct=False):
        pool = per[shard]
        if distinct:                      # a key of that shard not used so far (while there is one): the writes add up
            k = pool[fresh[shard] % len(pool)]
            fresh[shard] += 1
        else:
            k = pool[rng.randrange(len(pool))]
        if not any(val.same(k, x) for x in keys):
            keys.append(k)
        ki = [i for i, x in enumerate(keys) if val.same(k, x)][0]
        steps.append({'op': 'set', 'k': ki, 'size': size, 'ttl': ttl, 'tag': tag_json(tag), 'adv': rng.choice([0.25, 0.5, 1.0])})

    for rnd in range(rng.choice([1, 1, 2])):
        hot = rng.sample(range(n), min(n, rng.choice([1, 1, 2])))
        if scenario in ('expired', 'mixed'):
            for _ in range(rng.randrange(5, 14)):
                write(rng.randrange(n), rng.choice([50, 300, 300, BULK_FILE]), rng.choice([None, 2.0, 2.0, 5.0, 20.0]), rng.choice(tags))
        if scenario in ('skew', 'mixed'):
            for h in hot:
                for _ in range(rng.choice([8, 12, 17, 25])):
                    write(h, BULK_FILE, rng.choice([None, None, None, 5.0]), rng.choice(tags), distinct=True)
            for _ in range(rng.randrange(0, 4)):
                write(rng.randrange(n), rng.choice([50, 300]), None, rng.choice(tags))
        if scenario == 'over':
            for i in range(n):
                for _ in range(rng.choice([8, 12])):
                    write(i, BULK_FILE, rng.choice([None, None, 5.0]), rng.choice(tags), distinct=True)
        op = rng.choice(['cull', 'cull', 'cull', 'cull', 'expire', 'evict', 'clear'])
        st = {'op': op, 'adv': rng.choice([0, 0, 3, 3, 6, 30]), 'retry': rng.random() < 0.3}
        if op == 'evict':
            st['tag'] = tag_json(rng.choice(evict_tags))
        steps.append(st)
        if op != 'cull' and rng.random() < 0.5:
            steps.append({'op': 'cull', 'adv': rng.choice([0, 3]), 'retry': False})
    return {'check': 'bulk', 'shards': n, 'scenario': scenario, 'policy': policy, 'cull_limit': cull_limit, 'size_limit': total,
            'keys': [repr(k)[:40] for k in keys], 'keys_hex': [pickle.dumps(k, protocol=4).hex() for k in keys], 'steps': steps}


def expired_rows(directory, now):
    """rows whose expiry time lies BEFORE now (a row that expires at exactly `now` is invisible to lookups but is not removed by
    Cache.expire / cull until later -- the unsharded cache behaves the same way, which the two comparisons establish)"""
    con = sqlite3.connect(os.path.join(directory, 'cache.db'))
    try:
        return con.execute('SELECT COUNT(*) FROM Cache WHERE expire_time IS NOT NULL AND expire_time < ?', (now,)).fetchone()[0]
    finally:
        con.close()


def tagged_rows(directory, tag):
    con = sqlite3.connect(os.path.join(directory, 'cache.db'))
    try:
        return con.execute('SELECT COUNT(*) FROM Cache WHERE tag = ?', (tag,)).fetchone()[0]
    finally:
        con.close()


def run_bulk(case, base=None):
    """Three drivers of the same steps: the FanoutCache; the caches it stands for -- one diskcache.Cache per shard, each with
    size_limit / shards, a key going to the one its routing names ('per-shard'); and ONE Cache with the whole limit ('single-cache',
    compared as long as nothing was or is removed for size: while no shard is over its share and the one cache is not over the total,
    and only with cull_limit 0, because a lazy cull at a write looks at one shard only).  Returned counts, len and the key sets
    after every bulk removal must agree; besides, on the FanoutCache's own shards: the count is the number of rows that
    disappeared, no row past its expiry time is left after cull / expire, no row with the tag after evict, none at all after clear, and after
    cull no shard with an eviction policy is above its limit.  Returns (failure | None, record)."""
    keys = [pickle.loads(bytes.fromhex(x)) for x in case['keys_hex']]
    n = case['shards']
    own = base is None
    base = base or tempfile.mkdtemp(prefix='c13b-')
    top = tempfile.mkdtemp(prefix='b-', dir=base)
    settings = dict(eviction_policy=case['policy'], cull_limit=case['cull_limit'])
    total = case['size_limit']
    clock = instr.Clock(1000.25)
    bad, record = None, []
    opened = []
    with instr.Installed(clock, extra_modules=[fanout_mod]):
        try:
            fc = diskcache.FanoutCache(os.path.join(top, 'f'), shards=n, size_limit=total, **settings)
            opened.append(fc)
            split = []
            for i in range(n):
                split.append(diskcache.Cache(os.path.join(top, 's%03d' % i), size_limit=total / n, **settings))
                opened.append(split[-1])
            one = diskcache.Cache(os.path.join(top, 'one'), size_limit=total, **settings)
            opened.append(one)
            one_ok = case['cull_limit'] == 0
            for at, st in enumerate(case['steps']):
                clock.advance(st.get('adv', 0))
                now = clock.now
                op = st['op']
                if op == 'set':
                    k = keys[st['k']]
                    v = b'v' * st['size']
                    i = core.Disk.hash(fc.disk, k) % n
                    fc.set(k, v, expire=st['ttl'], tag=tag_value(st['tag']), retry=True)
                    split[i].set(k, v, expire=st['ttl'], tag=tag_value(st['tag']), retry=True)
                    one.set(k, v, expire=st['ttl'], tag=tag_value(st['tag']), retry=True)
                    continue
                args = (tag_value(st['tag']),) if op == 'evict' else ()
                over = [i for i in range(n) if split[i].volume() > split[i].size_limit]
                if op == 'cull' and case['policy'] != 'none' and (over or one.volume() > one.size_limit):
                    one_ok = False              # something is removed for its size: which items depends on the division
                before = len(fc)
                vols = [s.volume() for s in fc._shards]
                a = out(lambda: getattr(fc, op)(*args, retry=st['retry']))
                b = ('val', sum(getattr(c, op)(*args, retry=st['retry']) for c in split))
                c1 = out(lambda: getattr(one, op)(*args, retry=st['retry']))
                got_keys = sorted(repr(ident(k)) for k in fc)
                split_keys = sorted(repr(ident(k)) for c in split for k in c)
                one_keys = sorted(repr(ident(k)) for k in one)
                record.append((op, a, b, c1 if one_ok else None, len(got_keys), over))
                ctxt = '%s(%s) at t=%r on %d shards (size_limit %d, i.e. %d per shard; policy %s; shard volumes before the call %r%s)' % (
                    op, ', '.join(map(repr, args)), now, n, total, total // n, case['policy'], vols,
                    '; over their share: %r' % over if over else '; no shard over its share')

                def fail(kind, why):
                    return {'at': at, 'op': op, 'kind': kind, 'why': ctxt + ': ' + why}
                if not same_out(a, b):
                    bad = fail('per-shard', 'FanoutCache returned %r, the shards run as %d separate caches return %r in total' % (a, n, b))
                elif got_keys != split_keys:
                    bad = fail('per-shard', 'FanoutCache keeps %d keys, the shards run as %d separate caches keep %d (first difference: %r)' % (
                        len(got_keys), n, len(split_keys), sorted(set(got_keys) ^ set(split_keys))[:3]))
                elif one_ok and not same_out(a, c1):
                    bad = fail('single-cache', 'FanoutCache returned %r, a single Cache returned %r' % (a, c1))
                elif one_ok and got_keys != one_keys:
                    bad = fail('single-cache', 'FanoutCache keeps %d keys, a single Cache keeps %d (first difference: %r)' % (
                        len(got_keys), len(one_keys), sorted(set(got_keys) ^ set(one_keys))[:3]))
                else:
                    dirs = [s.directory for s in fc._shards]
                    if a[0] != 'val' or a[1] != before - len(fc):
                        bad = fail('postcondition', 'returned %r, %d rows disappeared' % (a, before - len(fc)))
                    elif op in ('cull', 'expire') and any(expired_rows(d, now) for d in dirs):
                        bad = fail('postcondition', 'rows past their expiry time are left in shards %r' % ([i for i, d in enumerate(dirs) if expired_rows(d, now)],))
                    elif op == 'evict' and any(tagged_rows(d, tag_value(st['tag'])) for d in dirs):
                        bad = fail('postcondition', 'rows tagged %r are left in shards %r' % (tag_value(st['tag']), [i for i, d in enumerate(dirs) if tagged_rows(d, tag_value(st['tag']))]))
                    elif op == 'clear' and len(fc) != 0:
                        bad = fail('postcondition', '%d rows are left' % len(fc))
                    elif op == 'cull' and case['policy'] != 'none':
                        still = [i for i, s in enumerate(fc._shards) if len(s) and s.volume() > s.size_limit]
                        if still:
                            bad = fail('postcondition', 'shards %r are still above their limit (%r > %r)' % (
                                still, [fc._shards[i].volume() for i in still], fc._shards[still[0]].size_limit))
                if bad is not None:
                    break
        finally:
            for c in opened:
                c.close()
    shutil.rmtree(top, ignore_errors=True)
    if own:
        shutil.rmtree(base, ignore_errors=True)
    return bad, record


def shrink_bulk(case, base, budget=24):
    bad, _ = run_bulk(case, base)
    if bad is None:
        return case, None
    steps = list(case['steps'])[:bad['at'] + 1]
    # drop earlier bulk removals first, then halves of the writes, then single writes
    i = len(steps) - 2
    while i >= 0 and budget > 0:
        if steps[i]['op'] != 'set' or budget > 12:
            trial = steps[:i] + steps[i + 1:]
            budget -= 1
            b, _ = run_bulk(dict(case, steps=trial), base)
            if b is not None and b['kind'] == bad['kind'] and b['op'] == bad['op']:
                steps, bad = trial, b
        i -= 1
    return dict(case, steps=steps), bad


def monitor_bulk(ctx, res, ncases, hist):
    base = ctx.scratch('c13bulk')
    rng = ctx.rng
    seen = set()
    nshrunk = 0
    stats = {'cases': 0, 'calls': {}, 'calls_with_a_shard_over_its_share': 0, 'calls_compared_with_one_cache': 0, 'items_removed': 0, 'scenarios': {}}
    probe = diskcache.Cache(ctx.scratch('c13bk'))
    disk = probe.disk
    probe.close()
    for cno in range(ncases):
        n = SHARD_COUNTS[(cno + 3) % len(SHARD_COUNTS)]
        case = gen_bulk_case(rng, n, disk)
        try:
            bad, record = run_bulk(case, base)
        except Exception as e:  # noqa: BLE001  (a bulk removal or a write of the case raised: reported, not a crash of the check)
            sig = 'bulk_removal_raised:%s' % type(e).__name__
            if sig not in seen:
                seen.add(sig)
                res.violations.append(fw.Violation(sig, 'writes and bulk removals on %d shards (policy %s, size_limit %d) raised %r' % (
                    n, case['policy'], case['size_limit'], e), case))
            continue
        res.count(['bulk', n, case['policy'], case['cull_limit'], case['size_limit'], case['keys_hex'], case['steps']], nontrivial=any(r[1][0] == 'val' and r[1][1] for r in record))
        stats['cases'] += 1
        stats['scenarios'][case['scenario']] = stats['scenarios'].get(case['scenario'], 0) + 1
        for (op, a, b, c1, left, over) in record:
            stats['calls'][op] = stats['calls'].get(op, 0) + 1
            stats['calls_with_a_shard_over_its_share'] += bool(over)
            stats['calls_compared_with_one_cache'] += c1 is not None
            stats['items_removed'] += a[1] if a[0] == 'val' and isinstance(a[1], int) else 0
        if cno == 0:
            res.sample({'bulk_removal_case': {k: case[k] for k in ('shards', 'scenario', 'policy', 'cull_limit', 'size_limit')},
                        'calls': [(op, repr(a), repr(b), repr(c1)) for (op, a, b, c1, left, over) in record]})
        if bad is not None:
            sig = 'bulk_removal:%s:%s' % (bad['op'], bad['kind'])
            if sig in seen:
                continue
            seen.add(sig)
            if nshrunk < 2:
                nshrunk += 1
                small, sbad = shrink_bulk(case, base)
                if sbad is not None:
                    case, bad = small, sbad
            res.violations.append(fw.Violation(sig, bad['why'], dict(case, failure=bad)))
    hist['bulk'] = stats


# ---------------------------------------------------------------------------
# settings seen through two handles: changing or reloading a setting covers every shard


SET_DOMAIN = {'statistics': [0, 1], 'cull_limit': [0, 1000], 'eviction_policy': ['none', 'least-recently-stored'], 'size_limit': [0, 2 ** 40]}
SET_KEYS = sorted(SET_DOMAIN)
SET_POOL = ['a', 'b', 'k1', 'k2', 'k3', 'key', b'a', b'key', 0, 1, 2, 3, 7, 10, 255, (1,), ('a', 2), None]


def gen_settings_case(rng, n, nsteps):
    """Two handles A, B on one directory.  Steps: reset(key, value), reset(key) (reload), stats(enable, reset), writes,
    lookups, len, iteration, expire() through either handle, under the virtual clock."""
    init = {k: rng.choice(v) for k, v in SET_DOMAIN.items()}
    pool = rng.sample(SET_POOL, 8)
    steps = []
    while len(steps) < nsteps:
        h = rng.choice('AB')
        other = 'B' if h == 'A' else 'A'
        r = rng.random()
        adv = rng.choice([0, 0, 1, 3])
        if r < 0.16:
            key = rng.choice(SET_KEYS)
            steps.append({'op': 'reset', 'h': h, 'key': key, 'value': rng.choice(SET_DOMAIN[key]), 'adv': adv})
            if rng.random() < 0.6:
                steps.append({'op': 'reload', 'h': other, 'key': key, 'adv': 0})
        elif r < 0.28:
            steps.append({'op': 'reload', 'h': h, 'key': rng.choice(SET_KEYS), 'adv': adv})
        elif r < 0.36:
            steps.append({'op': 'stats', 'h': h, 'enable': rng.random() < 0.6, 'reset': rng.random() < 0.15, 'adv': adv})
            if rng.random() < 0.6:
                steps.append({'op': 'reload', 'h': other, 'key': 'statistics', 'adv': 0})
        elif r < 0.62:
            steps.append({'op': 'put', 'h': h, 'k': rng.randrange(len(pool)), 'v': rng.randrange(100), 'ttl': rng.choice([None, None, 2.0, 5.0]), 'adv': adv})
        elif r < 0.74:
            steps.append({'op': 'get', 'h': h, 'k': rng.randrange(len(pool) + 2), 'adv': adv})
        elif r < 0.84:
            steps.append({'op': 'getall', 'h': h, 'adv': adv})
        elif r < 0.90:
            steps.append({'op': 'len', 'h': h, 'adv': adv})
        elif r < 0.96:
            steps.append({'op': 'keys', 'h': h, 'adv': adv})
        else:
            steps.append({'op': 'expire', 'h': h, 'adv': adv})
    return {'check': 'settings', 'shards': n, 'init': init, 'keys': [repr(k) for k in pool],
            'keys_hex': [pickle.dumps(k, protocol=4).hex() for k in pool], 'steps': steps}


def sweep_keys(disk, n, count=3):
    """count text keys for every shard index (routing = Disk.hash % shards, which monitor_placement checks on its own)."""
    per = {i: [] for i in range(n)}
    j = 0
    while any(len(v) < count for v in per.values()):
        k = 'sweep-%d' % j
        j += 1
        i = core.Disk.hash(disk, k) % n
        if len(per[i]) < count:
            per[i].append(k)
    return per


def run_settings(case, base=None):
    """Drive two FanoutCache handles on one directory and two Cache handles on another with the same steps.
    Reference for the settings (from the documentation of reset): a handle loads every setting when it is opened,
    reset(key, value) stores the value for everybody and in this handle, reset(key) reloads the stored value into this
    handle, stats(enable=) is reset('statistics', enable).  Reference for everything else: the unsharded Cache pair.

    A write through a handle whose cull_limit is not 0 removes expired (and, over the size limit, evictable) items of
    the shard it goes to -- a single Cache removes them from the whole cache.  Such a write is therefore done as a
    sweep: one write into every shard (same keys written to the single Cache) with the clock standing still and a
    cull_limit above the number of items, after which both have removed exactly the same items."""
    keys = [pickle.loads(bytes.fromhex(x)) for x in case['keys_hex']]
    n = case['shards']
    own = base is None
    base = base or tempfile.mkdtemp(prefix='c13s-')
    d1 = tempfile.mkdtemp(prefix='f-', dir=base)
    d2 = tempfile.mkdtemp(prefix='c-', dir=base)
    clock = instr.Clock(1000.25)
    init = dict(case['init'])
    bad, soft, record = None, None, []
    with instr.Installed(clock, extra_modules=[fanout_mod]):
        F = {'A': diskcache.FanoutCache(d1, shards=n, **init)}
        C = {'A': diskcache.Cache(d2, **init)}
        # the second handle gives no setting at all: it finds what the first one stored (size_limit included: every shard keeps
        # the share stored in it, C18)
        F['B'] = diskcache.FanoutCache(d1, shards=n)
        C['B'] = diskcache.Cache(d2)
        stored = dict(init)
        mem = {'A': dict(init), 'B': dict(init)}
        sweeps = sweep_keys(F['A'].disk, n)
        nsweep = 0
        try:
            for i, st in enumerate(case['steps']):
                clock.advance(st.get('adv', 0))
                h, op = st['h'], st['op']
                f, c = F[h], C[h]
                want = None
                if op == 'reset':
                    a, b = out(lambda: f.reset(st['key'], st['value'])), out(lambda: c.reset(st['key'], st['value']))
                    stored[st['key']] = mem[h][st['key']] = st['value']
                    want = ('val', st['value'])
                elif op == 'reload':
                    a, b = out(lambda: f.reset(st['key'])), out(lambda: c.reset(st['key']))
                    mem[h][st['key']] = stored[st['key']]
                    want = ('val', stored[st['key']])
                elif op == 'stats':
                    a = out(lambda: tuple(f.stats(enable=st['enable'], reset=st['reset'])))
                    b = out(lambda: tuple(c.stats(enable=st['enable'], reset=st['reset'])))
                    stored['statistics'] = mem[h]['statistics'] = int(st['enable'])
                elif op == 'put':
                    ks = [keys[st['k'] % len(keys)]]
                    if mem[h]['cull_limit'] != 0:
                        home = core.Disk.hash(f.disk, ks[0]) % n
                        ks += [sweeps[j][nsweep % len(sweeps[j])] for j in range(n) if j != home]
                        nsweep += 1
                    a = ('val', [out(lambda: f.set(k, st['v'], expire=st['ttl'], retry=True)) for k in ks])
                    b = ('val', [out(lambda: c.set(k, st['v'], expire=st['ttl'], retry=True)) for k in ks])
                elif op == 'get':
                    k = keys[st['k']] if st['k'] < len(keys) else 'absent-%d' % st['k']
                    a, b = out(lambda: f.get(k, retry=True)), out(lambda: c.get(k, retry=True))
                elif op == 'getall':
                    a = ('val', [out(lambda: f.get(k, retry=True)) for k in keys])
                    b = ('val', [out(lambda: c.get(k, retry=True)) for k in keys])
                elif op == 'len':
                    a, b = out(lambda: len(f)), out(lambda: len(c))
                elif op == 'keys':
                    a, b = ('keys', sorted(repr(ident(k)) for k in f)), ('keys', sorted(repr(ident(k)) for k in c))
                elif op == 'expire':
                    a, b = out(lambda: f.expire(retry=True)), out(lambda: c.expire(retry=True))
                else:
                    continue
                record.append((h, op, a))
                if op in ('reset', 'reload'):
                    per = [getattr(s, st['key']) for s in f._shards]
                    if soft is None and any(not val.same(x, per[0]) for x in per):
                        soft = {'at': i, 'op': op, 'kind': 'shards_differ',
                                'why': 'after %s.reset(%r%s) the shards of that handle hold %r' % (
                                    h, st['key'], '' if op == 'reload' else ', %r' % (st['value'],), per)}
                    if st['key'] == 'size_limit':       # a shard reports its share: only the stored value is decided here
                        if op == 'reset' and not same_out(a, b):
                            bad = {'at': i, 'op': op, 'kind': 'single-cache', 'why': 'FanoutCache.reset returned %r, Cache.reset %r' % (a, b)}
                            break
                        continue
                    if a[0] != 'val' or a[1] != want[1]:
                        bad = {'at': i, 'op': op, 'kind': 'reference', 'why': '%s.reset(%r%s) returned %r; the value stored last is %r' % (
                            h, st['key'], '' if op == 'reload' else ', ...', a, want[1])}
                        break
                if not same_out(a, b):
                    bad = {'at': i, 'op': op, 'kind': 'single-cache',
                           'why': 'handle %s: FanoutCache %s -> %r, a single Cache driven by the same two-handle history -> %r' % (h, op, a, b)}
                    break
        finally:
            for x in list(F.values()) + list(C.values()):
                x.close()
    shutil.rmtree(d1, ignore_errors=True)
    shutil.rmtree(d2, ignore_errors=True)
    if own:
        shutil.rmtree(base, ignore_errors=True)
    if bad is not None and soft is not None:
        bad = dict(bad, why=bad['why'] + ' (earlier, step %d: %s)' % (soft['at'], soft['why']))
    return (bad or soft), record


def shrink_settings(case, base, budget=45):
    bad, _ = run_settings(case, base)
    if bad is None:
        return case, None
    steps = list(case['steps'])[:bad['at'] + 1]
    i = len(steps) - 2
    while i >= 0 and budget > 0:
        trial = steps[:i] + steps[i + 1:]
        budget -= 1
        b, _ = run_settings(dict(case, steps=trial), base)
        if b is not None and b['kind'] == bad['kind']:
            steps, bad = trial, b
        i -= 1
    return dict(case, steps=steps), bad


def monitor_settings(ctx, res, nhist, nsteps, hist):
    base = ctx.scratch('c13set')
    nshrunk = 0
    seen = set()
    for hno in range(nhist):
        n = SHARD_COUNTS[hno % len(SHARD_COUNTS)]
        case = gen_settings_case(ctx.rng, n, nsteps)
        bad, record = run_settings(case, base)
        res.count(['settings', n, case['init'], case['keys_hex'], case['steps']], nontrivial=len(record) > 5)
        for (h, op, a) in record:
            hist['settings_steps'][op] = hist['settings_steps'].get(op, 0) + 1
        if hno == 0:
            res.sample({'settings_history': {'shards': n, 'init': case['init'], 'steps': case['steps'][:8]}})
        if bad is not None:
            if nshrunk < 3:
                nshrunk += 1
                small, sbad = shrink_settings(case, base)
                if sbad is not None:
                    case, bad = small, sbad
            sig = 'settings_two_handles:%s:%s' % (bad['kind'], bad['op'])
            if sig in seen:
                continue
            seen.add(sig)
            res.violations.append(fw.Violation(sig, 'two handles on one FanoutCache directory with %d shards, step %d (%s): %s' % (
                n, bad['at'], bad['op'], bad['why']), dict(case, failure=bad)))


# ---------------------------------------------------------------------------
# routing


def db_rows(directory, sub):
    con = sqlite3.connect(os.path.join(directory, sub, 'cache.db'))
    try:
        return con.execute('SELECT COUNT(*) FROM Cache').fetchone()[0]
    finally:
        con.close()


def monitor_placement(ctx, res, keys, hist, obs):
    """The shard directory that receives each key is '%03d' % (Disk.hash(key) % shards)."""
    for n in SHARD_COUNTS:
        d = ctx.scratch('c13rt')
        fc = diskcache.FanoutCache(d, shards=n, eviction_policy='none')
        dirs = shard_dirs(d)
        want_dirs = ['%03d' % i for i in range(n)]
        case0 = {'check': 'placement', 'shards': n, 'dirs': dirs}
        if dirs != want_dirs:
            res.violations.append(fw.Violation('shard_dir_format', 'FanoutCache(shards=%d) created directories %r, the released layout is %r' % (
                n, dirs[:4], want_dirs[:4]), case0))
        obs['dirs'].append((n, dirs))
        per = {}
        for k in keys:
            before = {s: db_rows(d, s) for s in dirs}
            fc.set(k, 'x', retry=True)
            after = {s: db_rows(d, s) for s in dirs}
            got = [s for s in dirs if after[s] == before[s] + 1]
            h = core.Disk.hash(fc.disk, k)
            want = '%03d' % (h % n)
            case = {'check': 'placement', 'shards': n, 'key': repr(k)[:60], 'key_hex': pickle.dumps(k, protocol=4).hex(),
                    'received_by': got, 'disk_hash': h, 'expected_dir': want}
            res.count(['place', n, case['key_hex']], nontrivial=n > 1)
            hist['placements'] += 1
            if got != [want]:
                res.violations.append(fw.Violation('placement', 'key %s on %d shards: row appeared in %r, Disk.hash %% shards names %s' % (
                    repr(k)[:40], n, got, want), case))
            else:
                per[want] = per.get(want, 0) + 1
            # found again through every key-addressed read
            if fc.get(k, retry=True) != 'x' or k not in fc:
                res.violations.append(fw.Violation('placement_lookup', 'key %s stored on %d shards is not found again' % (repr(k)[:40], n), case))
            obs['keys'].append((n, k, h, h % n))
            fc.delete(k, retry=True)
        hist['keys_per_shard'][str(n)] = [per.get(s, 0) for s in want_dirs]
        # the size limit is divided among the shards
        for given in (None, 2 ** 30, 10 ** 9 + 7, 12345):
            d2 = ctx.scratch('c13sl')
            kw = {} if given is None else {'size_limit': given}
            f2 = diskcache.FanoutCache(d2, shards=n, **kw)
            total = core.DEFAULT_SETTINGS['size_limit'] if given is None else given
            lims = [s.size_limit for s in f2._shards]
            exact = Fraction(total, n)
            ok = all(type(l) in (int, float) and abs(Fraction(l) - exact) <= Fraction(abs(l)) / 2 ** 52 for l in lims) and len(set(lims)) == 1
            res.count(['limit', n, given], nontrivial=n > 1)
            obs['limits'].append((n, total, lims[0]))
            # was the share handed to the (new) shards?  decidable when it differs from what a Cache takes on its own
            dflt = core.DEFAULT_SETTINGS['size_limit']
            if ok and Fraction(total, n) != dflt:
                obs['handed'].append((given is not None, False, True))
            if not ok:
                res.violations.append(fw.Violation('size_limit_not_divided', 'FanoutCache(shards=%d, size_limit=%r): shard limits %r, expected %s each' % (
                    n, given, lims[:3], exact), {'check': 'limit', 'shards': n, 'size_limit': given, 'shard_limits': [repr(l) for l in lims]}))
            f2.close()
            # the shards go on adding up to that total: a handle opened without size_limit leaves every share as it is stored,
            # one opened with another total divides that one
            f3 = diskcache.FanoutCache(d2, shards=n)
            lims3 = [s.size_limit for s in f3._shards]
            f3.close()
            res.count(['limit-reopen', n, given], nontrivial=n > 1)
            if ok and exact != Fraction(dflt, n):       # existing shards, nothing given: handed the default share, or nothing
                if all(Fraction(l) == Fraction(dflt, n) for l in lims3) or lims3 == lims:
                    obs['handed'].append((False, True, lims3 != lims))
            if lims3 != lims:
                res.violations.append(fw.Violation('size_limit_not_divided', 'FanoutCache(shards=%d, size_limit=%r) reopened without size_limit: shard limits %r, '
                                                   'they were %r (%s each)' % (n, given, lims3[:3], lims[:3], exact),
                                                   {'check': 'limit', 'shards': n, 'size_limit': given, 'reopen': None, 'shard_limits': [repr(l) for l in lims3]}))
            total4 = 3 * 2 ** 20 + 5
            f4 = diskcache.FanoutCache(d2, shards=n, size_limit=total4)
            lims4 = [s.size_limit for s in f4._shards]
            f4.close()
            exact4 = Fraction(total4, n)
            res.count(['limit-regiven', n, given], nontrivial=n > 1)
            if lims4 != lims3:
                obs['handed'].append((True, True, True))
            if not (all(type(l) in (int, float) and abs(Fraction(l) - exact4) <= Fraction(abs(l)) / 2 ** 52 for l in lims4) and len(set(lims4)) == 1):
                res.violations.append(fw.Violation('size_limit_not_divided', 'FanoutCache(shards=%d, size_limit=%r) reopened with size_limit=%d: shard limits %r, '
                                                   'expected %s each' % (n, given, total4, lims4[:3], exact4),
                                                   {'check': 'limit', 'shards': n, 'size_limit': given, 'reopen': total4, 'shard_limits': [repr(l) for l in lims4]}))
        fc.close()


def disk_placement_case(case, d):
    """One FanoutCache constructed with a Disk configuration (case['disk']) on case['shards'] shards.  Decided from the directories
    alone: (a) the disk of the cache and of every shard is of the configured class with the configured settings; (b) each key's row
    appears in directory '%03d' % (H(key) % shards), H being the hash of a Disk of that configuration which the harness builds itself;
    (c) keys which that Disk serialises identically are received by ONE directory and are one item (a second spelling replaces, it
    does not add); (d) the same through later handles that do not repeat the disk_ settings -- a second construction (only the
    Disk class is given again: it is not stored) and pickle.loads(pickle.dumps(handle)): same disk settings, every item found under
    every spelling, a write of every key through the handle adds no row anywhere.  Returns (hits, info)."""
    dc, n = case['disk'], case['shards']
    keys = [pickle.loads(bytes.fromhex(x)) for x in case['keys_hex']]
    identf = ident_for(dc)
    label = 'FanoutCache(shards=%d, %s)' % (n, ', '.join('%s=%s' % (k, getattr(v, '__name__', v)) for k, v in sorted(disk_settings(dc).items())))
    hits, info = [], {'placements': 0, 'equal_groups': 0}
    mine = own_disk(dc, os.path.join(d, 'own'))
    top = os.path.join(d, 'f')
    fc = diskcache.FanoutCache(top, shards=n, eviction_policy='none', **disk_settings(dc))
    handles = [fc]

    def disk_hits(h, how):
        out = []
        for where, dk in [('the cache', h.disk)] + [('shard %d' % i, sh.disk) for i, sh in enumerate(h._shards)]:
            if type(dk) is not type(mine):
                out.append(('disk_config_not_applied', '%s%s: the disk of %s is a %s, configured: %s' % (label, how, where, type(dk).__name__, type(mine).__name__)))
            elif 'json' in dc and getattr(dk, 'compress_level', None) != dc['json']:
                out.append(('disk_config_not_applied', '%s%s: the disk of %s has compress_level %r' % (label, how, where, getattr(dk, 'compress_level', None))))
            elif 'proto' in dc and getattr(dk, 'pickle_protocol', None) != dc['proto']:
                out.append(('disk_config_not_applied', '%s%s: the disk of %s has pickle_protocol %r' % (label, how, where, getattr(dk, 'pickle_protocol', None))))
        return out[:1]
    try:
        hits += disk_hits(fc, '')
        dirs = shard_dirs(top)
        home = {}           # identity -> (directory, first spelling)
        for i, k in enumerate(keys):
            before = {s_: db_rows(top, s_) for s_ in dirs}
            fc.set(k, i, retry=True)
            after = {s_: db_rows(top, s_) for s_ in dirs}
            got = [s_ for s_ in dirs if after[s_] == before[s_] + 1]
            idk = identf(k)
            info['placements'] += 1
            if idk in home:
                info['equal_groups'] += 1
                if got or any(after[s_] != before[s_] for s_ in dirs):
                    hits.append(('equal_keys_different_shards', '%s: key %r is the key %r for this disk (both are stored as %r), which directory %s holds, but storing it added a row '
                                 'in %r' % (label, k, home[idk][1], mine.put(k)[0] if 'json' not in dc else json.dumps(k), home[idk][0], got)))
                    break
                continue
            want = '%03d' % (mine.hash(k) % n)
            if got != [want]:
                hits.append(('placement_by_own_disk', '%s: the row of key %r appeared in %r; the hash of a %s is %d, i.e. directory %s' % (
                    label, k, got, disk_label(dc), mine.hash(k), want)))
                break
            home[idk] = (want, k)
        last = {}
        for i, k in enumerate(keys):
            last[identf(k)] = i
        if not hits:
            for k in keys:
                r = fc.get(k, default=SENT, retry=True)
                if r is SENT or r != last[identf(k)]:
                    hits.append(('equal_keys_different_shards' if home.get(identf(k), (0, k))[1] is not k else 'placement_lookup',
                                 '%s: get(%r) returned %r, the value stored last under that key (spelled %r) is %r' % (
                                     label, k, 'nothing' if r is SENT else r, home[identf(k)][1], last[identf(k)])))
                    break
        if not hits:
            for how in ('a second construction with only the Disk class repeated', 'pickle.loads(pickle.dumps(handle))'):
                h = diskcache.FanoutCache(top, shards=n, **disk_reopen_settings(dc)) if how.startswith('a second') else pickle.loads(pickle.dumps(fc))
                handles.append(h)
                hits += disk_hits(h, ' seen through ' + how)
                rows = {s_: db_rows(top, s_) for s_ in dirs}
                for k in keys:
                    r = h.get(k, default=SENT, retry=True)
                    if r is SENT or r != last[identf(k)]:
                        hits.append(('later_handle_routes_differently', '%s seen through %s: get(%r) returned %r, stored: %r' % (
                            label, how, k, 'nothing' if r is SENT else r, last[identf(k)])))
                        break
                    h.set(k, last[identf(k)], retry=True)
                rows2 = {s_: db_rows(top, s_) for s_ in dirs}
                if not hits and rows2 != rows:
                    hits.append(('later_handle_routes_differently', '%s seen through %s: storing every key again changed the rows per directory from %r to %r' % (
                        label, how, rows, rows2)))
                if hits:
                    break
    finally:
        for h in handles:
            h.close()
    return hits, info


def disk_placement_cases(rng, thorough):
    out = []
    for ci, dc in enumerate(DISK_CONFIGS):
        counts = SHARD_COUNTS[1:] if thorough else [SHARD_COUNTS[1:][(ci + rng.randrange(4)) % 4], 8 if ci % 2 else 13]
        for n in sorted(set(counts)):
            keys = list(JSON_KEYS if 'json' in dc else PROTO_KEYS)
            rng.shuffle(keys)
            out.append({'check': 'disk_placement', 'disk': dc, 'shards': n, 'keys': [repr(k)[:40] for k in keys],
                        'keys_hex': [pickle.dumps(k, protocol=4).hex() for k in keys]})
    return out


def monitor_disk_placement(ctx, res, hist, thorough):
    seen = set()
    st = hist.setdefault('disk_configurations', {'cases': 0, 'placements': 0, 'keys_equal_to_an_earlier_one': 0, 'configurations': {}})
    for case in disk_placement_cases(ctx.rng, thorough):
        d = ctx.scratch('c13dk')
        try:
            hits, info = disk_placement_case(case, d)
        except Exception as e:  # noqa: BLE001
            hits, info = [('disk_config_raised:%s' % type(e).__name__, 'FanoutCache with %s on %d shards: %r' % (disk_label(case['disk']), case['shards'], e))], {}
        shutil.rmtree(d, ignore_errors=True)
        st['cases'] += 1
        st['placements'] += info.get('placements', 0)
        st['keys_equal_to_an_earlier_one'] += info.get('equal_groups', 0)
        st['configurations'][disk_label(case['disk'])] = st['configurations'].get(disk_label(case['disk']), 0) + 1
        res.count(['disk-placement', case['disk'], case['shards'], case['keys_hex']], nontrivial=case['shards'] > 1)
        for sig, desc in hits:
            sig = '%s:%s' % (sig, 'JSONDisk' if 'json' in case['disk'] else 'pickle_protocol')
            if sig in seen:
                continue
            seen.add(sig)
            res.violations.append(fw.Violation(sig, desc, dict(case, sig=sig)))


CHILD = r'''
import sys, json, pickle, os
sys.path.insert(0, sys.argv[1])
import diskcache
from diskcache import core
assert os.path.realpath(os.path.dirname(os.path.dirname(core.__file__))) == os.path.realpath(sys.argv[1]), core.__file__
mode, directory, shards = sys.argv[2], sys.argv[3], int(sys.argv[4])
keys = pickle.loads(bytes.fromhex(sys.stdin.read()))
if mode == 'unpickle':
    # the handle itself travels (as multiprocessing does with arguments): it must come back with the same shard count
    fc = pickle.loads(bytes.fromhex(sys.argv[5]))
else:
    fc = diskcache.FanoutCache(directory, shards=shards, eviction_policy='none')
out = {'hash': [], 'dbkey': [], 'found': [], 'seed': os.environ.get('PYTHONHASHSEED')}
for i, k in enumerate(keys):
    out['hash'].append(core.Disk.hash(fc.disk, k))
    dk, raw = fc.disk.put(k)
    out['dbkey'].append([bytes(dk).hex() if isinstance(dk, (bytes, memoryview)) else repr(dk), bool(raw)])
    if mode == 'write':
        fc.set(k, i, retry=True)
        out['found'].append(True)
    else:
        out['found'].append(fc.get(k, default=None, retry=True) == i)
if mode == 'unpickle':
    fc.set('written-through-the-unpickled-handle', 1, retry=True)
    out['len'] = len(fc)
fc.close()
print(json.dumps(out))
'''


def run_child(seed, mode, directory, shards, keys, handle_hex=None):
    env = dict(os.environ)
    env['PYTHONHASHSEED'] = seed
    env['PYTHONPATH'] = fw.REPO
    env['PYTHONDONTWRITEBYTECODE'] = '1'
    p = subprocess.run([fw.PY, '-c', CHILD, fw.REPO, mode, directory, str(shards)] + ([handle_hex] if handle_hex else []), input=pickle.dumps(keys, protocol=4).hex(),
                       stdout=subprocess.PIPE, stderr=subprocess.PIPE, text=True, env=env, timeout=300)
    if p.returncode != 0:
        raise RuntimeError('child interpreter failed: ' + p.stderr[-800:])
    return json.loads(p.stdout.strip().splitlines()[-1])


def fixture_table(keys, hashes):
    return {'comment': 'routing of a fixed key list as released (diskcache 5.6.3): Disk.hash and shard = hash % shards for shards in 1,2,3,8,13; '
                       'recreate only when a release deliberately changes the routing: cd /verif/harness && PYTHONPATH=$VERIF_REPO:. /venv/bin/python -c "import props.c13 as m; m.write_fixture()"',
            'shard_counts': SHARD_COUNTS,
            'keys': [{'key': struct_repr(k)[:80], 'hash': h, 'shards': [h % n for n in SHARD_COUNTS]} for k, h in zip(keys, hashes)]}


def write_fixture():
    keys = fixed_keys()
    d = tempfile.mkdtemp(prefix='c13fx-')
    try:
        o = run_child('0', 'write', d, 8, keys)
    finally:
        shutil.rmtree(d, ignore_errors=True)
    os.makedirs(os.path.dirname(FIXTURE), exist_ok=True)
    with open(FIXTURE, 'w', encoding='utf-8') as f:
        json.dump(fixture_table(keys, o['hash']), f, indent=1, sort_keys=True)
        f.write('\n')
    print('wrote', FIXTURE, len(keys), 'keys')


def monitor_processes(ctx, res, hist):
    """Routing in fresh interpreters under different hash seeds: identical, equal to the recorded table, and data
    written by one process is found by every other."""
    nfixed = len(fixed_keys())
    keys = fixed_keys() + NAN_KEYS          # the recorded table covers the first nfixed keys
    d = ctx.scratch('c13px')
    outs = [run_child(SEEDS[0], 'write', d, 8, keys)]
    for s in SEEDS[1:]:
        outs.append(run_child(s, 'read', d, 8, keys))
    hist['interpreters'] = len(outs)
    try:
        with open(FIXTURE, encoding='utf-8') as f:
            fx = json.load(f)
    except (OSError, ValueError) as e:
        fx = None
        res.disagreements.append(fw.Violation('fixture', 'fixtures/routing.json unreadable: %r' % (e,), {}, 'correspondence'))
    if fx is not None and len(fx['keys']) != nfixed:
        res.disagreements.append(fw.Violation('fixture', 'fixtures/routing.json has %d keys, the harness list has %d' % (len(fx['keys']), nfixed), {}, 'correspondence'))
        fx = None
    for i, k in enumerate(keys):
        hs = [o['hash'][i] for o in outs]
        case = {'check': 'process_routing', 'key': struct_repr(k)[:80], 'key_hex': pickle.dumps(k, protocol=4).hex(),
                'hash_by_seed': dict(zip(SEEDS, hs)), 'recorded': None if fx is None or i >= nfixed else fx['keys'][i]['hash']}
        res.count(['proc', case['key_hex']], nontrivial=True)
        if len(set(hs)) != 1:
            res.violations.append(fw.Violation('routing_differs_between_processes', 'Disk.hash(%s) differs between interpreters: %r' % (
                repr(k)[:40], case['hash_by_seed']), case))
        elif i >= nfixed:
            # a key without a recorded entry (NaN): it is pickled, so its hash is adler32 of the optimized pickle
            if hs[0] != zlib.adler32(pk(k)) & 0xFFFFFFFF:
                res.violations.append(fw.Violation('routing_changed', 'key %s is routed by hash %d, adler32 of its pickle is %d' % (
                    repr(k)[:40], hs[0], zlib.adler32(pk(k)) & 0xFFFFFFFF), case))
        elif fx is not None and (fx['keys'][i]['key'] != struct_repr(k)[:80] or fx['keys'][i]['hash'] != hs[0]
                                 or fx['keys'][i]['shards'] != [hs[0] % n for n in SHARD_COUNTS]):
            res.violations.append(fw.Violation('routing_changed', 'key %s is routed by hash %d, the released routing (fixtures/routing.json) is %r' % (
                repr(k)[:40], hs[0], fx['keys'][i]['hash']), case))
        if any(equal_pair_of_finding(k, k2) for k2 in keys):      # 0 / 0.0 / -0.0 ...: one key in different shards (known finding), hashes only
            continue
        for s, o in zip(SEEDS, outs):
            if not o['found'][i]:
                res.violations.append(fw.Violation('not_found_by_other_process', 'key %s written by the interpreter with hash seed %s is not found by the one with seed %s' % (
                    repr(k)[:40], SEEDS[0], s), dict(case, reader_seed=s)))
    # finding D14: keys whose pickle depends on the hash seed
    d2 = ctx.scratch('c13ph')
    outs2 = [run_child(SEEDS[0], 'write', d2, 8, HASHSEED_KEYS)] + [run_child(s, 'read', d2, 8, HASHSEED_KEYS) for s in SEEDS[1:]]
    seen = False
    for i, k in enumerate(HASHSEED_KEYS):
        dbs = [o['dbkey'][i][0] for o in outs2]
        res.count(['proc-hs', i], nontrivial=True)
        if len(set(dbs)) != 1 or not all(o['found'][i] for o in outs2):
            seen = True
            res.violations.append(fw.Violation('hashseed_dependent_pickle', 'key %s is serialised differently under different PYTHONHASHSEED (%d distinct database keys in %d interpreters): '
                                               'another process computes another key and shard and does not find the data' % (repr(k)[:50], len(set(dbs)), len(outs2)),
                                               {'check': 'hashseed_key', 'key': repr(k), 'key_index': i, 'db_keys_by_seed': dict(zip(SEEDS, dbs)),
                                                'found_by_seed': dict(zip(SEEDS, [o['found'][i] for o in outs2]))}))
    res.witnessed['hashseed_dependent_pickle'] = seen


def monitor_pickled_handle(ctx, res, hist):
    """A FanoutCache handle that is pickled and unpickled in another interpreter (what multiprocessing does with an
    argument) must route exactly as the original: same shard count, every item found, nothing outside the shard
    directories, and what it writes is found by a handle opened in the ordinary way."""
    keys = fixed_keys()[:40]
    for n in [c for c in SHARD_COUNTS if c != 8] + [8]:
        d = ctx.scratch('c13pk')
        fc = diskcache.FanoutCache(d, shards=n, eviction_policy='none')
        for i, k in enumerate(keys):
            fc.set(k, i, retry=True)
        handle = pickle.dumps(fc).hex()
        dirs_before = shard_dirs(d)
        fc.close()
        case = {'check': 'pickled_handle', 'shards': n, 'keys': len(keys)}
        res.count(['pickled-handle', n], nontrivial=True)
        try:
            o = run_child(SEEDS[-1], 'unpickle', d, n, keys, handle_hex=handle)
        except RuntimeError as e:
            res.violations.append(fw.Violation('unpickled_handle_unusable', 'FanoutCache(shards=%d) pickled and unpickled in another interpreter: %s' % (n, str(e)[-200:]), case))
            continue
        missing = [i for i, f in enumerate(o['found']) if not f and not any(equal_pair_of_finding(keys[i], k2) for k2 in keys)]
        fc2 = diskcache.FanoutCache(d, shards=n, eviction_policy='none')
        back = fc2.get('written-through-the-unpickled-handle', default=None, retry=True)
        total = len(fc2)
        fc2.close()
        dirs_after = shard_dirs(d)
        hist.setdefault('pickled_handles', []).append({'shards': n, 'missing': len(missing), 'dirs': len(dirs_after)})
        if missing or back != 1 or dirs_after != dirs_before or o.get('len') != total:
            res.violations.append(fw.Violation('unpickled_handle_routes_differently', 'FanoutCache(shards=%d) pickled and unpickled in another interpreter: %d of %d items not found '
                                               'through it; the item it wrote is %s by an ordinary handle; shard directories %d -> %d; len %r vs %r' % (
                                                   n, len(missing), len(keys), 'found' if back == 1 else 'NOT found', len(dirs_before), len(dirs_after), o.get('len'), total), case))


def witness_int_float():
    d = tempfile.mkdtemp(prefix='c13wit-')
    try:
        fc = diskcache.FanoutCache(d, shards=8)
        fc.set(1, 'a')
        r = fc.get(1.0, default=None)
        fc.close()
        c = diskcache.Cache(os.path.join(d, 'one'))
        c.set(1, 'a')
        one = c.get(1.0, default=None)
        c.close()
        return one == 'a' and r != 'a'
    finally:
        shutil.rmtree(d, ignore_errors=True)


# ---------------------------------------------------------------------------
# correspondence with the Coq model


def codec_terms(k):
    """(key term, codec term, hcodec term) with the real bytes as data."""
    t = val.py_term(k)
    if type(k) is str:
        h = '{| utf8 := fun s => if zlist_eqb s %s then %s else [0]; pack_d := fun _ => [0] |}' % (fw.cstr(k), fw.cbytes(k.encode('utf-8')))
    elif type(k) is float:
        h = '{| utf8 := fun _ => [0]; pack_d := fun f => if fl_eqb f %s then %s else [0] |}' % (val.fl_term(k), fw.cbytes(struct.pack('!d', k)))
    else:
        h = '{| utf8 := fun _ => [0]; pack_d := fun _ => [0] |}'
    if type(k) in (str, bytes) or native_num(k):
        c = '{| pkk := fun _ => [0]; pkv := fun _ => []; unpk := fun _ => None |}'
    else:
        c = '{| pkk := fun x => if pv_same x %s then %s else [0]; pkv := fun _ => []; unpk := fun _ => None |}' % (t, fw.cbytes(pk(k)))
    return t, c, h


def correspondence(ctx, res, obs, limit):
    checks, what = [], []
    items = obs['keys']
    if len(items) > limit:
        items = ctx.rng.sample(items, limit)
    for (n, k, h, sh) in items:
        t, c, hc = codec_terms(k)
        checks.append('let c := %s in let h := %s in match hash c h %s, shard c h %s %s with Some x, Some y => (x =? %d) && (y =? %d) | _, _ => false end' % (
            c, hc, t, t, fw.cz(n), h, sh))
        what.append(('shard', n, repr(k)[:50], h, sh))
    for (n, dirs) in obs['dirs']:
        for i, name in enumerate(dirs):
            checks.append('zlist_eqb (shard_dir %d) %s' % (i, fw.cstr(name)))
            what.append(('dir', n, i, name))
    for (n, total, lim) in obs['limits']:
        fr = Fraction(lim)
        exact = Fraction(total, n)
        if fr == exact:     # representable: the model's rational is the value itself
            checks.append('Qeq_bool (shard_size_limit %d %d) (Qmake (%d) %d)' % (total, n, fr.numerator, fr.denominator))
            what.append(('limit', n, total, repr(lim)))
    for (g, ex, handed) in sorted(set(obs['handed'])):
        cb = lambda b: 'true' if b else 'false'
        checks.append('Bool.eqb (shard_limit_passed %s %s) %s' % (cb(g), cb(ex), cb(handed)))
        what.append(('limit handed to a shard', 'size_limit given' if g else 'size_limit not given', 'shard exists' if ex else 'new shard', handed))
    rng = ctx.rng
    for i in range(40 if ctx.quick else 200):
        ln = rng.choice([0, 1, 2, 7, 8, 64, 300, 5551, 5552, 5553, 6000]) if i < 12 else rng.randrange(0, 400)
        b = bytes(rng.randrange(256) for _ in range(ln)) if i % 5 else b'\xff' * ln
        checks.append('adler32 %s =? %d' % (fw.cbytes(b), zlib.adler32(b) & 0xFFFFFFFF))
        what.append(('adler32', len(b), b[:8].hex()))
    bad, errors = fw.coq_mismatches('c13', ['DCPrelude', 'Val', 'DiskBase', 'Gen_Disk', 'Disk', 'FanoutBase', 'Gen_Fanout', 'Fanout'],
                                    'From Coq Require Import QArith.\nLocal Open Scope Z_scope.\n', checks, chunk=120)
    res.traces_validated += len(checks) - len(bad)
    for e in errors:
        res.disagreements.append(fw.Violation('model-eval', 'model evaluation failed: ' + e[-400:], {}, 'correspondence'))
    for i in bad[:5]:
        res.disagreements.append(fw.Violation('model_' + what[i][0], 'model and implementation disagree on %r' % (what[i],),
                                              {'what': list(map(str, what[i])), 'term': checks[i][:400]}, 'correspondence'))
    if checks:
        res.sample({'model_check': checks[0][:300], 'about': list(map(str, what[0]))})


MODEL_DEFS = '''From Coq Require Import QArith.
Local Open Scope Z_scope.
Definition res_eqb (a b : res) : bool :=
  match a, b with
  | RBool x, RBool y => Bool.eqb x y | RVal x, RVal y => pv_same x y | RDefault, RDefault => true | RNone, RNone => true
  | RCount x, RCount y => x =? y | RKeys x, RKeys y => list_eqb pv_same x y | RKeyError, RKeyError => true
  | RTypeError, RTypeError => true | _, _ => false
  end.
Definition E (k v : pyval) (e : option Z) (t : option pyval) (dl : Z) (df : option Z) (now : Z) : cargs :=
  {| a_key := k; a_value := v; a_expire := e; a_tag := t; a_delta := dl; a_idefault := df; a_now := now |}.
'''
KEYED_M = {'set': 'MSet', 'setitem': 'MSetItem', 'add': 'MAdd', 'get': 'MGet', 'getitem': 'MGetItem', 'contains': 'MContains',
           'touch': 'MTouch', 'incr': 'MIncr', 'decr': 'MDecr', 'pop': 'MPop', 'delete': 'MDelete', 'delitem': 'MDelItem'}


def pool_codecs(pool):
    """codec / hcodec records whose table functions know the real bytes of every key of the pool."""
    pkk, utf8, packd = '[0]', '[0]', '[0]'
    for k in pool:
        t = val.py_term(k)
        if type(k) is str:
            utf8 = 'if zlist_eqb s %s then %s else %s' % (fw.cstr(k), fw.cbytes(k.encode('utf-8')), utf8)
        elif type(k) is float and k == k:
            packd = 'if fl_eqb f %s then %s else %s' % (val.fl_term(k), fw.cbytes(struct.pack('!d', k)), packd)
        elif type(k) is not bytes and not native_num(k):
            pkk = 'if pv_same x %s then %s else %s' % (t, fw.cbytes(pk(k)), pkk)
    return ('{| pkk := fun x => %s; pkv := fun _ => []; unpk := fun _ => None |}' % pkk,
            '{| utf8 := fun s => %s; pack_d := fun f => %s |}' % (utf8, packd))


def res_term(o, a, extra):
    op = o['op']
    if op in ('iter', 'reversed'):
        return '(RKeys %s)' % fw.clist([val.py_term(k) for k in extra])
    if a[0] == 'exc':
        return {'KeyError': 'RKeyError', 'TypeError': 'RTypeError'}.get(a[1])
    if a[0] == 'missing':
        return 'RDefault'
    v = a[1]
    if op in ('set', 'add', 'touch', 'delete', 'contains'):
        return '(RBool %s)' % fw.cbool(v)
    if op in ('setitem', 'delitem'):
        return 'RNone'
    if op in ('len', 'expire', 'evict', 'clear'):
        return '(RCount %s)' % fw.cz(v)
    return '(RVal %s)' % val.py_term(v)


def model_history_term(n, pool, mrec):
    ops, exp = [], []
    for (o, ki, now, a, extra) in mrec:
        op = o['op']
        if op in ('stats', 'volume', 'check'):
            continue
        r = res_term(o, a, extra)
        if r is None:
            return None
        t = instr.ticks(now)
        if op in KEYED_M:
            e = fw.copt(instr.ticks(o.get('ttl')))
            tg = 'None' if o.get('tag') is None else '(Some %s)' % val.py_term(tag_value(o['tag']))
            v = val.py_term(stored_value(o)) if ('v' in o or 'vb' in o) else '(VInt 0)'
            ops.append('FKeyed %s (E %s %s %s %s %s %s %s)' % (KEYED_M[op], val.py_term(pool[ki]), v, e, tg, fw.cz(o.get('delta', 0)),
                                                          fw.copt(o.get('default')), fw.cz(t)))
        elif op == 'len':
            ops.append('FLen')
        elif op == 'clear':
            ops.append('FClear')
        elif op == 'expire':
            ops.append('FExpire %s' % fw.cz(t))
        elif op == 'evict':
            ops.append('FEvict %s' % val.py_term(tag_value(o['tag'])))
        elif op == 'iter':
            ops.append('FIter')
        elif op == 'reversed':
            ops.append('FReversed')
        else:
            return None
        exp.append(r)
    c, h = pool_codecs(pool)
    return ('let c := %s in let h := %s in list_eqb res_eqb (snd (fan_run pyval key_eq (fun k => k) '
            '(fun k => match hash c h k with Some x => x | None => 0 end) %d %s (repeat [] %d%%nat))) %s' % (
                c, h, n, fw.clist(ops), n, fw.clist(exp)))


def model_histories(ctx, res, modelcases, limit):
    cases = modelcases if len(modelcases) <= limit else ctx.rng.sample(modelcases, limit)
    checks, kept = [], []
    for (n, pool, mrec) in cases:
        t = model_history_term(n, pool, mrec)
        if t is not None:
            checks.append(t)
            kept.append((n, pool, mrec))
    bad, errors = fw.coq_mismatches('c13h', ['DCPrelude', 'Val', 'DiskBase', 'Gen_Disk', 'Disk', 'FanoutBase', 'Gen_Fanout', 'Fanout'],
                                    MODEL_DEFS, checks, chunk=8)
    res.traces_validated += len(checks) - len(bad)
    res.extra['model_histories'] = len(checks)
    for e in errors:
        res.disagreements.append(fw.Violation('model-eval', 'model evaluation failed: ' + e[-400:], {}, 'correspondence'))
    for i in bad[:3]:
        n, pool, mrec = kept[i]
        res.disagreements.append(fw.Violation('model_history', 'model fan_run and FanoutCache disagree on a history over %d shards' % n,
                                              {'shards': n, 'keys': [repr(k)[:50] for k in pool],
                                               'ops': [dict(o, now=now, out=repr(a)[:60]) for (o, ki, now, a, extra) in mrec][:80]}, 'correspondence'))
    if checks:
        res.sample({'model_history_check': checks[0][:400]})


# ---------------------------------------------------------------------------


def run(ctx, big=False):
    res = fw.Result()
    res.rule = ('(1) random histories over the FanoutCache API (set/[]=/add/get/[]/in/read/touch/incr/decr/pop/delete/del/len/iter/reversed/expire/evict/clear/'
                'stats/volume/check, tags, ttl under the virtual clock, injected Timeouts inside _remove) on 1,2,3,8,13 shards, each compared call by '
                'call with a reference dictionary-with-expiry and with one diskcache.Cache driven by the same history, aggregates compared with the '
                'shards themselves; key pools drawn from str, bytes, int64, pickled ints, floats, None/bool/tuples, bytes equal to pickles; int/float '
                'equal pairs only in their own stream.  Every optional parameter of the key-addressed methods is drawn: get/pop with expire_time, tag '
                '(each alone and together: the returned tuple is compared member by member), get with read=True (open files compared by content), '
                'default given by keyword / positionally / omitted / another object, set/add with read=True (value handed over as a stream), expire, '
                'tag, incr/decr default None/0/5, retry on every method that has it.  Tags: None, text, and in half of the histories the tags that are false '
                'in a boolean context ("", b"", and one of 0 / 0.0) for set / add / evict / get(tag=True) / pop(tag=True).  One history in five runs under a Disk '
                'configuration -- disk=JSONDisk with compress level 0, 1, 6, 9 (keys JSON can spell, with several spellings of one key: list / tuple, '
                'int / text object keys; no counters, raw reads or streams, which JSONDisk does not offer) or disk_pickle_protocol 0, 2, highest -- against '
                'one Cache with the same configuration and a dictionary keyed by that Disk\'s serialisation.  (1b) two-handle settings histories: handles A and B on one '
                'directory, reset(key, value) / reset(key) / stats(enable, reset) on statistics, cull_limit, eviction_policy, size_limit through '
                'either handle interleaved with writes, lookups, len, iteration and expire(), compared step by step with two handles on one '
                'unsharded Cache driven by the same steps and with the documented meaning of reset (the value stored last is what a reload '
                'returns); after every reset the setting must be the same on every shard of the handle.  (1c) bulk removals under the virtual clock: '
                'writes with expiry times and tags, inline values and values kept in files, spread over the shards or skewed towards one or two of them '
                '(so that a shard exceeds size_limit / shards while the total volume stays below size_limit), with every eviction policy, cull_limit 0 or 10, '
                'then cull() / expire() / evict(tag) / clear() with retry on and off: returned count, len and key set compared with one diskcache.Cache per '
                'shard (each with size_limit / shards, the key sent to the one its routing names) and, while nothing is removed for its size, with ONE '
                'Cache holding the whole limit; on the FanoutCache\'s own shards: count = rows that disappeared, no row past its expiry time left after cull / expire, '
                'no tagged row after evict, none after clear, no shard above its share after cull.  (2) every key of a fixed list stored on every shard count: the NNN directory whose cache.db '
                'receives the row is %03d of Disk.hash % shards; the list hashed and written/read in 4 fresh interpreters with different PYTHONHASHSEED '
                'and compared with fixtures/routing.json.  (2b) the same Disk configurations on 2-13 shards: the disk of the cache and of every shard is the '
                'configured one, every row appears in the directory named by the hash of a Disk of that configuration built by the harness, keys that '
                'Disk serialises identically are received by one directory and are one item, and a second construction that repeats only the Disk class '
                'and pickle.loads(pickle.dumps(handle)) show the same disk settings, find every item under every spelling and add no row when every key is '
                'stored again.  (3) model hash/shard/shard_dir/shard_size_limit/shard_limit_passed/adler32 against the implementation.  '
                'non-trivial = history with more than 5 executed operations, placement with more than one shard; distinct = distinct case content.')
    hist = {'ops': {}, 'outcomes': {}, 'shards': {}, 'streams': {}, 'key_classes': {}, 'keys_per_shard': {}, 'placements': 0, 'faults': 0, 'variants': {}, 'settings_steps': {}}
    obs = {'keys': [], 'dirs': [], 'limits': [], 'handed': []}
    thorough = (not ctx.quick) or big
    modelcases = []
    if ctx.quick:
        nhist, nops = (600, 50) if big else (400, 40)
    else:
        nhist, nops = 2400, 70
    monitor_equivalence(ctx, res, nhist, nops, hist, modelcases)
    monitor_settings(ctx, res, (90 if big else 60) if ctx.quick else 400, 30, hist)
    monitor_bulk(ctx, res, (60 if big else 40) if ctx.quick else 300, hist)
    keys = fixed_keys() + FINDING_KEYS + NAN_KEYS
    if thorough:
        keys = keys + [ctx.rng.randrange(-2 ** 63, 2 ** 63) for _ in range(60)] + \
            [''.join(ctx.rng.choice('abcxyz\xe9€\U0001F600') for _ in range(ctx.rng.randrange(1, 12))) for _ in range(60)] + \
            [ctx.rng.uniform(-1e6, 1e6) for _ in range(40)] + [bytes(ctx.rng.randrange(256) for _ in range(ctx.rng.randrange(1, 20))) for _ in range(40)]
    uniq = []
    for k in keys:
        if not any(val.same(k, u) for u in uniq):
            uniq.append(k)
    monitor_placement(ctx, res, uniq, hist, obs)
    monitor_disk_placement(ctx, res, hist, thorough)
    monitor_processes(ctx, res, hist)
    monitor_pickled_handle(ctx, res, hist)
    if not ctx.search_mode:
        correspondence(ctx, res, obs, 900 if ctx.quick else 4000)
        model_histories(ctx, res, modelcases, 64 if ctx.quick else 400)
    res.witnessed['route_int_float_equal'] = witness_int_float()
    res.extra.update({'operation_histogram': hist['ops'], 'outcome_histogram': hist['outcomes'], 'histories_by_shard_count': hist['shards'],
                      'histories_by_stream': hist['streams'], 'key_class_histogram': hist['key_classes'],
                      'optional_parameter_variants': hist['variants'], 'two_handle_settings_steps': hist['settings_steps'],
                      'keys_per_shard': hist['keys_per_shard'], 'placements': hist['placements'], 'injected_timeouts': hist['faults'],
                      'interpreters': hist.get('interpreters', 0), 'bulk_removals': hist.get('bulk', {}),
                      'disk_configurations': hist.get('disk_configurations', {}), 'exhaustive': False})
    return res


def search(ctx, broken):
    return run(ctx, big=True)


def replay(payload):
    case = payload.get('case', {})
    kind = case.get('check')
    if kind == 'history':
        bad, record = run_history(case)
        for (op, a) in record:
            print('  %-9s -> %r' % (op, a))
        print('history on %d shards: %s' % (case['shards'], 'agrees with one cache' if bad is None else bad['why']))
        return bad is None
    if kind == 'bulk':
        bad, record = run_bulk(case)
        for (op, a, b, c1, left, over) in record:
            print('  %-7s FanoutCache -> %r, one Cache per shard -> %r, a single Cache -> %s; %d keys left; shards over their share before the call: %r' % (
                op, a, b, 'not compared' if c1 is None else repr(c1), left, over))
        print('bulk removals on %d shards: %s' % (case['shards'], 'cover every shard, each against its share' if bad is None else bad['why']))
        return bad is None
    if kind == 'settings':
        bad, record = run_settings(case)
        for (h, op, a) in record:
            print('  %s %-7s -> %r' % (h, op, a))
        print('two handles on %d shards: %s' % (case['shards'], 'agree with two handles on one Cache' if bad is None else bad['why']))
        return bad is None
    if kind == 'disk_placement':
        d = tempfile.mkdtemp(prefix='c13r-')
        try:
            hits, info = disk_placement_case(case, d)
        finally:
            shutil.rmtree(d, ignore_errors=True)
        print('FanoutCache with %s on %d shards, %d keys stored one after the other (%d of them equal, for that disk, to an earlier one)' % (
            disk_label(case['disk']), case['shards'], info.get('placements', 0), info.get('equal_groups', 0)))
        for sig, desc in hits:
            print('MONITOR [%s]: %s' % (sig, desc))
        if not hits:
            print('every row went to the directory the hash of that disk names, equal keys share a directory, later handles agree')
        return not hits
    if kind == 'placement' and 'key_hex' in case:
        k = pickle.loads(bytes.fromhex(case['key_hex']))
        d = tempfile.mkdtemp(prefix='c13r-')
        try:
            fc = diskcache.FanoutCache(d, shards=case['shards'])
            fc.set(k, 'x', retry=True)
            got = [s for s in shard_dirs(d) if db_rows(d, s) == 1]
            want = '%03d' % (core.Disk.hash(fc.disk, k) % case['shards'])
            fc.close()
            print('key %r received by %r, expected %s' % (k, got, want))
            return got == [want]
        finally:
            shutil.rmtree(d, ignore_errors=True)
    if kind in ('process_routing', 'hashseed_key'):
        keys = [pickle.loads(bytes.fromhex(case['key_hex']))] if kind == 'process_routing' else [HASHSEED_KEYS[case['key_index']]]
        d = tempfile.mkdtemp(prefix='c13r-')
        try:
            outs = [run_child(SEEDS[0], 'write', d, 8, keys)] + [run_child(s, 'read', d, 8, keys) for s in SEEDS[1:]]
        finally:
            shutil.rmtree(d, ignore_errors=True)
        hs = [o['hash'][0] for o in outs]
        print('hash by seed:', dict(zip(SEEDS, hs)), 'found:', [o['found'][0] for o in outs], 'recorded:', case.get('recorded'))
        return len(set(hs)) == 1 and all(o['found'][0] for o in outs) and case.get('recorded') in (None, hs[0])
    if kind == 'limit':
        d = tempfile.mkdtemp(prefix='c13r-')
        try:
            kw = {} if case['size_limit'] is None else {'size_limit': case['size_limit']}
            fc = diskcache.FanoutCache(d, shards=case['shards'], **kw)
            lims = [s.size_limit for s in fc._shards]
            fc.close()
            total = core.DEFAULT_SETTINGS['size_limit'] if case['size_limit'] is None else case['size_limit']
            print('shard limits', lims, 'total', total)
            if 'reopen' in case:        # then opened again, without size_limit (None) or with another total
                kw = {} if case['reopen'] is None else {'size_limit': case['reopen']}
                fc = diskcache.FanoutCache(d, shards=case['shards'], **kw)
                lims = [s.size_limit for s in fc._shards]
                fc.close()
                total = total if case['reopen'] is None else case['reopen']
                print('reopened with', kw, '-> shard limits', lims, 'total', total)
            return all(abs(Fraction(l) - Fraction(total, case['shards'])) <= Fraction(abs(l)) / 2 ** 52 for l in lims)
        finally:
            shutil.rmtree(d, ignore_errors=True)
    print('replay payload:', json.dumps(payload)[:600])
    return True
